(* Props/C19.v — property theorems for C19 (one live instance per database directory), for the
   lock protocol of the REPAIRED sources: LockFile::acquire no longer truncates LOCK before it owns
   the lock (finding F19, fix e1df165) and the sub-directories are created only after the lock is held
   (finding F27, fix 1e26351), and a Tree dropped on a thread outside any tokio runtime closes the store
   itself before drop() returns (finding F28).  The lock is an flock on the inode that the NAME <dir>/LOCK denotes:
   the operations of a live store that rewrite its directory (create_checkpoint, restore_from_checkpoint) are
   part of the model, and the restore of the sources removes and re-creates only the named data sub-directories
   (flag restore_keeps_lock_name, generated from src/checkpoint.rs).  `current` is generated from the sources;
   C19_model_is_the_repaired_code stops checking as soon as the sources change variant.  Proofs by `exact`. *)
From Coq Require Import List Bool Arith.
From SKV Require Import Misc.Lock Misc.LockSpec Misc.Lock_proofs Misc.LockInst.
Import ListNotations.

Theorem C19_model_is_the_repaired_code : current = fixed_drop.
Proof. reflexivity. Qed.

(* never two holders, for every interleaving of any number of openers/processes *)
Theorem C19_mutual_exclusion : mutual_exclusion_stmt current.
Proof. exact (mutual_exclusion current eq_refl). Qed.
Theorem C19_holder_is_flock_owner : holder_is_flock_owner_stmt current.
Proof. exact (holder_is_flock_owner current eq_refl). Qed.

(* after close / drop inside a runtime / death of the holder's process the next open succeeds;
   more generally an open succeeds iff nobody owns the lock *)
Theorem C19_release_reopens : release_reopens_stmt current.
Proof. exact (release_reopens current eq_refl). Qed.
Theorem C19_free_open_succeeds : free_open_succeeds_stmt current.
Proof. exact (free_open_succeeds current eq_refl). Qed.
Theorem C19_held_open_refused : held_open_refused_stmt current.
Proof. exact (held_open_refused current). Qed.

(* no recovery (or other store-file) event of an opener precedes its lock grant or follows its release *)
Theorem C19_lock_before_recovery : lock_before_recovery_stmt current.
Proof. exact (lock_before_recovery current eq_refl). Qed.
Theorem C19_data_inside_lock : data_inside_lock_stmt current.
Proof. exact (data_inside_lock current eq_refl). Qed.

(* a failed open (refused or invalid options) leaves LOCK, the directories and the store files as they were, whatever
   options the refused opener asked for; and under every interleaving nobody but the lock owner changes anything *)
Theorem C19_refused_open_touches_nothing : refused_open_touches_nothing_stmt current.
Proof. exact (refused_open_touches_nothing_gen current eq_refl eq_refl eq_refl). Qed.
Theorem C19_no_foreign_modification : no_foreign_modification_stmt current.
Proof. exact (no_foreign_modification_all current eq_refl eq_refl eq_refl). Qed.
Theorem C19_refused_open_same_layout_touches_nothing : refused_open_same_layout_touches_nothing_stmt current.
Proof. exact (refused_open_same_layout_touches_nothing_gen current eq_refl eq_refl). Qed.
Theorem C19_refused_open_outside_known : refused_open_outside_known_stmt current.
Proof. exact (refused_open_outside_known current eq_refl). Qed.

(* regression record of F27: with the sub-directories created before the lock the property FAILS: opener 1
   holds a store without value log, opener 2 enables it, is refused — and vlog/ exists afterwards *)
Theorem C19_subdirs_before_lock_refuted :
  let s := run fixed wit_ops s0 in
  let s' := run fixed (open_ops 2 0 opts_vlog) s in
  is_live s 1 = true /\ st_op s 2 = None /\ st_op s' 2 = None /\
  st_fs s = wit_before_fixed /\ st_fs s' = wit_after_fixed /\
  f_vlog wit_before_fixed = false /\ f_vlog wit_after_fixed = true /\ f_lock wit_after_fixed = f_lock wit_before_fixed /\
  last (st_log s') (EvGone 0) = EvRefused 2.
Proof. exact refused_open_touches_nothing_refuted_fixed. Qed.
Theorem C19_subdirs_before_lock_fails : ~ refused_open_touches_nothing_stmt fixed.
Proof. exact refused_open_touches_nothing_fails_fixed. Qed.

(* regression record of F19: the code before the repair emptied LOCK in a refused open *)
Theorem C19_pinned_refused_open_touches_nothing_fails :
  ~ refused_open_touches_nothing_stmt pinned /\ ~ refused_open_same_layout_touches_nothing_stmt pinned.
Proof. exact refused_open_touches_nothing_fails_pinned. Qed.

(* a Tree dropped on a thread outside any tokio runtime: when drop() has returned the store is closed, the
   opener gone and the lock free (release logged after the shutdown side effects), and the next open succeeds —
   without waiting for any runtime to be shut down; the state "dropped, kept alive by the background tasks" is
   unreachable under every interleaving, so the end of a runtime changes nothing *)
Theorem C19_detached_drop_reopens : detached_drop_reopens_stmt current.
Proof. exact (detached_drop_reopens current eq_refl eq_refl). Qed.
Theorem C19_detached_drop_releases : detached_drop_releases_stmt current.
Proof. exact (detached_drop_releases current eq_refl eq_refl). Qed.
Theorem C19_never_detached : never_detached_stmt current.
Proof. exact (never_detached current eq_refl). Qed.
Theorem C19_runtime_gone_changes_nothing : runtime_gone_changes_nothing_stmt current.
Proof. exact (runtime_gone_changes_nothing current eq_refl). Qed.

(* regression record of F28 (class drop_outside_runtime_keeps_lock): the code before the repair kept the lock
   until the runtime of the dropped Tree was shut down — the statement fails in both its forms, for fixed_dirs
   and for every variant without the repair; the concrete witness; what held instead *)
Theorem C19_detached_drop_reopens_refuted :
  ~ detached_drop_reopens_stmt fixed_dirs /\ ~ detached_drop_reopens_old_stmt fixed_dirs.
Proof. exact detached_drop_reopens_fails_fixed_dirs. Qed.
Theorem C19_detached_drop_reopens_refuted_without_repair :
  forall v, detached_drop_closes v = false -> ~ detached_drop_reopens_stmt v.
Proof. exact detached_drop_reopens_refuted. Qed.
Theorem C19_detached_drop_witness_before_repair :
  let s := run fixed_dirs wit_ops s0 in
  let s1 := run fixed_dirs (drop_detached_ops 1) s in
  let s2 := run fixed_dirs (open_ops 2 0 plain) s1 in
  let s3 := run fixed_dirs (open_ops 2 0 plain) (run fixed_dirs [ORuntimeGone 1] s2) in
  is_live s 1 = true /\ pc_of s1 1 = Some PDetached /\ lock_owner s1 = Some 1 /\
  st_op s2 2 = None /\ last (st_log s2) (EvGone 0) = EvRefused 2 /\ st_fs s2 = st_fs s /\
  is_live s3 2 = true /\ lock_owner s3 = Some 2.
Proof. exact detached_drop_witness_fixed_dirs. Qed.

(* checkpoint and restore of a LIVE store (operations of the holder that rewrite its directory), anywhere in any
   interleaving: after a restore the store is live and still the owner of the lock on the inode called LOCK — the
   very inode it opened and locked, same content —, the kernel's lock table is unchanged and a new opener is refused;
   at every moment (also between the two halves of a restore) every opener that has opened LOCK has the inode the
   name denotes now; the kernel never holds more than one lock, and it is on that inode; a checkpoint changes
   neither LOCK nor the lock table nor any opener *)
Theorem C19_restore_keeps_lock : restore_keeps_lock_stmt current.
Proof. exact (restore_keeps_lock current eq_refl). Qed.
Theorem C19_lock_name_stable : lock_name_stable_stmt current.
Proof. exact (lock_name_stable current eq_refl). Qed.
Theorem C19_single_lock : single_lock_stmt current.
Proof. exact (single_lock current eq_refl). Qed.
Theorem C19_checkpoint_keeps_lock : checkpoint_keeps_lock_stmt current.
Proof. exact (checkpoint_keeps_lock current). Qed.

(* regression record of the seeded change C19d (never a state of the sources): a restore that also removes the
   regular files at the top level of the database directory unlinks LOCK; the holder keeps its flock on the now
   nameless inode, the next opener creates a new LOCK, locks it, and TWO stores are live on one directory.  Mutual
   exclusion fails for every variant without restore_keeps_lock_name; on the code as it is the same script ends
   with opener 2 refused *)
Theorem C19_restore_unlinks_two_live :
  let s := run restore_unlinks (wit_ops ++ [OCommit 1; OCheckpoint 1; OCommit 1]) s0 in
  let s1 := run restore_unlinks (restore_ops 1) s in
  let s2 := run restore_unlinks (open_ops 2 1 plain) s1 in
  is_live s 1 = true /\ lock_owner s = Some 1 /\ f_lock (st_fs s) = LPid 0 /\ f_lock_ino (st_fs s) = 1 /\ lock_identity s 1 = IdSame /\
  is_live s1 1 = true /\ f_lock (st_fs s1) = LAbsent /\ lock_owner s1 = None /\ st_flock s1 = [(1, 1)] /\ lock_identity s1 1 = IdAbsent /\
  is_live s2 1 = true /\ is_live s2 2 = true /\ in_critical s2 1 = true /\ in_critical s2 2 = true /\
  lock_owner s2 = Some 2 /\ st_flock s2 = [(2, 2); (1, 1)] /\ f_lock (st_fs s2) = LPid 1 /\ f_lock_ino (st_fs s2) = 2 /\
  lock_identity s2 1 = IdChanged /\ lock_identity s2 2 = IdSame /\
  s2 = run restore_unlinks wit_two_live s0.
Proof. exact restore_unlinks_two_live. Qed.
Theorem C19_restore_unlinks_mutual_exclusion_fails :
  ~ mutual_exclusion_stmt restore_unlinks /\ ~ restore_keeps_lock_stmt restore_unlinks.
Proof. exact mutual_exclusion_fails_restore_unlinks. Qed.
Theorem C19_mutual_exclusion_refuted_without_restore_keeping_lock :
  forall v, restore_keeps_lock_name v = false -> ~ mutual_exclusion_stmt v.
Proof. exact mutual_exclusion_refuted_without_keep. Qed.

(* non-vacuity *)
Example C19_release_reopens_example :
  forallb (fun rel =>
    let s := run current (open_ops 1 7 plain ++ [OCommit 1]) s0 in
    is_live s 1 && negb (is_live (run current rel s) 1) &&
    is_live (run current (open_ops 2 8 plain) (run current rel s)) 2)
    (releases 1 7) = true.
Proof. vm_compute. reflexivity. Qed.
Example C19_detached_drop_reopens_example :
  let s := run current wit_ops s0 in
  let s1 := run current (drop_detached_ops 1) s in
  let s2 := run current (open_ops 2 0 plain) s1 in
  is_live s 1 = true /\ pc_of s1 1 = None /\ lock_owner s1 = None /\ st_flock s1 = [] /\
  is_live s2 2 = true /\ lock_owner s2 = Some 2 /\
  st_log s1 = st_log s ++ [EvData 1 KShutdown; EvRelease 1; EvGone 1].
Proof. exact detached_drop_witness_fixed_drop. Qed.
Example C19_held_open_refused_example :
  let s := run current (open_ops 1 7 plain ++ open_ops 2 8 plain) s0 in
  is_live s 1 = true /\ st_op s 2 = None /\ lock_owner s = Some 1 /\
  st_fs s = st_fs (run current (open_ops 1 7 plain) s0).
Proof. vm_compute. repeat split; reflexivity. Qed.
(* a concrete script with a restore: opener 1 (process 7) opens, commits, checkpoints, commits, restores itself — between
   the two halves of the restore and after it opener 2 (process 8) is refused and LOCK is untouched; opener 1
   commits again, closes; then opener 2 gets in *)
Example C19_restore_example :
  let s := run current (open_ops 1 7 plain ++ [OCommit 1; OCheckpoint 1; OCommit 1]) s0 in
  let sm := run current ([ORestore 1] ++ open_ops 2 8 plain) s in
  let s1 := run current [OStep 1] sm in
  let s2 := run current (open_ops 2 8 plain ++ [OCommit 1]) s1 in
  let s3 := run current (close_ops 1 ++ open_ops 2 8 plain) s2 in
  is_live s 1 = true /\ lock_owner s = Some 1 /\ lock_identity s 1 = IdSame /\
  pc_of sm 1 = Some PRestoring /\ st_op sm 2 = None /\ lock_owner sm = Some 1 /\ last (st_log sm) (EvGone 0) = EvRefused 2 /\
  is_live s1 1 = true /\ lock_owner s1 = Some 1 /\ lock_identity s1 1 = IdSame /\ f_lock (st_fs s1) = LPid 7 /\
  is_live s2 1 = true /\ st_op s2 2 = None /\ lock_owner s2 = Some 1 /\ st_flock s2 = st_flock s /\
  f_lock (st_fs s2) = f_lock (st_fs s) /\ f_lock_ino (st_fs s2) = f_lock_ino (st_fs s) /\
  is_live s3 2 = true /\ lock_owner s3 = Some 2 /\ f_lock (st_fs s3) = LPid 8 /\ f_lock_ino (st_fs s3) = f_lock_ino (st_fs s).
Proof. exact restore_example_fixed_drop. Qed.
Example C19_restore_same_script_on_the_sources :
  let s := run current (wit_ops ++ [OCommit 1; OCheckpoint 1; OCommit 1]) s0 in
  let s1 := run current (restore_ops 1) s in
  let s2 := run current (open_ops 2 1 plain) s1 in
  is_live s 1 = true /\ lock_owner s = Some 1 /\
  is_live s1 1 = true /\ f_lock (st_fs s1) = LPid 0 /\ lock_owner s1 = Some 1 /\ st_flock s1 = [(1, 1)] /\ lock_identity s1 1 = IdSame /\
  is_live s2 1 = true /\ st_op s2 2 = None /\ last (st_log s2) (EvGone 0) = EvRefused 2 /\
  lock_owner s2 = Some 1 /\ st_flock s2 = [(1, 1)] /\ st_fs s2 = st_fs s1 /\
  f_data (st_fs s1) = S (S (f_data (st_fs s))).
Proof. exact restore_witness_fixed_drop. Qed.
