(* Props/C19.v — property theorems for C19 (one live instance per database directory), for the
   lock protocol of the REPAIRED sources: LockFile::acquire no longer truncates LOCK before it owns
   the lock (finding F19, fix e1df165) and the sub-directories are created only after the lock is held
   (finding F27, fix 1e26351), and a Tree dropped on a thread outside any tokio runtime closes the store
   itself before drop() returns (finding F28).  `current` is generated from the sources;
   C19_model_is_the_repaired_code stops checking as soon as the sources change variant.  Proofs by `exact`. *)
From Coq Require Import List Bool Arith.
From SKV Require Import Misc.Lock Misc.LockSpec Misc.Lock_proofs Misc.LockInst.
Import ListNotations.

Theorem C19_model_is_the_repaired_code : current = fixed_drop.
Proof. reflexivity. Qed.

(* never two holders, for every interleaving of any number of openers/processes *)
Theorem C19_mutual_exclusion : mutual_exclusion_stmt current.
Proof. exact (mutual_exclusion current). Qed.
Theorem C19_holder_is_flock_owner : holder_is_flock_owner_stmt current.
Proof. exact (holder_is_flock_owner current). Qed.

(* after close / drop inside a runtime / death of the holder's process the next open succeeds;
   more generally an open succeeds iff nobody owns the lock *)
Theorem C19_release_reopens : release_reopens_stmt current.
Proof. exact (release_reopens current). Qed.
Theorem C19_free_open_succeeds : free_open_succeeds_stmt current.
Proof. exact (free_open_succeeds current). Qed.
Theorem C19_held_open_refused : held_open_refused_stmt current.
Proof. exact (held_open_refused current). Qed.

(* no recovery (or other store-file) event of an opener precedes its lock grant or follows its release *)
Theorem C19_lock_before_recovery : lock_before_recovery_stmt current.
Proof. exact (lock_before_recovery current). Qed.
Theorem C19_data_inside_lock : data_inside_lock_stmt current.
Proof. exact (data_inside_lock current). Qed.

(* a failed open (refused or invalid options) leaves LOCK, the directories and the store files as they were, whatever
   options the refused opener asked for; and under every interleaving nobody but the lock owner changes anything *)
Theorem C19_refused_open_touches_nothing : refused_open_touches_nothing_stmt current.
Proof. exact (refused_open_touches_nothing_gen current eq_refl eq_refl). Qed.
Theorem C19_no_foreign_modification : no_foreign_modification_stmt current.
Proof. exact (no_foreign_modification_all current eq_refl eq_refl). Qed.
Theorem C19_refused_open_same_layout_touches_nothing : refused_open_same_layout_touches_nothing_stmt current.
Proof. exact (refused_open_same_layout_touches_nothing_gen current eq_refl). Qed.
Theorem C19_refused_open_outside_known : refused_open_outside_known_stmt current.
Proof. exact (refused_open_outside_known current). Qed.

(* regression record of F27: with the sub-directories created before the lock the property FAILS: opener 1
   holds a store without value log, opener 2 enables it, is refused — and vlog/ exists afterwards *)
Theorem C19_subdirs_before_lock_refuted :
  let s := run fixed wit_ops s0 in
  let s' := run fixed (open_ops 2 0 opts_vlog) s in
  is_live s 1 = true /\ st_op s 2 = None /\ st_op s' 2 = None /\
  st_fs s = wit_before_fixed /\ st_fs s' = wit_after_fixed /\
  f_vlog wit_before_fixed = false /\ f_vlog wit_after_fixed = true /\ f_lock wit_after_fixed = f_lock wit_before_fixed /\
  last (st_log s') (EvGone 0) = EvRefused 2.
Proof. exact refused_open_touches_nothing_refuted_fixed. Qed.
Theorem C19_subdirs_before_lock_fails : ~ refused_open_touches_nothing_stmt fixed.
Proof. exact refused_open_touches_nothing_fails_fixed. Qed.

(* regression record of F19: the code before the repair emptied LOCK in a refused open *)
Theorem C19_pinned_refused_open_touches_nothing_fails :
  ~ refused_open_touches_nothing_stmt pinned /\ ~ refused_open_same_layout_touches_nothing_stmt pinned.
Proof. exact refused_open_touches_nothing_fails_pinned. Qed.

(* a Tree dropped on a thread outside any tokio runtime: when drop() has returned the store is closed, the
   opener gone and the lock free (release logged after the shutdown side effects), and the next open succeeds —
   without waiting for any runtime to be shut down; the state "dropped, kept alive by the background tasks" is
   unreachable under every interleaving, so the end of a runtime changes nothing *)
Theorem C19_detached_drop_reopens : detached_drop_reopens_stmt current.
Proof. exact (detached_drop_reopens current eq_refl). Qed.
Theorem C19_detached_drop_releases : detached_drop_releases_stmt current.
Proof. exact (detached_drop_releases current eq_refl). Qed.
Theorem C19_never_detached : never_detached_stmt current.
Proof. exact (never_detached current eq_refl). Qed.
Theorem C19_runtime_gone_changes_nothing : runtime_gone_changes_nothing_stmt current.
Proof. exact (runtime_gone_changes_nothing current eq_refl). Qed.

(* regression record of F28 (class drop_outside_runtime_keeps_lock): the code before the repair kept the lock
   until the runtime of the dropped Tree was shut down — the statement fails in both its forms, for fixed_dirs
   and for every variant without the repair; the concrete witness; what held instead *)
Theorem C19_detached_drop_reopens_refuted :
  ~ detached_drop_reopens_stmt fixed_dirs /\ ~ detached_drop_reopens_old_stmt fixed_dirs.
Proof. exact detached_drop_reopens_fails_fixed_dirs. Qed.
Theorem C19_detached_drop_reopens_refuted_without_repair :
  forall v, detached_drop_closes v = false -> ~ detached_drop_reopens_stmt v.
Proof. exact detached_drop_reopens_refuted. Qed.
Theorem C19_detached_drop_witness_before_repair :
  let s := run fixed_dirs wit_ops s0 in
  let s1 := run fixed_dirs (drop_detached_ops 1) s in
  let s2 := run fixed_dirs (open_ops 2 0 plain) s1 in
  let s3 := run fixed_dirs (open_ops 2 0 plain) (run fixed_dirs [ORuntimeGone 1] s2) in
  is_live s 1 = true /\ pc_of s1 1 = Some PDetached /\ st_flock s1 = Some 1 /\
  st_op s2 2 = None /\ last (st_log s2) (EvGone 0) = EvRefused 2 /\ st_fs s2 = st_fs s /\
  is_live s3 2 = true /\ st_flock s3 = Some 2.
Proof. exact detached_drop_witness_fixed_dirs. Qed.

(* non-vacuity *)
Example C19_release_reopens_example :
  forallb (fun rel =>
    let s := run current (open_ops 1 7 plain ++ [OCommit 1]) s0 in
    is_live s 1 && negb (is_live (run current rel s) 1) &&
    is_live (run current (open_ops 2 8 plain) (run current rel s)) 2)
    (releases 1 7) = true.
Proof. vm_compute. reflexivity. Qed.
Example C19_detached_drop_reopens_example :
  let s := run current wit_ops s0 in
  let s1 := run current (drop_detached_ops 1) s in
  let s2 := run current (open_ops 2 0 plain) s1 in
  is_live s 1 = true /\ pc_of s1 1 = None /\ st_flock s1 = None /\
  is_live s2 2 = true /\ st_flock s2 = Some 2 /\
  st_log s1 = st_log s ++ [EvData 1 KShutdown; EvRelease 1; EvGone 1].
Proof. exact detached_drop_witness_fixed_drop. Qed.
Example C19_held_open_refused_example :
  let s := run current (open_ops 1 7 plain ++ open_ops 2 8 plain) s0 in
  is_live s 1 = true /\ st_op s 2 = None /\ st_flock s = Some 1 /\
  st_fs s = st_fs (run current (open_ops 1 7 plain) s0).
Proof. vm_compute. repeat split; reflexivity. Qed.
