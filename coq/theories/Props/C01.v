(* Props/C01.v — snapshot reads are stable. *)
From Coq Require Import List NArith Arith Bool.
From SKV Require Import Base.Lex Txn.WriteSet Spec.Store Spec.Cursor Spec.Machine.
Import ListNotations.

(* On the specification a snapshot's view is a function of the first s commits only:
   later commits never change it. *)
Theorem C01_view_ignores_later_commits :
  forall (h more : history) (s : nat), s <= length h -> view (h ++ more) s = view h s.
Proof.
  intros h more s Hs. unfold view. rewrite firstn_app.
  replace (s - length h) with 0 by (apply eq_sym, Nat.sub_0_le; exact Hs).
  cbn [firstn]. rewrite app_nil_r. reflexivity.
Qed.
