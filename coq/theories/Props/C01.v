(* Props/C01.v — snapshot reads are stable. *)
From Coq Require Import List NArith Arith Bool.
From SKV Require Import Base.Lex Txn.WriteSet Spec.Store Spec.Cursor Spec.Machine Lsm.CompactKey Lsm.CompactKeySpec Lsm.CompactKey_proofs.
Import ListNotations.

(* On the specification a snapshot's view is a function of the first s commits only:
   later commits never change it. *)
Theorem C01_view_ignores_later_commits :
  forall (h more : history) (s : nat), s <= length h -> view (h ++ more) s = view h s.
Proof.
  intros h more s Hs. unfold view. rewrite firstn_app.
  replace (s - length h) with 0 by (apply eq_sym, Nat.sub_0_le; exact Hs).
  cbn [firstn]. rewrite app_nil_r. reflexivity.
Qed.

(* A compaction of the versions of a key changes no answer of any reader that can exist — every
   registered snapshot horizon and every horizon at or above the newest version — for ALL version
   lists, snapshot sets, levels (bottom or not), versioning and retention settings. *)
Theorem C01_compact_key_view : compact_key_view_stmt.
Proof. exact compact_key_view. Qed.

(* non-vacuity: a reader at horizon 1 keeps its value under a newer hard delete at the bottom level *)
Example C01_compact_example :
  compact_key true false 0 0 [1%N] [ {| vseq := 2; vkind := CDel; vts := 2 |}; {| vseq := 1; vkind := CSet; vts := 1 |} ]%N
  = [ {| vseq := 2; vkind := CDel; vts := 2 |}; {| vseq := 1; vkind := CSet; vts := 1 |} ]%N.
Proof. vm_compute. reflexivity. Qed.
