(* Props/C01.v — snapshot reads are stable. *)
From Coq Require Import List NArith Arith Bool.
From SKV Require Import Base.Lex Txn.WriteSet Spec.Store Spec.Cursor Spec.Machine Lsm.CompactKey Lsm.CompactKeySpec Lsm.CompactKey_proofs.
From SKV Require Import Lsm.LevelsParams Lsm.Levels Lsm.LevelsSpec Lsm.Levels_proofs.
Import ListNotations.

(* On the specification a snapshot's view is a function of the first s commits only:
   later commits never change it. *)
Theorem C01_view_ignores_later_commits :
  forall (h more : history) (s : nat), s <= length h -> view (h ++ more) s = view h s.
Proof.
  intros h more s Hs. unfold view. rewrite firstn_app.
  replace (s - length h) with 0 by (apply eq_sym, Nat.sub_0_le; exact Hs).
  cbn [firstn]. rewrite app_nil_r. reflexivity.
Qed.

(* A compaction of the versions of a key changes no answer of any reader that can exist — every
   registered snapshot horizon and every horizon at or above the newest version — for ALL version
   lists, snapshot sets, levels (bottom or not), versioning and retention settings. *)
Theorem C01_compact_key_view : compact_key_view_stmt.
Proof. exact compact_key_view. Qed.

(* non-vacuity: a reader at horizon 1 keeps its value under a newer hard delete at the bottom level *)
Example C01_compact_example :
  compact_key true false 0 0 [1%N] [ {| vseq := 2; vkind := CDel; vts := 2 |}; {| vseq := 1; vkind := CSet; vts := 1 |} ]%N
  = [ {| vseq := 2; vkind := CDel; vts := 2 |}; {| vseq := 1; vkind := CSet; vts := 1 |} ]%N.
Proof. vm_compute. reflexivity. Qed.

(* ---- the level structure (Lsm/Levels.v; rules generated from the sources, see Props/C06.v) ---- *)
Theorem C01_levels_anchors : LEVELS_ANCHORS_OK = true.
Proof. reflexivity. Qed.
(* a snapshot's point read is the newest version at or below its horizon over ALL sources *)
Theorem C01_get_is_view : get_is_view_stmt current.
Proof. exact (get_is_view current eq_refl). Qed.
(* ... and stays what it was through ANY sequence of later commits (larger sequence numbers), rotations,
   flushes, compactions that were given the snapshot's horizon, and reopens — both through get and through
   the merging iterator *)
Theorem C01_run_view_stable : run_view_stable_stmt current.
Proof. exact (run_view_stable current eq_refl). Qed.
(* the invariant the above needs survives every such sequence *)
Theorem C01_run_inv : run_inv_stmt current.
Proof. exact (run_inv current eq_refl). Qed.
(* regression record: first-hit-wins in level 0 (before 4492089) answers a stale version in a reachable state *)
Theorem C01_old_l0_rule_stale : old_l0_rule_stale_stmt.
Proof. exact old_l0_rule_stale. Qed.
