(* Props/C12.v — property theorems for C12 (commit log).  Statements only; proofs by `exact`. *)
From Coq Require Import List NArith Arith Bool.
From SKV Require Import Params Codec.Wal Codec.WalInst.
Import ListNotations.

(* the generated parameters satisfy the side conditions under which the framing theorems are
   instantiated: header = 7 bytes < block size <= 65543 (a fragment length fits 16 bits),
   record-type numbering, from_u8 table consistent with the discriminants *)
Theorem C12_params_side_conditions : wal_params_ok = true.
Proof. vm_compute. reflexivity. Qed.
