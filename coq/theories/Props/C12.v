(* Props/C12.v — property theorems for C12 (commit log), instantiated with the generated
   parameters (block size from src/wal/mod.rs) and the concrete CRC-32.  Proofs by `exact`. *)
From Coq Require Import List NArith Arith Bool Sorted.
From SKV Require Import Params Base.Crc32 Codec.Wal Codec.WalSpec Codec.Wal_proofs Codec.WalInst.
Import ListNotations.

(* the generated parameters satisfy the side conditions under which the framing theorems are
   instantiated: header = 7 bytes < block size <= 65542 (a fragment length fits 16 bits),
   record-type numbering, from_u8 table consistent with the discriminants *)
Theorem C12_params_side_conditions : wal_params_ok = true.
Proof. vm_compute. reflexivity. Qed.

Lemma wal_crc_len : forall t d, length (wal_crc t d) = 4.
Proof. intros t d. reflexivity. Qed.

Lemma wb_gt_header : 7 < WB.
Proof. apply Nat.ltb_lt. vm_compute. reflexivity. Qed.
Lemma wb_fits_u16 : (N.of_nat WB <= 65542)%N.
Proof. apply N.leb_le. vm_compute. reflexivity. Qed.
Theorem C12_geometry : geometry_ok WB wal_crc.
Proof. unfold geometry_ok. split; [exact wb_gt_header | split; [exact wb_fits_u16 | exact wal_crc_len]]. Qed.

Section WithCompression.
Variable compress : list byte -> list byte.
Variable decompress : list byte -> option (list byte).

(* records of any size, across block boundaries and session splits, read back exactly and in order *)
Theorem C12_wal_roundtrip : wal_roundtrip_stmt WB wal_crc compress decompress.
Proof. exact (wal_roundtrip WB wal_crc compress decompress). Qed.

(* a segment cut at any byte yields exactly the records ending inside the cut: a prefix containing
   every record wholly before the cut *)
Theorem C12_wal_truncation_prefix : wal_truncation_prefix_stmt WB wal_crc compress decompress.
Proof. exact (wal_truncation_prefix WB wal_crc compress decompress). Qed.

(* damage at position p never affects the records lying wholly before p (any two byte strings
   agreeing on their first p bytes) *)
Theorem C12_wal_damage_keeps_earlier : wal_prefix_stable_stmt WB wal_crc decompress.
Proof. exact (wal_prefix_stable WB wal_crc compress decompress). Qed.

Theorem C12_wal_ends_increasing : wal_ends_increasing_stmt WB wal_crc decompress.
Proof. exact (wal_ends_increasing WB wal_crc compress decompress). Qed.

(* repair keeps exactly the delivered records *)
Theorem C12_wal_repair : wal_repair_stmt WB wal_crc compress decompress.
Proof. exact (wal_repair_ok WB wal_crc compress decompress). Qed.

(* records appended after recovering ANY cut of a segment are read back at the next open
   (the writer drops a torn tail before appending; formerly finding F10/F11) *)
Theorem C12_wal_append_after_recovery : wal_append_after_recovery_stmt WB wal_crc compress decompress.
Proof. exact (wal_append_after_recovery WB wal_crc compress decompress). Qed.
End WithCompression.

Definition idc (l : list byte) := l.
Definition nod (l : list byte) : option (list byte) := None.
Fixpoint list_list_eqb (a b : list (list byte)) : bool :=
  match a, b with [], [] => true | x :: r, y :: q => list_eqb x y && list_list_eqb r q | _, _ => false end.

(* non-vacuity: a concrete two-session history meets the hypotheses and reads back *)
Definition ex_sessions : list (list (list byte)) :=
  [[[1;2;3]; [4;5;6;7;8;9;10;11;12;13;14;15;16;17;18;19;20;21;22;23;24;25;26;27;28;29;30]]; [[9;9]]]%N.
Definition ex_file : list byte :=
  Eval vm_compute in match sessions 32 wal_crc idc nod false [] ex_sessions with Some f => f | None => [] end.
Example C12_roundtrip_example :
  sessions 32 wal_crc idc nod false [] ex_sessions = Some ex_file /\
  list_list_eqb (records 32 wal_crc nod ex_file) (concat ex_sessions) = true.
Proof. split; vm_compute; reflexivity. Qed.
