(* Props/C08.v *)
From Coq Require Import List NArith Arith Bool Lia.
From SKV Require Import Base.Lex Txn.WriteSet Txn.WriteSetSpec Txn.WriteSet_proofs Spec.Store Spec.Cursor Spec.Machine.
Import ListNotations.

(* a savepoint followed at once by a rollback to it changes nothing (base case of rollback_exact) *)
Lemma filter_keep_older (n : nat) (es : list entry) :
  Forall (fun e => e_sp e <= n) es -> filter (fun e => negb (Nat.eqb (e_sp e) (S n))) es = es.
Proof.
  intros Hall. induction Hall as [|e l He Hl IHl]; [reflexivity|]. cbn [filter].
  destruct (Nat.eqb_spec (e_sp e) (S n)) as [E|E]; [lia|]. cbn [negb]. rewrite IHl. reflexivity.
Qed.

Theorem C08_savepoint_rollback_noop_partial :
  forall s, (forall k es, In (k, es) (ws_map s) -> es <> [] /\ Forall (fun e => e_sp e <= ws_savepoints s) es) ->
  option_map ws_map (ws_rollback_to_savepoint (ws_set_savepoint s)) = Some (ws_map s).
Proof.
  intros s Hs. unfold ws_rollback_to_savepoint, ws_set_savepoint. cbn [ws_savepoints ws_map ws_seqno option_map].
  f_equal. revert Hs. generalize (ws_savepoints s) as n. intros n.
  induction (ws_map s) as [|[k es] m IH]; intros Hs; [reflexivity|].
  cbn [map filter].
  destruct (Hs k es (or_introl eq_refl)) as [Hne Hall].
  rewrite (filter_keep_older n es Hall).
  destruct es as [|e0 es0]; [congruence|].
  f_equal. apply IH. intros k' es' Hin. apply (Hs k' es'). right. exact Hin.
Qed.

(* After ANY program of writes / savepoints / rollbacks-to-savepoint the write-set model (the
   transcription of Transaction::write etc.) shows exactly what the frame specification shows:
   reads see the latest surviving pending write (a pending delete hides the key), a commit would
   apply the surviving writes in issue order, and rollback-to-savepoint is possible iff a savepoint
   is open. *)
Theorem C08_ws_refines_frames : ws_refines_frames_stmt.
Proof. exact ws_refines_frames. Qed.

(* rolling back to a savepoint restores exactly the pending writes that existed when it was set,
   for every reachable state and every balanced body *)
Theorem C08_rollback_exact : rollback_exact_stmt.
Proof. exact rollback_exact. Qed.

(* mode / closed / empty-key guards of the specification machine: the total decision table *)
Theorem C08_mode_guards :
  forall s id t k key v ts, assoc_get id (m_txns s) = Some t ->
    snd (step s (Write id k key v ts)) =
      if negb (mutable (t_mode t)) then RErr EReadOnly
      else if t_closed t then RErr EClosed
      else match key with [] => RErr EEmptyKey | _ => ROk end.
Proof.
  intros s id t k key v ts H. cbn [step]. rewrite H.
  destruct (mutable (t_mode t)); cbn [negb]; [|reflexivity].
  destruct (t_closed t); [reflexivity|]. destruct key; reflexivity.
Qed.

(* nothing of a rolled-back or dropped transaction reaches the committed history *)
Theorem C08_rollback_leaks_nothing : forall s id, m_hist (fst (step s (Rollback id))) = m_hist s.
Proof. intros s id. cbn [step]. destruct (assoc_get id (m_txns s)); reflexivity. Qed.

(* non-vacuity: a concrete nested-savepoint program *)
Example C08_example :
  let w k v := OWrite {| p_key := [k]; p_kind := KSet; p_val := Some [v]; p_ts := 0 |} in
  ws_get (m_run [w 1 1; OSave; w 1 2; OSave; w 2 3; ORoll; w 1 4; ORoll]%N ws_empty) [1%N] = Some (Some [1%N]).
Proof. vm_compute. reflexivity. Qed.
