(* Props/C08.v *)
From Coq Require Import List NArith Arith Bool Lia.
From SKV Require Import Base.Lex Txn.WriteSet Spec.Store Spec.Cursor Spec.Machine.
Import ListNotations.

(* a savepoint followed at once by a rollback to it changes nothing (base case of rollback_exact) *)
Lemma filter_keep_older (n : nat) (es : list entry) :
  Forall (fun e => e_sp e <= n) es -> filter (fun e => negb (Nat.eqb (e_sp e) (S n))) es = es.
Proof.
  intros Hall. induction Hall as [|e l He Hl IHl]; [reflexivity|]. cbn [filter].
  destruct (Nat.eqb_spec (e_sp e) (S n)) as [E|E]; [lia|]. cbn [negb]. rewrite IHl. reflexivity.
Qed.

Theorem C08_savepoint_rollback_noop_partial :
  forall s, (forall k es, In (k, es) (ws_map s) -> es <> [] /\ Forall (fun e => e_sp e <= ws_savepoints s) es) ->
  option_map ws_map (ws_rollback_to_savepoint (ws_set_savepoint s)) = Some (ws_map s).
Proof.
  intros s Hs. unfold ws_rollback_to_savepoint, ws_set_savepoint. cbn [ws_savepoints ws_map ws_seqno option_map].
  f_equal. revert Hs. generalize (ws_savepoints s) as n. intros n.
  induction (ws_map s) as [|[k es] m IH]; intros Hs; [reflexivity|].
  cbn [map filter].
  destruct (Hs k es (or_introl eq_refl)) as [Hne Hall].
  rewrite (filter_keep_older n es Hall).
  destruct es as [|e0 es0]; [congruence|].
  f_equal. apply IH. intros k' es' Hin. apply (Hs k' es'). right. exact Hin.
Qed.
