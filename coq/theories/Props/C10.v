(* Props/C10.v — time travel and history. *)
From Coq Require Import List NArith Arith Bool.
From SKV Require Import Base.Lex Txn.WriteSet Spec.Store Spec.Versioned Spec.Machine.
Import ListNotations.

(* a hard delete erases every earlier version for good; a replace erases them and stays *)
Theorem C10_hard_delete_erases : forall vs v, v_kind v = KDel -> retained (vs ++ [v]) = [].
Proof. intros vs v H. unfold retained. rewrite fold_left_app. cbn [fold_left]. unfold retain_step. rewrite H. reflexivity. Qed.
Theorem C10_replace_erases : forall vs v, v_kind v = KReplace -> retained (vs ++ [v]) = [v].
Proof. intros vs v H. unfold retained. rewrite fold_left_app. cbn [fold_left]. unfold retain_step. rewrite H. reflexivity. Qed.
