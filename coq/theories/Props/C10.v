(* Props/C10.v — time travel and history. *)
From Coq Require Import List NArith Arith Bool.
From SKV Require Import Base.Lex Txn.WriteSet Spec.Store Spec.Versioned Spec.Machine Lsm.CompactKey Lsm.CompactKeyOld Lsm.CompactKeyMid Lsm.CompactKeySpec Lsm.CompactKey_proofs.
Import ListNotations.

(* a hard delete erases every earlier version for good; a replace erases them and stays *)
Theorem C10_hard_delete_erases : forall vs v, v_kind v = KDel -> retained (vs ++ [v]) = [].
Proof. intros vs v H. unfold retained. rewrite fold_left_app. cbn [fold_left]. unfold retain_step. rewrite H. reflexivity. Qed.
Theorem C10_replace_erases : forall vs v, v_kind v = KReplace -> retained (vs ++ [v]) = [v].
Proof. intros vs v H. unfold retained. rewrite fold_left_app. cbn [fold_left]. unfold retain_step. rewrite H. reflexivity. Qed.

(* With versioning enabled and unlimited retention a compaction changes the history of no reader
   that can exist (registered snapshots, and horizons at or above the newest version): no retained
   version is lost, nothing a hard delete or replace erased comes back — for ALL version lists,
   snapshot sets and levels. *)
Theorem C10_compact_key_history : compact_key_history_stmt.
Proof. exact compact_key_history. Qed.

(* finite retention: nothing erased comes back, and whatever is lost lies outside the window *)
Theorem C10_compact_key_history_retention : compact_key_history_retention_stmt.
Proof. exact compact_key_history_retention. Qed.

(* the reads themselves (get / range) are preserved as well *)
Theorem C10_compact_key_view : compact_key_view_stmt.
Proof. exact compact_key_view. Qed.

(* non-vacuity: [Set@3; Del@2; Set@1] with a reader at horizon 1: the reader keeps Set@1, and the
   hard delete stays so that Set@1 never reappears in the history of later readers *)
Example C10_barrier_kept_example :
  compact_key false true 0 0 [1%N]
    [ {| vseq := 3; vkind := CSet; vts := 3 |}; {| vseq := 2; vkind := CDel; vts := 2 |}; {| vseq := 1; vkind := CSet; vts := 1 |} ]%N
  = [ {| vseq := 3; vkind := CSet; vts := 3 |}; {| vseq := 2; vkind := CDel; vts := 2 |}; {| vseq := 1; vkind := CSet; vts := 1 |} ]%N.
Proof. vm_compute. reflexivity. Qed.

(* ---- barriers and the levels below the compaction ---------------------------------------- *)
(* erases_deeper is the right notion: the history over the compaction's versions and any deeper
   list is the history of the former alone when it holds, and both histories appended otherwise *)
Theorem C10_erases_deeper_history : erases_deeper_history_stmt.
Proof. exact erases_deeper_history. Qed.

(* above the bottom level (versioning, unlimited retention) a compaction never loses the barrier
   (hard delete / replace) of a reader that can exist *)
Theorem C10_compact_barrier_kept : compact_key_barrier_kept_stmt.
Proof. exact compact_key_barrier_kept. Qed.

(* ... so the history such a reader sees over this level AND everything deeper is unchanged:
   versions in deeper tables that a hard delete or replace of this level erased stay erased *)
Theorem C10_compact_history_deeper : compact_key_history_deeper_stmt.
Proof. exact compact_key_history_deeper. Qed.
(* the same without any assumption on what is appended below *)
Theorem C10_compact_history_deeper_any : compact_key_history_deeper_any_stmt.
Proof. exact compact_key_history_deeper_any. Qed.

(* finite retention: nothing erased comes back over this level and everything deeper, provided the
   newest barrier the reader sees is inside the retention window ... *)
Theorem C10_compact_history_deeper_retention : compact_key_history_deeper_retention_stmt.
Proof. exact compact_key_history_deeper_retention. Qed.
(* ... and the proviso is needed in general: a REPLACE outside the window is dropped as superseded *)
Theorem C10_compact_retention_barrier_lost : compact_key_retention_barrier_lost_stmt.
Proof. exact compact_key_retention_barrier_lost. Qed.

(* regression record: the decision before the repair (an older hard delete always stale, also above
   the bottom level) violates C10_compact_barrier_kept and C10_compact_history_deeper *)
Theorem C10_compact_old_decision_loses_barrier : compact_key_old_history_deeper_fails_stmt.
Proof. exact compact_key_old_history_deeper_fails. Qed.

(* the witness spelled out: level [Set@3; Del@2] above a deeper [Set@1], no snapshot, reader at 3.
   Old decision: Del@2 dropped, Set@1 is back in the history; repaired decision: Del@2 stays *)
Example C10_old_decision_resurrects :
  let vs := [ {| vseq := 3; vkind := CSet; vts := 0 |}; {| vseq := 2; vkind := CDel; vts := 0 |} ]%N in
  let deep := [ {| vseq := 1; vkind := CSet; vts := 0 |} ]%N in
  history_deeper vs deep 3%N = [ {| vseq := 3; vkind := CSet; vts := 0 |} ]%N /\
  history_deeper (compact_key_old false true 0 0 [] vs) deep 3%N
    = [ {| vseq := 3; vkind := CSet; vts := 0 |}; {| vseq := 1; vkind := CSet; vts := 0 |} ]%N /\
  history_deeper (compact_key false true 0 0 [] vs) deep 3%N = [ {| vseq := 3; vkind := CSet; vts := 0 |} ]%N /\
  compact_key false true 0 0 [] vs = vs.
Proof. vm_compute. repeat split; reflexivity. Qed.

(* ---- finite retention: hard-delete barriers need no window proviso ------------------------ *)
(* for ANY retention and clock: when the newest barrier a reader that can exist sees is a hard delete,
   nothing it erased comes back over this level and everything deeper *)
Theorem C10_compact_history_deeper_hard : compact_key_history_deeper_hard_stmt.
Proof. exact compact_key_history_deeper_hard. Qed.

(* documented limitation: a REPLACE barrier outside the window is still dropped above the bottom
   level (required by the crate's pinned unit tests) and deeper versions come back *)
Theorem C10_compact_retention_replace_lost : compact_key_retention_replace_lost_stmt.
Proof. exact compact_key_retention_replace_lost. Qed.

(* regression record: the decision between the two repairs (no accumulator) violates
   C10_compact_history_deeper_hard *)
Theorem C10_compact_mid_decision_loses_barrier : compact_key_mid_history_deeper_hard_fails_stmt.
Proof. exact compact_key_mid_history_deeper_hard_fails. Qed.

(* the witness spelled out: level [Set@3; Del@2] (timestamps 0) above a deeper [Set@1], retention 10
   at clock 100, no snapshot, reader at 3.  Decision between the repairs: Del@2 dropped as
   superseded, Set@1 is back; current decision: Del@2 stays.  A newer REPLACE in the same visibility
   boundary makes the older hard delete redundant and it is dropped: [Rep@3; Del@2] -> [Rep@3] *)
Example C10_mid_decision_resurrects :
  let vs := [ {| vseq := 3; vkind := CSet; vts := 0 |}; {| vseq := 2; vkind := CDel; vts := 0 |} ]%N in
  let deep := [ {| vseq := 1; vkind := CSet; vts := 0 |} ]%N in
  history_deeper vs deep 3%N = [ {| vseq := 3; vkind := CSet; vts := 0 |} ]%N /\
  history_deeper (compact_key_mid false true 10 100 [] vs) deep 3%N
    = [ {| vseq := 3; vkind := CSet; vts := 0 |}; {| vseq := 1; vkind := CSet; vts := 0 |} ]%N /\
  history_deeper (compact_key false true 10 100 [] vs) deep 3%N = [ {| vseq := 3; vkind := CSet; vts := 0 |} ]%N /\
  compact_key false true 10 100 [] vs = vs /\
  compact_key false true 0 0 []
    [ {| vseq := 3; vkind := CRep; vts := 0 |}; {| vseq := 2; vkind := CDel; vts := 0 |} ]%N
  = [ {| vseq := 3; vkind := CRep; vts := 0 |} ]%N.
Proof. vm_compute. repeat split; reflexivity. Qed.

(* the accumulator is reset at a change of visibility boundary: with a snapshot at 6 the hard delete
   Del@3 (outside the window) is the barrier of the reader registered at 6, the newer Del@7 is
   invisible to it — Del@3 stays.  Without the snapshot Del@7 makes it redundant *)
Example C10_barrier_kept_across_snapshot :
  let vs := [ {| vseq := 7; vkind := CDel; vts := 0 |}; {| vseq := 5; vkind := CSoft; vts := 0 |};
              {| vseq := 3; vkind := CDel; vts := 0 |} ]%N in
  compact_key false true 10 100 [6%N] vs = vs /\
  compact_key false true 10 100 [] vs = [ {| vseq := 7; vkind := CDel; vts := 0 |} ]%N.
Proof. vm_compute. split; reflexivity. Qed.
