(* Props/C10.v — time travel and history. *)
From Coq Require Import List NArith Arith Bool.
From SKV Require Import Base.Lex Txn.WriteSet Spec.Store Spec.Versioned Spec.Machine Lsm.CompactKey Lsm.CompactKeySpec Lsm.CompactKey_proofs.
Import ListNotations.

(* a hard delete erases every earlier version for good; a replace erases them and stays *)
Theorem C10_hard_delete_erases : forall vs v, v_kind v = KDel -> retained (vs ++ [v]) = [].
Proof. intros vs v H. unfold retained. rewrite fold_left_app. cbn [fold_left]. unfold retain_step. rewrite H. reflexivity. Qed.
Theorem C10_replace_erases : forall vs v, v_kind v = KReplace -> retained (vs ++ [v]) = [v].
Proof. intros vs v H. unfold retained. rewrite fold_left_app. cbn [fold_left]. unfold retain_step. rewrite H. reflexivity. Qed.

(* With versioning enabled and unlimited retention a compaction changes the history of no reader
   that can exist (registered snapshots, and horizons at or above the newest version): no retained
   version is lost, nothing a hard delete or replace erased comes back — for ALL version lists,
   snapshot sets and levels. *)
Theorem C10_compact_key_history : compact_key_history_stmt.
Proof. exact compact_key_history. Qed.

(* finite retention: nothing erased comes back, and whatever is lost lies outside the window *)
Theorem C10_compact_key_history_retention : compact_key_history_retention_stmt.
Proof. exact compact_key_history_retention. Qed.

(* the reads themselves (get / range) are preserved as well *)
Theorem C10_compact_key_view : compact_key_view_stmt.
Proof. exact compact_key_view. Qed.

(* non-vacuity: [Set@3; Del@2; Set@1] with a reader at horizon 1: the reader keeps Set@1, and the
   hard delete stays so that Set@1 never reappears in the history of later readers *)
Example C10_barrier_kept_example :
  compact_key false true 0 0 [1%N]
    [ {| vseq := 3; vkind := CSet; vts := 3 |}; {| vseq := 2; vkind := CDel; vts := 2 |}; {| vseq := 1; vkind := CSet; vts := 1 |} ]%N
  = [ {| vseq := 3; vkind := CSet; vts := 3 |}; {| vseq := 2; vkind := CDel; vts := 2 |}; {| vseq := 1; vkind := CSet; vts := 1 |} ]%N.
Proof. vm_compute. reflexivity. Qed.
