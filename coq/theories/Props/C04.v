(* Props/C04.v — property theorems for C04 "no lost updates: first committer wins" (sequential,
   oracle-level part).  Models: Conc/Oracle.v (src/oracle.rs), Conc/CommitSeq.v (the commit
   critical section with the trackers, sequentially).  GC interval and the comparison operators of
   every decision site come from Params.v (generated from the sources on every run).  The
   fingerprint function is universally quantified (soundness for ANY fp, completeness under
   injectivity on the keys of the history). *)
From Coq Require Import List NArith Arith Bool.
From SKV Require Import Params Base.Lex Conc.Oracle Conc.CommitSeq Conc.OracleSpec Conc.Oracle_proofs.
Import ListNotations.
Local Open Scope N_scope.

(* the generated operators are `<`, `>`, `>=`, `>`, `>=`, `==`, `==` as the proofs assume; first seq = 1 *)
Theorem C04_params_side_conditions : oracle_params_ok.
Proof. exact params_ok. Qed.

Section AnyFingerprint.
Variable fp : bytes -> N.

(* check answers Retry exactly when start < kept_since *)
Theorem C04_retry_only_when_pruned : retry_only_when_pruned_stmt fp.
Proof. exact (check_retry fp). Qed.
(* ... and otherwise Conflict exactly when some key's recorded stamp is > start *)
Theorem C04_check_conflict_iff : check_conflict_iff_stmt fp.
Proof. exact (check_conflict_iff fp). Qed.

(* OracleSound after EVERY history: failed commits (WAL/apply failure + rollback), restores, every
   GC position, write-only and unregistered committers *)
Theorem C04_oracle_sound : oracle_sound_stmt fp ORACLE_GC_INTERVAL.
Proof. exact (oracle_sound fp ORACLE_GC_INTERVAL). Qed.
(* the pruning mark never passes a registered open transaction, nor `visible` (no restore) *)
Theorem C04_watermark_ok : watermark_ok_stmt fp ORACLE_GC_INTERVAL.
Proof. exact (watermark_ok_run fp ORACLE_GC_INTERVAL). Qed.

(* first committer wins on ALL histories, failed commits included (F13 repaired: rollback puts the
   overwritten stamp back) *)
Theorem C04_no_lost_update : no_lost_update_stmt fp ORACLE_GC_INTERVAL.
Proof. exact (no_lost_update fp ORACLE_GC_INTERVAL). Qed.

(* no false conflict (fp injective on the history's keys), any history *)
Theorem C04_no_false_conflict : no_false_conflict_stmt fp ORACLE_GC_INTERVAL.
Proof. exact (no_false_conflict fp ORACLE_GC_INTERVAL). Qed.
(* a transaction registered at begin is never answered Retry (no restore in the history) *)
Theorem C04_registered_never_retry : registered_never_retry_stmt fp ORACLE_GC_INTERVAL.
Proof. exact (registered_never_retry fp ORACLE_GC_INTERVAL). Qed.
(* the second sentence of the property *)
Theorem C04_commit_accepted : commit_accepted_stmt fp ORACLE_GC_INTERVAL.
Proof. exact (commit_accepted fp ORACLE_GC_INTERVAL). Qed.

(* `start < stamp` means "committed after the transaction began" in restore-free continuations *)
Theorem C04_later_commits_have_later_stamps : later_commits_have_later_stamps_stmt fp ORACLE_GC_INTERVAL.
Proof. exact (later_commits_have_later_stamps fp ORACLE_GC_INTERVAL). Qed.

(* the clamp min(oldest_active, start) *)
Theorem C04_gc_clamp_ok : gc_clamp_ok_stmt fp ORACLE_GC_INTERVAL.
Proof. exact (gc_clamp_ok fp ORACLE_GC_INTERVAL). Qed.
(* a refused commit (Conflict, Retry, closed, unknown) changes nothing *)
Theorem C04_refused_has_no_effect : refused_has_no_effect_stmt fp ORACLE_GC_INTERVAL.
Proof. exact (refused_has_no_effect fp ORACLE_GC_INTERVAL). Qed.
End AnyFingerprint.

(* the history that lost an update before F13 was repaired: the overlapping committer is refused *)
Example C04_f13_history_refused :
  step_outcome toy_fp ORACLE_GC_INTERVAL (run toy_fp ORACLE_GC_INTERVAL lu_steps c0) (SCommit 3 [kA] false) = OConflict.
Proof. exact lu_steps_refused. Qed.

(* REFUTED (finding C04-N1, open): registered_never_retry does not survive a restore that rewinds the
   counter below the start of a transaction that is still open: after that transaction commits at
   a GC firing, kept_since > visible and every later transaction is answered Retry *)
Theorem C04_fresh_retry_after_restore : fresh_retry_after_restore toy_fp ORACLE_GC_INTERVAL.
Proof. exact fresh_retry_after_restore_holds. Qed.

(* hypotheses are satisfiable: an ordinary history ends in acceptance, a conflicting one in Conflict *)
Example C04_example_outcomes :
  outcomes toy_fp ORACLE_GC_INTERVAL
    [SBegin 1 BRW; SBegin 2 BWO; SCommit 1 [kA; kB] false; SCommit 2 [kB] false; SBegin 3 BRW; SCommit 3 [kB] false] c0
  = [OOk; OOk; OOk; OConflict; OOk; OOk].
Proof. vm_compute. reflexivity. Qed.
