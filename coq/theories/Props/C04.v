(* Props/C04.v — property theorems for C04 "no lost updates: first committer wins" (sequential,
   oracle-level part).  Models: Conc/Oracle.v (src/oracle.rs), Conc/CommitSeq.v (the commit
   critical section with the trackers, sequentially; WITH the repair of finding C04-N1: the restore
   epoch — a transaction that began before the last restore is answered Retry before the oracle is
   consulted).  GC interval and the comparison operators of
   every decision site come from Params.v (generated from the sources on every run).  The
   fingerprint function is universally quantified (soundness for ANY fp, completeness under
   injectivity on the keys of the history). *)
From Coq Require Import List NArith Arith Bool.
From SKV Require Import Params Base.Lex Conc.Oracle Conc.CommitSeq Conc.OracleSpec Conc.Oracle_proofs.
Import ListNotations.
Local Open Scope N_scope.

(* the generated operators are `<`, `>`, `>=`, `>`, `>=`, `==`, `==` as the proofs assume; first seq = 1;
   the epoch test of the commit critical section is `begin_epoch != restore_epoch` *)
Theorem C04_params_side_conditions : oracle_params_ok.
Proof. exact params_ok. Qed.

Section AnyFingerprint.
Variable fp : bytes -> N.

(* check answers Retry exactly when start < kept_since *)
Theorem C04_retry_only_when_pruned : retry_only_when_pruned_stmt fp.
Proof. exact (check_retry fp). Qed.
(* ... and otherwise Conflict exactly when some key's recorded stamp is > start *)
Theorem C04_check_conflict_iff : check_conflict_iff_stmt fp.
Proof. exact (check_conflict_iff fp). Qed.

(* OracleSound after EVERY history: failed commits (WAL/apply failure + rollback), restores, every
   GC position, write-only and unregistered committers *)
Theorem C04_oracle_sound : oracle_sound_stmt fp ORACLE_GC_INTERVAL.
Proof. exact (oracle_sound fp ORACLE_GC_INTERVAL). Qed.
(* the pruning mark never passes a registered open transaction, nor `visible` (no restore) *)
Theorem C04_watermark_ok : watermark_ok_stmt fp ORACLE_GC_INTERVAL.
Proof. exact (watermark_ok_run fp ORACLE_GC_INTERVAL). Qed.

(* first committer wins on ALL histories, failed commits included (F13 repaired: rollback puts the
   overwritten stamp back) *)
Theorem C04_no_lost_update : no_lost_update_stmt fp ORACLE_GC_INTERVAL.
Proof. exact (no_lost_update fp ORACLE_GC_INTERVAL). Qed.

(* no false conflict (fp injective on the history's keys), any history; the transaction is of the
   current restore epoch (otherwise: C04_stale_epoch_refused) *)
Theorem C04_no_false_conflict : no_false_conflict_stmt fp ORACLE_GC_INTERVAL.
Proof. exact (no_false_conflict fp ORACLE_GC_INTERVAL). Qed.
(* a transaction registered at begin is never answered Retry (no restore in the history) *)
Theorem C04_registered_never_retry : registered_never_retry_stmt fp ORACLE_GC_INTERVAL.
Proof. exact (registered_never_retry fp ORACLE_GC_INTERVAL). Qed.
(* the second sentence of the property *)
Theorem C04_commit_accepted : commit_accepted_stmt fp ORACLE_GC_INTERVAL.
Proof. exact (commit_accepted fp ORACLE_GC_INTERVAL). Qed.

(* `start < stamp` means "committed after the transaction began" in restore-free continuations *)
Theorem C04_later_commits_have_later_stamps : later_commits_have_later_stamps_stmt fp ORACLE_GC_INTERVAL.
Proof. exact (later_commits_have_later_stamps fp ORACLE_GC_INTERVAL). Qed.

(* the clamp min(oldest_active, start) *)
Theorem C04_gc_clamp_ok : gc_clamp_ok_stmt fp ORACLE_GC_INTERVAL.
Proof. exact (gc_clamp_ok fp ORACLE_GC_INTERVAL). Qed.
(* a refused commit (Conflict, Retry, closed, unknown) changes nothing *)
Theorem C04_refused_has_no_effect : refused_has_no_effect_stmt fp ORACLE_GC_INTERVAL.
Proof. exact (refused_has_no_effect fp ORACLE_GC_INTERVAL). Qed.

(* ---- the repair of C04-N1: `begin_epoch != restore_epoch => Retry` first thing in the critical section ---- *)
(* a transaction of an earlier restore epoch is answered Retry: no oracle call, nothing changes (ANY state) *)
Theorem C04_stale_epoch_refused : stale_epoch_refused_stmt fp ORACLE_GC_INTERVAL.
Proof. exact (stale_epoch_refused fp ORACLE_GC_INTERVAL). Qed.
(* a transaction (begun through the API) that is open across a restore can never commit again, whatever
   happens afterwards (the new timeline catching up with its old start included): Retry, nothing changes *)
Theorem C04_open_across_restore_refused : open_across_restore_refused_stmt fp ORACLE_GC_INTERVAL.
Proof. exact (open_across_restore_refused fp ORACLE_GC_INTERVAL). Qed.
Theorem C04_oracle_consulted_only_in_epoch : oracle_consulted_only_in_epoch_stmt fp ORACLE_GC_INTERVAL.
Proof. exact (oracle_consulted_only_in_epoch fp ORACLE_GC_INTERVAL). Qed.
(* first committer wins in terms of TIME for ALL histories, failures and restores anywhere, no proviso:
   an accepted commit of T means that no commit made after T began, and still there, wrote one of T's keys *)
Theorem C04_no_lost_update_since_begin : no_lost_update_since_begin_stmt fp ORACLE_GC_INTERVAL.
Proof. exact (no_lost_update_since_begin fp ORACLE_GC_INTERVAL). Qed.
(* kept_since <= visible after EVERY history through the API, restores included: the state of the old
   pathology (b) is unreachable *)
Theorem C04_kept_le_visible : kept_le_visible_stmt fp ORACLE_GC_INTERVAL.
Proof. exact (kept_le_visible fp ORACLE_GC_INTERVAL). Qed.
(* a transaction that begins, registered, after the last restore is never answered Retry, whatever was left
   open across the restores before it *)
Theorem C04_registered_after_restore_never_retry : registered_after_restore_never_retry_stmt fp ORACLE_GC_INTERVAL.
Proof. exact (registered_after_restore_never_retry fp ORACLE_GC_INTERVAL). Qed.
(* ... and is accepted unless a commit made after it began wrote one of its keys *)
Theorem C04_commit_accepted_after_restore : commit_accepted_after_restore_stmt fp ORACLE_GC_INTERVAL.
Proof. exact (commit_accepted_after_restore fp ORACLE_GC_INTERVAL). Qed.
End AnyFingerprint.

(* the history that lost an update before F13 was repaired: the overlapping committer is refused *)
Example C04_f13_history_refused :
  step_outcome toy_fp ORACLE_GC_INTERVAL (run toy_fp ORACLE_GC_INTERVAL lu_steps c0) (SCommit 3 [kA] false) = OConflict.
Proof. exact lu_steps_refused. Qed.

(* REGRESSION RECORDS (finding C04-N1, repaired), about the machine WITHOUT the repair (Conc/CommitSeqOld.v):
   (b) after a restore that rewinds the counter below the start of a transaction that is still open, that
   transaction commits at a GC firing, kept_since > visible and every later transaction is answered Retry;
   the same history on the repaired machine: the fresh transaction is accepted, kept_since <= visible *)
Theorem C04_fresh_retry_after_restore_old : fresh_retry_after_restore_old toy_fp ORACLE_GC_INTERVAL.
Proof. exact fresh_retry_after_restore_old_holds. Qed.
(* (a) the transaction open across the restore and one that begins and commits right after the restore both
   commit the same key; the same history on the repaired machine: the stale one is answered Retry *)
Theorem C04_lost_update_across_restore_old : lost_update_across_restore_old toy_fp ORACLE_GC_INTERVAL la_pre la_post 1.
Proof. exact lost_update_across_restore_old_holds. Qed.
(* (a) again, after the new timeline has caught up with the stale transaction's start (a history that a test
   on the start sequence number alone cannot refuse); repaired machine: Retry *)
Theorem C04_lost_update_after_catchup_old : lost_update_across_restore_old toy_fp ORACLE_GC_INTERVAL cu_pre cu_post 1.
Proof. exact lost_update_after_catchup_old_holds. Qed.
(* why C04_kept_le_visible and the two theorems after it are stated for histories through the API: the
   epoch-less pipeline entry (kept for the crate's own tests) is not protected *)
Theorem C04_epochless_commit_unprotected : epochless_commit_unprotected toy_fp ORACLE_GC_INTERVAL.
Proof. exact epochless_commit_unprotected_holds. Qed.

(* hypotheses are satisfiable: an ordinary history ends in acceptance, a conflicting one in Conflict *)
Example C04_example_outcomes :
  outcomes toy_fp ORACLE_GC_INTERVAL
    [SBegin 1 BRW; SBegin 2 BWO; SCommit 1 [kA; kB] false; SCommit 2 [kB] false; SBegin 3 BRW; SCommit 3 [kB] false] c0
  = [OOk; OOk; OOk; OConflict; OOk; OOk].
Proof. vm_compute. reflexivity. Qed.

(* the catch-up history on the repaired machine: T1 (open across the restore) is refused before AND after the
   new timeline reaches its old start; the fresh transactions are accepted *)
Example C04_example_open_across_restore :
  outcomes toy_fp ORACLE_GC_INTERVAL
    (cu_pre ++ [SBegin 1 BRW; SRestore 2; SBegin 2 BRW; SCommit 2 [kA] false; SCommit 1 [kA] false;
                SBegin 3 BRW; SCommit 3 [kB] false; SCommit 1 [kA] false; SBegin 4 BRW; SCommit 4 [kB] false]) c0
  = [OOk; OOk; OOk; OOk; OOk; OOk; OOk; OOk;  OOk; OOk; OOk; OOk; ORetry; OOk; OOk; ORetry; OOk; OOk].
Proof. vm_compute. reflexivity. Qed.
