(* Props/C17.v — commits and shutdown always complete (PARTIAL by nature: scheduler fairness and
   cancellation of the commit() future are outside the model).
   Statements: Conc/PipelineSpec.v; proofs: Conc/PipelineRing_proofs.v, Conc/PipelineLive_proofs.v;
   model: Conc/Pipeline.v (blocking primitives = disabled transitions). *)
From Coq Require Import List Arith Bool.
From SKV Require Import Conc.Pipeline Conc.PipelineExplore Conc.PipelineSpec Conc.PipelineParams Conc.PipelineRing_proofs Conc.PipelineLive_proofs.
Import ListNotations.

Example C17_params_ok :
  PIPE_ANCHORS_OK = true /\ 0 < PIPE_PERMITS /\ PIPE_PERMITS < PIPE_SLOTS /\ 2 <= PIPE_MEMLIMIT_MIN.
Proof. repeat split; try reflexivity; apply Nat.ltb_lt || apply Nat.leb_le; reflexivity. Qed.

(* N1 as far as it holds: along runs without env.write / env.apply failures the queue never holds more
   than `permits` batches and enqueue never finds it full (permits < slots from Params) *)
Theorem C17_no_overflow_partial : no_overflow_partial_stmt.
Proof. exact no_overflow_partial. Qed.
(* N1 in full is FALSE for the code as it is: with the crate's slots/permits a run with failed commits
   ends in the "commit queue overflow" panic (finding queue_overflow_failed_commits) *)
Theorem C17_no_overflow_refuted : no_overflow_refuted_stmt PIPE_SLOTS PIPE_PERMITS.
Proof. exact no_overflow_refuted. Qed.
(* u32 head/tail counters of the code vs the unbounded counters of the model *)
Theorem C17_wrap_ok_partial : wrap_ok_partial_stmt.
Proof. exact wrap_ok_partial. Qed.
(* memory safety observation: dequeue_applied can read the `applied` flag of a freed CommitBatch *)
Theorem C17_use_after_free_reachable : use_after_free_reachable_stmt PIPE_SLOTS PIPE_PERMITS.
Proof. exact use_after_free_reachable. Qed.

(* L1 in full is FALSE for the code as it is: the lost flush wake-up (finding flush_wakeup_lost_hang): a run of
   4 committers ends with a commit() blocked in the stall check and no enabled step of the system *)
Theorem C17_deadlock_free_refuted : deadlock_free_refuted_stmt PIPE_SLOTS PIPE_PERMITS PIPE_MEMLIMIT_MIN.
Proof. exact deadlock_free_refuted. Qed.
(* L1 as far as it holds, whole system (rotation, stall protocol, flush and level tasks, close(), failures of
   env.write / env.apply, conflicts, overflow): whenever a commit() or close() is under way and the flush task
   is not starved of its wake-up, some step of the system is enabled (non-empty batches; L0 stall = environment) *)
Theorem C17_deadlock_free_partial : deadlock_free_partial_nonempty_stmt.
Proof. exact deadlock_free_partial_nonempty. Qed.
(* L1 for the pipeline alone (no rotation, no close, no failures): never a deadlock *)
Theorem C17_deadlock_free_core : deadlock_free_core_partial_stmt.
Proof. exact deadlock_free_core_partial. Qed.
(* L2: a measure into (nat, <) strictly decreases on every step of the system itself (environment labels and
   busy-wait iterations excluded): finitely many commits all return, close() returns *)
Theorem C17_terminates : terminates_stmt.
Proof. exact terminates. Qed.
