(* Props/C17.v — commits and shutdown always complete (PARTIAL by nature: scheduler fairness and
   cancellation of the commit() future are outside the model).
   Statements: Conc/PipelineSpec.v; proofs: Conc/PipelineRing_proofs.v, Conc/PipelineLive_proofs.v;
   model: Conc/Pipeline.v (blocking primitives = disabled transitions). *)
From Coq Require Import List Arith Bool.
From SKV Require Import Conc.Pipeline Conc.PipelineExplore Conc.PipelineSpec Conc.PipelineParams Conc.PipelineRing_proofs
  Conc.PipelineLive_proofs.
Import ListNotations.

(* side conditions taken from the sources by tools/gen_params.py (the anchors are the shapes of the repaired
   failure path — set_failure, wait for the completion with the permit held — and of the flush task's re-check) *)
Example C17_params_ok :
  PIPE_ANCHORS_OK = true /\ 0 < PIPE_PERMITS /\ PIPE_PERMITS < PIPE_SLOTS /\ 2 <= PIPE_MEMLIMIT_MIN.
Proof. repeat split; try reflexivity; apply Nat.ltb_lt || apply Nat.leb_le; reflexivity. Qed.

(* N1 in full: with permits < slots (Params) the queue never holds more than `permits` batches, enqueue never finds
   it full and no commit() panics — failures of env.write / env.apply included (a failed commit keeps its permit
   until its batch has been dequeued) *)
Theorem C17_no_overflow : no_overflow_stmt.
Proof. exact no_overflow. Qed.
(* u32 head/tail counters of the code vs the unbounded counters of the model *)
Theorem C17_wrap_ok_partial : wrap_ok_partial_stmt.
Proof. exact wrap_ok_partial. Qed.
(* memory safety observation: dequeue_applied can read the `applied` flag of a freed CommitBatch *)
Theorem C17_use_after_free_reachable : use_after_free_reachable_stmt PIPE_SLOTS PIPE_PERMITS.
Proof. exact use_after_free_reachable. Qed.
(* L1, whole system (rotation, stall protocol, flush and level tasks with the skip-if-running wake-up and the flush
   task's re-check, close(), failures of env.write / env.apply, conflicts): whenever a commit() or close() is under
   way some step of the system is enabled (non-empty batches; the L0 stall is environment) *)
Theorem C17_deadlock_free : deadlock_free_stmt.
Proof. exact deadlock_free. Qed.
(* L1 for the pipeline alone (no rotation, no close, no failures): corollary *)
Theorem C17_deadlock_free_core : deadlock_free_core_stmt.
Proof. exact deadlock_free_core. Qed.
(* L2: a measure into a well-founded order strictly decreases on every step of the system itself (environment
   labels and busy-wait iterations excluded): with L1, finitely many commits all return and close() returns *)
Theorem C17_terminates : terminates_stmt.
Proof. exact terminates. Qed.
