(* Props/C05.v — commits become visible atomically, in one real-time-consistent total order.
   Statements: Conc/PipelineSpec.v; proofs: Conc/Pipeline_proofs.v; model: Conc/Pipeline.v (labelled
   transition system of CommitPipeline::commit / publish, CommitQueue, Transaction::new, memtable apply;
   any number of committer threads and readers; every statement quantifies over ALL interleavings).
   Sequentially consistent atomics are assumed (see the evidence file for the Acquire/Release pairs). *)
From Coq Require Import List Arith Bool.
From SKV Require Import Conc.Pipeline Conc.PipelineExplore Conc.PipelineSpec Conc.PipelineParams Conc.Pipeline_proofs.
Import ListNotations.

(* side conditions taken from the sources by tools/gen_params.py *)
Example C05_params_ok :
  PIPE_ANCHORS_OK = true /\ PIPE_READ_FILTER_LE = true /\ 0 < PIPE_SLOTS /\ PIPE_PERMITS < PIPE_SLOTS
  /\ PIPE_SLOTS = 2 ^ 3 /\ PIPE_DEQUEUE_BITS = 32.
Proof. repeat split; try reflexivity; apply Nat.ltb_lt; reflexivity. Qed.

(* I1: the horizon never moves backwards *)
Theorem C05_visible_monotone : visible_monotone_stmt.
Proof. exact visible_monotone. Qed.
Theorem C05_visible_monotone_run : visible_monotone_run_stmt.
Proof. exact visible_monotone_run. Qed.
(* queue order = sequence-number order *)
Theorem C05_queue_is_seq_order : queue_is_seq_order_stmt.
Proof. exact queue_is_seq_order. Qed.
(* I2: the horizon is a batch boundary, never inside a batch *)
Theorem C05_visible_boundary : visible_boundary_stmt.
Proof. exact visible_boundary. Qed.
(* I3: every batch at or below the horizon is dequeued, applied and (unless failed) completely inserted *)
Theorem C05_visible_applied : visible_applied_stmt.
Proof. exact visible_applied. Qed.
(* I4: batches leave the queue in queue order *)
Theorem C05_dequeue_in_order : dequeue_in_order_stmt.
Proof. exact dequeue_in_order. Qed.
(* I5: commit() returns Ok only after the horizon covers its batch *)
Theorem C05_return_after_visible : return_after_visible_stmt.
Proof. exact return_after_visible. Qed.
(* T1: a reader at horizon h finds all entries of a (non-failed) batch iff last <= h, else none *)
Theorem C05_read_all_or_nothing : read_all_or_nothing_stmt.
Proof. exact read_all_or_nothing. Qed.
(* T2: a commit that had returned before a reader loaded its horizon is seen completely *)
Theorem C05_real_time_order : real_time_order_stmt.
Proof. exact real_time_order. Qed.
(* T3: a reader that sees a batch sees every earlier non-failed batch *)
Theorem C05_prefix_order : prefix_order_stmt.
Proof. exact prefix_order. Qed.

(* the hypotheses are satisfiable: a complete run of two committers and one reader on the crate's
   configuration ends with both batches visible and the reader's horizon at the second batch *)
Definition c_crate : cfg := {| c_slots := PIPE_SLOTS; c_permits := PIPE_PERMITS; c_memlimit := PIPE_MEMLIMIT_MIN; c_l0limit := 8 |}.
Definition commit_events (i sq cnt h t v : nat) : list (actor * label) :=
  map (fun l => (ACommit i, l))
    ([LEnter cnt; LStallRegistered; LStallCounted 0 0; LStallOk; LSemAcquired; LWantLock; LLocked; LChecked;
      LSeqAllocated sq cnt; LOraclePublished; LEnqLoaded h t; LEnqStored; LEnqDone; LEnqueued; LUnlocked]
     ++ map (fun k => LMemInsert (sq + k)) (seq 0 cnt)
     ++ [LAfterApply false; LMarked; LDeqLoaded (S h) t; LDeqSlot t false; LDeqChecked t true; LDeqCasOk; LDeqCleared;
         LPubDeq (sq + cnt - 1) cnt; LVisLoaded (sq + cnt - 1) v; LVisCasOk; LPubCompleted; LDeqLoaded (S h) (S t);
         LPubExit; LPublished; LRet ResOk]).
Definition example_run : list (actor * label) :=
  commit_events 0 1 3 0 0 0 ++ commit_events 1 4 2 1 1 3 ++ [(AReader 0, LTxnLoaded 5); (AReader 0, LTxnRegistered 5);
   (AReader 0, LObs 0 OFull); (AReader 0, LObs 1 OFull)].
Example C05_example_run :
  match prun c_crate (pinit c_crate 2 1 0) example_run with
  | Some s => visible s = 5 /\ qtail s = 2 /\ safe_ok 0 s = true
  | None => False
  end.
Proof. vm_compute. repeat split; reflexivity. Qed.
