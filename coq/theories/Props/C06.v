(* Props/C06.v — placement independence. *)
From Coq Require Import List NArith Arith Bool.
From SKV Require Import Base.Lex Txn.WriteSet Spec.Store Spec.Cursor Spec.Machine Lsm.CompactKey Lsm.CompactKeySpec Lsm.CompactKey_proofs.
Import ListNotations.

(* On the specification machine physical operations change nothing (by definition of `step`);
   stated so that the tie "implementation = specification machine on every program" carries the
   property: equal logical projections give equal answers. *)
Theorem C06_physical_is_identity : forall s, step s Physical = (s, ROk).
Proof. intros s. reflexivity. Qed.

(* compaction never invents or reorders versions, and without snapshots and versioning it keeps
   exactly the newest version (nothing when that is a hard delete at the last level: a deleted key
   never shows an older value again because every older version is dropped with the tombstone) *)
Theorem C06_compact_key_sublist : compact_key_sublist_stmt.
Proof. exact compact_key_sublist. Qed.
Theorem C06_compact_key_plain : compact_key_plain_stmt.
Proof. exact compact_key_plain. Qed.
Theorem C06_compact_key_view : compact_key_view_stmt.
Proof. exact compact_key_view. Qed.
