(* Props/C06.v — placement independence. *)
From Coq Require Import List NArith Arith Bool.
From SKV Require Import Base.Lex Txn.WriteSet Spec.Store Spec.Cursor Spec.Machine Lsm.CompactKey Lsm.CompactKeySpec Lsm.CompactKey_proofs.
From SKV Require Import Lsm.LevelsParams Lsm.Levels Lsm.LevelsSpec Lsm.Levels_proofs.
Import ListNotations.

(* On the specification machine physical operations change nothing (by definition of `step`);
   stated so that the tie "implementation = specification machine on every program" carries the
   property: equal logical projections give equal answers. *)
Theorem C06_physical_is_identity : forall s, Machine.step s Physical = (s, ROk).
Proof. intros s. reflexivity. Qed.

(* compaction never invents or reorders versions, and without snapshots and versioning it keeps
   exactly the newest version (nothing when that is a hard delete at the last level: a deleted key
   never shows an older value again because every older version is dropped with the tombstone) *)
Theorem C06_compact_key_sublist : compact_key_sublist_stmt.
Proof. exact compact_key_sublist. Qed.
Theorem C06_compact_key_plain : compact_key_plain_stmt.
Proof. exact compact_key_plain. Qed.
Theorem C06_compact_key_view : compact_key_view_stmt.
Proof. exact compact_key_view. Qed.

(* ---- the level structure (Lsm/Levels.v): which source a point read consults first, which tables a
   compaction may pick.  `current` / `current_sel` are the rules GENERATED from src/snapshot.rs, src/lsm.rs,
   src/compaction/leveled.rs (Lsm/LevelsParams.v): the theorems are about them by eq_refl on the generated
   flags — a changed search order, level-0 comparison, flushed memtable or input selection changes the
   model and these proofs stop building. *)
Theorem C06_levels_anchors : LEVELS_ANCHORS_OK = true.
Proof. reflexivity. Qed.
(* under the age-order invariant a point read is the merging iterator's answer at that key, for every
   snapshot horizon; hence a loop of point reads is the scan *)
Theorem C06_get_is_view : get_is_view_stmt current.
Proof. exact (get_is_view current eq_refl). Qed.
Theorem C06_scan_is_view : scan_is_view_stmt current.
Proof. exact (scan_is_view current eq_refl). Qed.
(* commit (per-key newer), rotate, flush (the oldest immutable), compaction (selection condition), reopen
   (any cut of the log) preserve the invariant — for any number of steps *)
Theorem C06_step_inv : step_inv_stmt current.
Proof. exact (step_inv current eq_refl). Qed.
Theorem C06_run_inv : run_inv_stmt current.
Proof. exact (run_inv current eq_refl). Qed.
(* placement independence over arbitrary sequences of rotate / flush / compaction / reopen: every reader the
   compactions were told about (or that is at or above everything stored) gets the same answers from get
   and from the merging iterator *)
Theorem C06_placement_independence : placement_independence_stmt current.
Proof. exact (placement_independence current eq_refl). Qed.
Theorem C06_run_view_stable : run_view_stable_stmt current.
Proof. exact (run_view_stable current eq_refl). Qed.
(* the crate's own table selection (level 0: all tables; deeper: a seed table; plus every next-level table
   overlapping the combined key range) satisfies the selection condition *)
Theorem C06_select_tables_sel_ok : select_tables_sel_ok_stmt current_sel.
Proof. exact (select_tables_sel_ok current_sel eq_refl). Qed.
(* regression record of the level-0 rule before 4492089, and the two halves of the selection condition are needed *)
Theorem C06_old_l0_rule_stale : old_l0_rule_stale_stmt.
Proof. exact old_l0_rule_stale. Qed.
Theorem C06_bad_selection_breaks : bad_selection_breaks_stmt.
Proof. exact bad_selection_breaks. Qed.
Theorem C06_missing_target_breaks : missing_target_breaks_stmt.
Proof. exact missing_target_breaks. Qed.
(* the extracted checkers used by the conformance replay decide the invariant and the side conditions *)
Theorem C06_inv_b_sound : inv_b_sound_stmt.
Proof. exact inv_b_sound. Qed.
Theorem C06_op_ok_b_sound : op_ok_b_sound_stmt.
Proof. exact op_ok_b_sound. Qed.
Theorem C06_op_keeps_b_sound : op_keeps_b_sound_stmt.
Proof. exact op_keeps_b_sound. Qed.
(* the hypotheses of the theorems above hold on a concrete non-trivial run (a registered reader, a delete and
   re-insert under it, rotations, flushes, the crate's level-0 selection, a reopen that cuts the log, compactions
   down to the bottom level); (S1) needs no check below level 0 *)
Theorem C06_run_hypotheses_satisfiable : run_hypotheses_satisfiable_stmt.
Proof. exact run_hypotheses_satisfiable. Qed.
Theorem C06_selection_example : selection_example_stmt.
Proof. exact selection_example. Qed.
Theorem C06_sel_s1_by_disjointness : sel_s1_disjoint_stmt.
Proof. exact sel_s1_by_disjointness. Qed.
