(* Props/C06.v — placement independence. *)
From Coq Require Import List NArith Arith Bool.
From SKV Require Import Base.Lex Txn.WriteSet Spec.Store Spec.Cursor Spec.Machine.
Import ListNotations.

(* On the specification machine physical operations change nothing (by definition of `step`);
   stated so that the tie "implementation = specification machine on every program" carries the
   property: equal logical projections give equal answers. *)
Theorem C06_physical_is_identity : forall s, step s Physical = (s, ROk).
Proof. intros s. reflexivity. Qed.
