(* C18 — the B+tree index is a persistent ordered map.

   What is proved here: (1) the laws of the ordered map Misc/OMap.v that the differential uses as the
   specification of BPlusTree (get / insert-overwrite / delete / range / seek), for any total preorder,
   and that both key orders of the B+tree are total preorders; (2) the page allocator of
   src/bplustree/tree.rs as transcribed in Misc/Pages.v never loses a page and never hands a page out
   twice (partition invariant over arbitrary scripts of allocate / free / chain-write / chain-free
   calls); (3) the Params side conditions under which those models are the code's.
   NOT proved: that the node algorithms of tree.rs (split / merge / redistribute / overflow ownership)
   refine the ordered map — they are tied to it only by the differential of tools/vlib/c18.py. *)
From Coq Require Import List NArith Bool.
From SKV Require Import Params Base.Lex Misc.OMap Misc.OMapSpec Misc.OMap_proofs
  Misc.BptKey Misc.BptKeySpec Misc.BptKey_proofs Misc.Pages Misc.PagesSpec Misc.Pages_proofs Misc.BptInst.
Import ListNotations.
Local Open Scope N_scope.

(* ---- (3) Params side conditions ---- *)
Theorem C18_params_ok : bpt_params_ok = true.
Proof. vm_compute. reflexivity. Qed.
Theorem C18_params_init : bpt_init = p_init.
Proof. vm_compute. reflexivity. Qed.
Theorem C18_params_trunk_full : forall t, trunk_full BPT_TRUNK_MAX_ENTRIES t = BPT_TRUNK_FULL_CMP BPT_TRUNK_MAX_ENTRIES (N.of_nat (length (t_stack t))).
Proof. intro t. reflexivity. Qed.

(* ---- (1) ordered-map laws ---- *)
Theorem C18_sortedb_iff : sortedb_iff_stmt. Proof. exact sortedb_iff_ok. Qed.
Theorem C18_insert_sorted : insert_sorted_stmt. Proof. exact insert_sorted_ok. Qed.
Theorem C18_delete_sorted : delete_sorted_stmt. Proof. exact delete_sorted_ok. Qed.
Theorem C18_apply_sorted : apply_sorted_stmt. Proof. exact apply_sorted_ok. Qed.
Theorem C18_get_empty : get_empty_stmt. Proof. exact get_empty_ok. Qed.
Theorem C18_get_insert_same : get_insert_same_stmt. Proof. exact get_insert_same_ok. Qed.
Theorem C18_get_insert_other : get_insert_other_stmt. Proof. exact get_insert_other_ok. Qed.
Theorem C18_get_delete_same : get_delete_same_stmt. Proof. exact get_delete_same_ok. Qed.
Theorem C18_get_delete_other : get_delete_other_stmt. Proof. exact get_delete_other_ok. Qed.
Theorem C18_get_in : get_in_stmt. Proof. exact get_in_ok. Qed.
Theorem C18_insert_keeps_key : insert_keeps_key_stmt. Proof. exact insert_keeps_key_ok. Qed.
Theorem C18_insert_in : insert_in_stmt. Proof. exact insert_in_ok. Qed.
Theorem C18_delete_in : delete_in_stmt. Proof. exact delete_in_ok. Qed.
Theorem C18_range_filter : range_filter_stmt. Proof. exact range_filter_ok. Qed.
Theorem C18_range_sorted : range_sorted_stmt. Proof. exact range_sorted_ok. Qed.
Theorem C18_seek_filter : seek_filter_stmt. Proof. exact seek_filter_ok. Qed.
Theorem C18_before_filter : before_filter_stmt. Proof. exact before_filter_ok. Qed.
Theorem C18_first_least : first_least_stmt. Proof. exact first_least_ok. Qed.
Theorem C18_last_greatest : last_greatest_stmt. Proof. exact last_greatest_ok. Qed.

(* the two key orders satisfy the hypotheses, hence all the laws *)
Theorem C18_lex_preorder : lex_preorder_stmt. Proof. exact lex_preorder_ok. Qed.
Theorem C18_lex_antisym : lex_antisym_stmt. Proof. exact lex_antisym_ok. Qed.
Theorem C18_ts_preorder : ts_preorder_stmt. Proof. exact ts_preorder_ok. Qed.
Theorem C18_ts_ignores_trailer : ts_ignores_trailer_stmt. Proof. exact ts_ignores_trailer_ok. Qed.
Theorem C18_map_laws_bytewise : map_laws lex_cmp. Proof. exact (map_laws_ok bytes lex_cmp lex_preorder_ok). Qed.
Theorem C18_map_laws_timestamp : map_laws ts_cmp. Proof. exact (map_laws_ok bytes ts_cmp ts_preorder_ok). Qed.

(* the range entry point returns what the ordered map returns, for every pair of bounds (finding F30 repaired, fix 83ce498);
   the second theorem is the regression record of the old reading *)
Theorem C18_bpt_range : bpt_range_statement. Proof. exact bpt_range_statement_ok. Qed.
Theorem C18_bpt_range_old_refuted : bpt_range_old_refuted_stmt. Proof. exact bpt_range_old_refuted_ok. Qed.
Theorem C18_bpt_range_nonempty_start : bpt_range_nonempty_start_stmt. Proof. exact bpt_range_nonempty_start_ok. Qed.

(* ---- (2) page allocator ---- *)
Theorem C18_pages_init : init_wf_stmt. Proof. exact init_wf_ok. Qed.
Theorem C18_alloc_ok : alloc_ok_stmt. Proof. exact alloc_ok_ok. Qed.
Theorem C18_alloc_reuses : alloc_reuses_stmt. Proof. exact alloc_reuses_ok. Qed.
Theorem C18_free_ok : free_ok_stmt. Proof. exact free_ok_ok. Qed.
Theorem C18_head_zero : head_zero_stmt. Proof. exact head_zero_ok. Qed.
Theorem C18_pages_partition : pages_partition_stmt. Proof. exact pages_partition_ok. Qed.
Theorem C18_pages_partition_fresh : pages_partition_fresh_stmt. Proof. exact pages_partition_fresh_ok. Qed.
Theorem C18_calc_overflow_ok : calc_overflow_ok_stmt. Proof. exact calc_overflow_ok_ok. Qed.
Theorem C18_ovf_pages_ok : ovf_pages_ok_stmt. Proof. exact ovf_pages_ok_ok. Qed.
(* with the constants of tree.rs, from a fresh file *)
Theorem C18_pages_partition_bpt : forall ops st live, prun BPT_TRUNK_MAX_ENTRIES ops bpt_init [1] = Done st live ->
  NoDup (live ++ free_pages st)
  /\ (forall p, 1 <= p < p_total st <-> In p live \/ In p (free_pages st))
  /\ p_count st = N.of_nat (length (free_entries st)).
Proof. intros ops st live. rewrite C18_params_init. apply pages_partition_fresh_ok. Qed.

(* ---- the hypotheses are satisfiable (non-vacuity) ---- *)
(* two encoded keys with the same user key and timestamp but different trailers compare Equal under the timestamp
   order; overwriting through the second keeps the bytes of the first *)
Definition ex_k1 : bytes := [97; 0;0;0;0;0;0;1;2; 0;0;0;0;0;0;0;5].
Definition ex_k2 : bytes := [97; 0;0;0;0;0;0;9;0; 0;0;0;0;0;0;0;5].
Example C18_ex_ts_equal : ts_cmp ex_k1 ex_k2 = Eq /\ ex_k1 <> ex_k2
  /\ om_insert ts_cmp ex_k2 2 (om_insert ts_cmp ex_k1 1 []) = [(ex_k1, 2)]
  /\ om_sorted ts_cmp (om_insert ts_cmp ex_k2 2 (om_insert ts_cmp ex_k1 1 [])).
Proof.
  split; [vm_compute; reflexivity|]. split; [discriminate|]. split; [vm_compute; reflexivity|].
  apply (C18_insert_sorted bytes N ts_cmp ts_preorder_ok). apply (C18_insert_sorted bytes N ts_cmp ts_preorder_ok). constructor.
Qed.
(* a script that frees a chain longer than a trunk page holds (MAX = 2 here), allocates again and ends with two
   trunk pages: it runs without allocator error and its final state is well formed *)
Definition ex_ops : list pop := [PAllocChain 6; PFreeChain [2; 3; 4; 5; 6; 7]; PAlloc; PFree 1; PAlloc].
Definition ex_final := Eval vm_compute in prun 2 ex_ops p_init [1].
Example C18_ex_pages : ex_final = Done (mkP 8 3 [mkTrunk 2 [3]; mkTrunk 5 [7; 6]]) [1; 4]
  /\ pages_wf 2 (mkP 8 3 [mkTrunk 2 [3]; mkTrunk 5 [7; 6]]) [1; 4].
Proof.
  split; [reflexivity|].
  pose proof (C18_pages_partition 2 ex_ops p_init [1] (C18_pages_init 2)) as H.
  change (prun 2 ex_ops p_init [1]) with ex_final in H. exact H.
Qed.
