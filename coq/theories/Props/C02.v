(* Props/C02.v — acknowledged commits survive crashes *)
From Coq Require Import List NArith Arith Bool.
From SKV Require Import Base.Lex Txn.WriteSet Spec.Store.
From SKV Require Import Crash.Fs Crash.FsSpec Crash.Fs_proofs Crash.Proto Crash.ProtoSpec Crash.ProtoRefute Crash.ProtoCheck Crash.Proto_proofs Crash.ProtoRecovery_proofs.
Import ListNotations.

(* recovery as a specification: the state after the first n commits; states of longer prefixes
   extend shorter ones commit by commit (the oracle of the crash engine: "the recovered map equals
   view h n for some n not smaller than the number of acknowledged commits") *)
Theorem C02_prefix_states_compose :
  forall (h : history) (n : nat) (b : batch), n = length h -> view (h ++ [b]) (S n) = apply_batch (view h n) b.
Proof.
  intros h n b Hn. unfold view. subst n.
  replace (S (length h)) with (length (h ++ [b])) by (rewrite app_length; cbn [length]; apply Nat.add_1_r).
  rewrite !firstn_all. rewrite fold_left_app. reflexivity.
Qed.

(* protocol level: for every accepted trace (any number of sessions: crashes are events), every cut
   and both crash models the store opens and every batch whose acknowledgement obliges the store for
   that kind of crash is recovered completely *)
Theorem C02_durable_after_crash : durable_after_crash_stmt.
Proof. exact durable_after_crash. Qed.

Theorem C02_generations_compose : generations_compose_stmt.
Proof. exact generations_compose. Qed.

Theorem C02_proto_ok_prefix : proto_ok_prefix_stmt.
Proof. exact proto_ok_prefix. Qed.

(* file-system level facts the event abstraction relies on *)
Theorem C02_fsync_durable : fsync_durable_stmt.
Proof. exact fsync_durable. Qed.

Theorem C02_append_only_prefix : append_only_prefix_stmt.
Proof. exact append_only_prefix. Qed.

Theorem C02_atomic_replace : atomic_replace_stmt.
Proof. exact atomic_replace_ok. Qed.

(* what the obligations exclude (old behaviours) *)
Theorem C02_compaction_unsynced_refuted : compaction_unsynced_refuted_stmt.
Proof. exact compaction_unsynced_refuted. Qed.

Theorem C02_arena_full_unlink_refuted : arena_full_unlink_refuted_stmt.
Proof. exact arena_full_unlink_refuted. Qed.

Theorem C02_split_marked_flushed_refuted : split_marked_flushed_refuted_stmt.
Proof. exact split_marked_flushed_refuted. Qed.

Theorem C02_relog_accepted : relog_accepted_stmt.
Proof. exact relog_accepted. Qed.

(* regression record of the recovery before 372cb98 (finding F47), and the repaired recovery on the same state *)
Theorem C02_recovery_nonlast_split_old_recovery_refuted : recovery_nonlast_split_old_recovery_refuted_stmt.
Proof. exact recovery_nonlast_split_old_recovery_refuted. Qed.

Theorem C02_repaired_nonlast_recovery : repaired_nonlast_recovery_stmt.
Proof. exact repaired_nonlast_recovery. Qed.

(* the recovery of the repaired code, for every split into pieces, is accepted after either crash;
   a second crash of either kind at any point inside it recovers what had to survive the first *)
Theorem C02_recovery_pieces_accepted : recovery_pieces_accepted_stmt.
Proof. exact recovery_pieces_accepted. Qed.

Theorem C02_generations_compose_pieces : generations_compose_pieces_stmt.
Proof. exact generations_compose_pieces. Qed.

Theorem C02_crash_in_recovery_safe : crash_in_recovery_safe_stmt.
Proof. exact crash_in_recovery_safe. Qed.

Theorem C02_p2s_needed : p2s_needed_stmt.
Proof. exact p2s_needed. Qed.

Theorem C02_p3_needed : p3_needed_stmt.
Proof. exact p3_needed. Qed.

(* the hypotheses are satisfiable and the statements were validated before being proved: all
   accepted traces of length <= 5 over a 25-event alphabet (242541 of them), four crashes each *)
Example C02_small_traces_checked : explore 5 st0 = true.
Proof. vm_compute. reflexivity. Qed.
