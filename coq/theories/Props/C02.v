(* Props/C02.v *)
From Coq Require Import List NArith Arith Bool.
From SKV Require Import Base.Lex Txn.WriteSet Spec.Store.
Import ListNotations.

(* recovery as a specification: the state after the first n commits; states of longer prefixes
   extend shorter ones commit by commit (the oracle of the crash engine: "the recovered map equals
   view h n for some n not smaller than the number of acknowledged commits") *)
Theorem C02_prefix_states_compose :
  forall (h : history) (n : nat) (b : batch), n = length h -> view (h ++ [b]) (S n) = apply_batch (view h n) b.
Proof.
  intros h n b Hn. unfold view. subst n.
  replace (S (length h)) with (length (h ++ [b])) by (rewrite app_length; cbn [length]; apply Nat.add_1_r).
  rewrite !firstn_all. rewrite fold_left_app. reflexivity.
Qed.
