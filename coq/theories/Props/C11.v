(* Props/C11.v — separated values.  On the specification machine a value is what was written:
   the value log does not exist there, so equality of every answer with the machine is the
   property (byte-identical values, whatever their size). *)
From Coq Require Import List NArith Arith Bool.
From SKV Require Import Base.Lex Txn.WriteSet Spec.Store.
From SKV Require Import Params Codec.VlogParams Codec.Wal Codec.VlogPtr Codec.VlogPtrSpec Codec.VlogPtr_proofs
                        Lsm.Vlog Lsm.VlogSpec Lsm.Vlog_proofs.
Import ListNotations.

Theorem C11_spec_returns_what_was_written :
  forall (m : amap bytes) k v, amap_get k (apply_write m {| b_kind := KSet; b_key := k; b_val := Some v; b_ts := 0 |}) = Some v.
Proof.
  intros m k v. unfold apply_write. cbn [b_kind b_val b_key].
  induction m as [|[k' v'] r IH]; cbn [amap_set amap_get].
  - assert (H : lex_cmp k k = Eq) by (induction k as [|x xs IHk]; [reflexivity | cbn [lex_cmp]; rewrite N.compare_refl; exact IHk]).
    rewrite H. reflexivity.
  - destruct (lex_cmp k k') eqn:E; cbn [amap_get].
    + assert (H : lex_cmp k k = Eq) by (clear; induction k as [|x xs IHk]; [reflexivity | cbn [lex_cmp]; rewrite N.compare_refl; exact IHk]).
      rewrite H. reflexivity.
    + assert (H : lex_cmp k k = Eq) by (clear; induction k as [|x xs IHk]; [reflexivity | cbn [lex_cmp]; rewrite N.compare_refl; exact IHk]).
      rewrite H. reflexivity.
    + rewrite E. exact IH.
Qed.


(* ---------------------------------------------------------------------------------------------------------
   The value log itself: codecs (Codec/VlogPtr.v) and the state machine of value-log files, tables, version
   index, block cache and open readers (Lsm/Vlog.v).  Widths, tags, versions, sentinels and every comparison
   operator are generated from the sources into Codec/VlogParams.v (tools/gen_params.py, section `vlog`). *)

(* the generated parameters satisfy the side conditions the theorems assume *)
Example C11_params_ok : vlog_params_ok = true.
Proof. vm_compute. reflexivity. Qed.

(* A. codecs *)
Theorem C11_be_roundtrip : be_roundtrip_stmt.
Proof. exact be_roundtrip. Qed.
Theorem C11_pointer_roundtrip : vpointer_roundtrip_stmt.
Proof. exact vpointer_roundtrip. Qed.
Theorem C11_pointer_encode_size : vpointer_encode_size_stmt.
Proof. exact vpointer_encode_size. Qed.
Theorem C11_pointer_decode_length : vpointer_decode_length_stmt.
Proof. exact vpointer_decode_length. Qed.
Theorem C11_pointer_decode_total : vpointer_decode_total_stmt.
Proof. exact vpointer_decode_total. Qed.
Theorem C11_location_roundtrip : vloc_roundtrip_stmt.
Proof. exact vloc_roundtrip. Qed.
Theorem C11_location_decode_short : vloc_decode_short_stmt.
Proof. exact vloc_decode_short. Qed.
Theorem C11_location_pointer_roundtrip : vloc_pointer_roundtrip_stmt.
Proof. exact vloc_pointer_roundtrip. Qed.
Theorem C11_location_inline_roundtrip : vloc_inline_roundtrip_stmt.
Proof. exact vloc_inline_roundtrip. Qed.
Theorem C11_append_get : append_get_stmt.
Proof. exact append_get. Qed.
Theorem C11_append_pointer_in_range : append_pointer_in_range_stmt.
Proof. exact append_pointer_in_range. Qed.
Theorem C11_read_stable_under_append : read_stable_under_append_stmt.
Proof. exact read_stable_under_append. Qed.
Theorem C11_header_size : vheader_size_stmt.
Proof. exact vheader_size. Qed.
Theorem C11_separate_iff : separate_iff_stmt.
Proof. exact separate_iff. Qed.
Theorem C11_maybe_separate_inline : maybe_separate_inline_stmt.
Proof. exact maybe_separate_inline. Qed.
Theorem C11_maybe_separate_pointer_passes : maybe_separate_pointer_passes_stmt.
Proof. exact maybe_separate_pointer_passes. Qed.

(* B. the machine: every accepted operation sequence, any checksum function, any configuration, either form of the run-time
   clean-up rule (chk) and of the block-cache rule of VLog::get (hck: a hit is served only when the cached checksum and the
   value length equal the pointer's) — except C11_old_reader_served (the GENERATED rule VLOG_CLEANUP_CHECKS_READERS) and
   part D (the GENERATED rule VLOG_CACHE_HIT_CHECKED) *)
Theorem C11_flush_records_values : forall crc cfg chk, flush_records_values_stmt crc cfg chk.
Proof. exact flush_records_values. Qed.
Theorem C11_live_values_intact : forall crc cfg chk hck, live_values_intact_stmt crc cfg chk hck.
Proof. exact live_values_intact. Qed.
Theorem C11_cleanup_keeps_live_files : cleanup_keeps_live_files_stmt.
Proof. exact cleanup_keeps_live_files. Qed.
Theorem C11_cleanup_index_consistent : cleanup_index_consistent_stmt.
Proof. exact cleanup_index_consistent. Qed.
Theorem C11_live_pointers_have_files : forall crc cfg chk hck, live_pointers_have_files_stmt crc cfg chk hck.
Proof. exact live_pointers_have_files. Qed.
Theorem C11_files_synced : forall crc cfg chk hck, files_synced_stmt crc cfg chk hck.
Proof. exact files_synced. Qed.
Theorem C11_ids_never_reused : forall crc cfg chk hck, ids_never_reused_stmt crc cfg chk hck.
Proof. exact ids_never_reused. Qed.
Theorem C11_old_reader_never_wrong : forall crc cfg chk hck, old_reader_never_wrong_stmt crc cfg chk hck.
Proof. exact old_reader_never_wrong. Qed.
(* readers holding an older table set across flushes and compactions are served (repair of C11-N1) *)
Theorem C11_old_reader_served : old_reader_served_stmt.
Proof. exact old_reader_served. Qed.
(* the deferred clean-up is the ordinary one once no reader is registered, and is only deferred while one is *)
Theorem C11_cleanup_runs_without_readers : cleanup_runs_without_readers_stmt.
Proof. exact cleanup_runs_without_readers. Qed.
Theorem C11_cleanup_deferred_with_readers : cleanup_deferred_with_readers_stmt.
Proof. exact cleanup_deferred_with_readers. Qed.
(* regression record: the rule BEFORE the repair (no test at the call sites) leaves such a reader unprotected *)
Theorem C11_old_reader_unprotected_without_check : old_reader_unprotected_without_check_stmt.
Proof. exact old_reader_unprotected_without_check. Qed.
(* the block cache stays effective under the checked rule: a cached entry found for a live pointer passes the test *)
Theorem C11_live_hits_pass : forall crc cfg chk hck, live_hits_pass_stmt crc cfg chk hck.
Proof. exact live_hits_pass. Qed.

(* D. the block-cache rule of VLog::get under DAMAGE (repair of F41; the same theorem is Props/C16.v
   C16_vlog_damaged_reads_checked): for every history of flushes, compactions, reopens, readers, reads, replacements of
   the value-log directory by ANY files (cut short, appended to again, rewritten) and reads through ANY pointer, at Full
   verification a read that answers a value answers one of the pointer's value size whose checksum — with some key — is the
   pointer's: the value written, an error, or an explicit checksum collision; never silently another entry's value *)
Theorem C11_damaged_reads_checked : damaged_reads_checked_stmt.
Proof. exact damaged_reads_checked. Qed.
(* regression record: the rule BEFORE the repair (any hit on (file id, offset) is served) answers the other key's value *)
Theorem C11_cache_unchecked_serves_other_entry : cache_unchecked_serves_other_entry_stmt.
Proof. exact cache_unchecked_serves_other_entry. Qed.

(* the generated rules are the repaired ones *)
Example C11_rule_is_repaired : VLOG_CLEANUP_CHECKS_READERS = true /\ VLOG_CACHE_HIT_CHECKED = true.
Proof. split; reflexivity. Qed.
(* the hypotheses are satisfiable, and the three outcomes of the witness run w_ops (flush, flush, reader, compaction):
   without the test file 1 is removed under the reader; with it file 1 stays and the reader's old value resolves; after
   the reader has gone the next flush removes file 1 *)
Example C11_machine_instance :
  vs_run w_crc w_cfg false true w_ops vs0 = Some w_st /\ map vf_id (vs_files w_st) = [2%N] /\
  vs_run w_crc w_cfg true true w_ops vs0 = Some w_st_chk /\ map vf_id (vs_files w_st_chk) = [1%N; 2%N] /\
  fst (vs_resolve w_crc w_cfg true w_st_chk (te_enc w_e)) = Some [7%N; 7%N; 7%N; 7%N] /\
  vs_run w_crc w_cfg true true w_ops_after vs0 = Some w_st_after /\ map vf_id (vs_files w_st_after) = [2%N; 3%N] /\
  map (fun t => (tb_id t, tb_oldest t)) (vs_tables w_st_after) = [(12%N, 2%N); (13%N, 3%N)].
Proof. vm_compute. repeat split. Qed.
(* the history of F41 in the model (x_ds: flush k0 k1, file 1 cut to its header, reopen, flush k2 at the cut position, read
   k2, then the OLD pointer x_p0 of k0 — same file, same offset, same sizes as the new pointer x_p2, another checksum):
   the hypotheses of part D are satisfiable (a damaged history, Full verification, pointers issued for what was written);
   the machine before the repair answers k2's value for k0's pointer, the repaired machine refuses it (the file path
   reports the checksum mismatch) and still serves k2 from the cache *)
Example C11_cut_instance :
  cf_level x_cfg = VLOG_CK_FULL /\
  ds_run x_crc x_cfg true false x_ds vs0 = Some x_st_old /\ ds_run x_crc x_cfg true true x_ds vs0 = Some x_st_new /\
  issued_for x_crc x_p0 x_k0 [7%N; 7%N; 7%N] /\ issued_for x_crc x_p2 x_k2 [9%N; 9%N; 9%N] /\
  (vpt_file x_p0, vpt_offset x_p0, vpt_ksize x_p0, vpt_vsize x_p0) = (vpt_file x_p2, vpt_offset x_p2, vpt_ksize x_p2, vpt_vsize x_p2) /\
  vpt_crc x_p0 <> vpt_crc x_p2 /\
  fst (vs_get x_crc x_cfg false x_st_old x_p0) = Some [9%N; 9%N; 9%N] /\
  fst (vs_get x_crc x_cfg true x_st_new x_p0) = None /\
  vs_get x_crc x_cfg true x_st_new x_p2 = (Some [9%N; 9%N; 9%N], vs_cache x_st_new) /\
  vs_cache x_st_new <> [].
Proof. vm_compute. repeat split; discriminate. Qed.
