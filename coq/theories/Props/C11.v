(* Props/C11.v — separated values.  On the specification machine a value is what was written:
   the value log does not exist there, so equality of every answer with the machine is the
   property (byte-identical values, whatever their size). *)
From Coq Require Import List NArith Arith Bool.
From SKV Require Import Base.Lex Txn.WriteSet Spec.Store.
Import ListNotations.

Theorem C11_spec_returns_what_was_written :
  forall (m : amap bytes) k v, amap_get k (apply_write m {| b_kind := KSet; b_key := k; b_val := Some v; b_ts := 0 |}) = Some v.
Proof.
  intros m k v. unfold apply_write. cbn [b_kind b_val b_key].
  induction m as [|[k' v'] r IH]; cbn [amap_set amap_get].
  - assert (H : lex_cmp k k = Eq) by (induction k as [|x xs IHk]; [reflexivity | cbn [lex_cmp]; rewrite N.compare_refl; exact IHk]).
    rewrite H. reflexivity.
  - destruct (lex_cmp k k') eqn:E; cbn [amap_get].
    + assert (H : lex_cmp k k = Eq) by (clear; induction k as [|x xs IHk]; [reflexivity | cbn [lex_cmp]; rewrite N.compare_refl; exact IHk]).
      rewrite H. reflexivity.
    + assert (H : lex_cmp k k = Eq) by (clear; induction k as [|x xs IHk]; [reflexivity | cbn [lex_cmp]; rewrite N.compare_refl; exact IHk]).
      rewrite H. reflexivity.
    + rewrite E. exact IH.
Qed.
