(* Props/C09.v *)
From Coq Require Import List NArith Arith Bool Lia.
From SKV Require Import Base.Lex Txn.WriteSet Spec.Store Spec.Cursor Spec.Machine.
Import ListNotations.

(* the specification cursor never leaves the list: a position it reports always holds an entry *)
Lemma seek_idx_bound : forall l t i n, seek_idx l t i = Some n -> n < i + length l.
Proof.
  induction l as [|[k v] r IH]; intros t i n H; cbn [seek_idx] in H; [discriminate|].
  destruct (lex_leb t k).
  - injection H as <-. cbn [length]. lia.
  - apply IH in H. cbn [length]. lia.
Qed.

Theorem C09_spec_cursor_in_range :
  forall items fresh pos o, (forall i, pos = Some i -> i < length items) ->
    forall j, cstep items fresh pos o = Some j -> j < length items.
Proof.
  intros items fresh pos o Hpos j.
  destruct o; cbn [cstep].
  - destruct items; [discriminate|]. intros H; injection H as <-. cbn [length]. lia.
  - destruct items as [|x r]; [discriminate|]. intros H; injection H as <-. cbn [length]. lia.
  - destruct pos as [i|].
    + destruct (Nat.ltb_spec (S i) (length items)); [|discriminate]. intros E; injection E as <-. assumption.
    + destruct fresh; [|discriminate]. destruct items; [discriminate|]. intros E; injection E as <-. cbn [length]. lia.
  - destruct pos as [i|].
    + destruct i as [|i']; [discriminate|]. intros E; injection E as <-. specialize (Hpos (S i') eq_refl). lia.
    + destruct fresh; [|discriminate]. destruct items as [|x r]; [discriminate|]. intros E; injection E as <-. cbn [length]. lia.
  - intros H. apply seek_idx_bound in H. lia.
Qed.
