(* Props/C09.v *)
From Coq Require Import List NArith Arith Bool Lia.
From SKV Require Import Base.Lex Txn.WriteSet Spec.Store Spec.Cursor Spec.Machine.
From SKV Require Import Txn.RangeIter Txn.RangeIterSpec Txn.RangeIter_proofs.
Import ListNotations.

(* the specification cursor never leaves the list: a position it reports always holds an entry *)
Lemma seek_idx_bound : forall l t i n, seek_idx l t i = Some n -> n < i + length l.
Proof.
  induction l as [|[k v] r IH]; intros t i n H; cbn [seek_idx] in H; [discriminate|].
  destruct (lex_leb t k).
  - injection H as <-. cbn [length]. lia.
  - apply IH in H. cbn [length]. lia.
Qed.

Theorem C09_spec_cursor_in_range :
  forall items fresh pos o, (forall i, pos = Some i -> i < length items) ->
    forall j, cstep items fresh pos o = Some j -> j < length items.
Proof.
  intros items fresh pos o Hpos j.
  destruct o; cbn [cstep].
  - destruct items; [discriminate|]. intros H; injection H as <-. cbn [length]. lia.
  - destruct items as [|x r]; [discriminate|]. intros H; injection H as <-. cbn [length]. lia.
  - destruct pos as [i|].
    + destruct (Nat.ltb_spec (S i) (length items)); [|discriminate]. intros E; injection E as <-. assumption.
    + destruct fresh; [|discriminate]. destruct items; [discriminate|]. intros E; injection E as <-. cbn [length]. lia.
  - destruct pos as [i|].
    + destruct i as [|i']; [discriminate|]. intros E; injection E as <-. specialize (Hpos (S i') eq_refl). lia.
    + destruct fresh; [|discriminate]. destruct items as [|x r]; [discriminate|]. intros E; injection E as <-. cbn [length]. lia.
  - intros H. apply seek_idx_bound in H. lia.
Qed.

(* ------------------------------------------------------------------ *)
(* the overlay layer: TransactionRangeIterator (Txn/RangeIter.v) over an ideal snapshot cursor *)

(* for all committed lists and write-set lists (ascending distinct keys, any sizes) and every
   program in which only seeks follow an unpositioned answer, after every operation the
   overlay's valid/key/value are those of the specification cursor over the merged live list *)
Theorem C09_overlay_refines : overlay_refines_stmt.
Proof. exact overlay_refines. Qed.

(* the same for every program, admissible or not *)
Theorem C09_overlay_refines_total : overlay_refines_total_stmt.
Proof. exact overlay_refines_total. Qed.

(* all observations of a run (what `ri run` prints on the model side), without and with bounds;
   with bounds the list is the live pairs of the view inside [lo, hi) *)
Theorem C09_overlay_run : overlay_run_stmt.
Proof. exact overlay_run. Qed.
Theorem C09_overlay_run_bounded : overlay_run_bounded_stmt.
Proof. exact overlay_run_bounded. Qed.

(* the merged live list is sorted and holds exactly: the values written in the transaction, and
   the committed pairs of keys the transaction did not touch (deleted keys are absent) *)
Theorem C09_merged_live_char : merged_live_char_stmt.
Proof. exact merged_live_char. Qed.

(* the fuel of the positioning loops is never exhausted *)
Theorem C09_position_fuel : position_fuel_stmt.
Proof. exact position_fuel. Qed.

(* the executable check used for the small-domain validation decides the refinement statement *)
Theorem C09_refines_check_decides : refines_fromb_iff_stmt.
Proof. exact refines_fromb_iff. Qed.

(* the hypotheses are satisfiable, and the statement is not vacuous: the two reversal cases on
   which the code before its repair went wrong (DESIGN.md, C09) *)
Local Open Scope N_scope.
Example C09_sorted_example : keys_sorted (map fst [([1], [10]); ([3], [30]); ([3; 0], [31])]).
Proof. repeat constructor. Qed.

(* empty snapshot, write set {3, 5}: seek_last; next runs off the end *)
Example C09_reversal_at_exhausted_side :
  ri_run [] [([3], Some [31]); ([5], Some [51])] ri_init [CLast; CNext] = [Some ([5], [51]); None].
Proof. reflexivity. Qed.

(* snapshot {b}, write set {a, c}: seek_last, prev, prev, next yields b *)
Example C09_reversal_p08 :
  ri_run [([98], [0])] [([97], Some [1]); ([99], Some [1])] ri_init [CLast; CPrev; CPrev; CNext]
  = [Some ([99], [1]); Some ([98], [0]); Some ([97], [1]); Some ([98], [0])].
Proof. reflexivity. Qed.

(* a tombstone hides the committed pair in both directions and across a reversal *)
Example C09_tombstone_example :
  ri_run [([1], [10]); ([3], [30]); ([5], [50])] [([3], None); ([5], Some [51])] ri_init
         [CFirst; CNext; CPrev; CSeek [2]; CPrev; CPrev]
  = [Some ([1], [10]); Some ([5], [51]); Some ([1], [10]); Some ([5], [51]); Some ([1], [10]); None].
Proof. reflexivity. Qed.

(* the statement evaluated exhaustively on a small domain (every committed subset of {1,3,5},
   every write set over {1,3,5} with values / tombstones, every program of length <= 3 over
   first, last, next, prev, seek 0/3/4/6) -- the validation that preceded the proof *)
Fixpoint c09_sublists {A} (l : list A) : list (list A) :=
  match l with [] => [[]] | x :: r => let s := c09_sublists r in s ++ map (cons x) s end.
Fixpoint c09_wsets (ks : list N) : list (list (bytes * option bytes)) :=
  match ks with
  | [] => [[]]
  | k :: r => let s := c09_wsets r in s ++ map (cons ([k], Some [k; 1])) s ++ map (cons ([k], None)) s
  end.
Definition c09_ops : list cop := [CFirst; CLast; CNext; CPrev; CSeek [0]; CSeek [3]; CSeek [4]; CSeek [6]].
Fixpoint c09_progs (n : nat) : list (list cop) :=
  match n with O => [[]] | S m => flat_map (fun p => map (fun o => o :: p) c09_ops) (c09_progs m) end.
Definition c09_small_domain_ok : bool :=
  forallb (fun sn => forallb (fun ws => forallb (fun p => refines_fromb sn ws ri_init true None p) (c09_progs 3))
                             (c09_wsets [1; 3; 5]))
          (c09_sublists [([1], [1; 0]); ([3], [3; 0]); ([5], [5; 0])]).
Example C09_small_domain : c09_small_domain_ok = true.
Proof. vm_compute. reflexivity. Qed.
