(* Props/C16.v — property theorems for C16 (damaged files are detected, never served as data).
   Region maps: unconditional.  Detection: with the checksum functions as parameters and the
   no-collision hypothesis explicit (see Codec/RegionsSpec.v).  Proofs by `exact`. *)
From Coq Require Import List NArith Arith Bool.
From SKV Require Import Params Base.Crc32 Codec.Wal Codec.WalSpec Codec.Regions Codec.RegionsSpec Codec.Regions_proofs Codec.RegionsInst Codec.WalInst.
From SKV Require Codec.VlogParams Codec.VlogPtr Lsm.Vlog Lsm.VlogSpec Lsm.Vlog_proofs.
Import ListNotations.

(* the generated format constants (src/sstable/table.rs, src/vlog.rs, src/wal/mod.rs) satisfy the side
   conditions of the model's fixed layout; all translator anchors of the c16 section were found *)
Theorem C16_params_side_conditions : c16_params_ok = true.
Proof. vm_compute. reflexivity. Qed.

(* every byte offset of a table file (any block sizes) lies in exactly one region *)
Theorem C16_table_regions_cover : table_regions_cover_stmt.
Proof. exact table_regions_cover. Qed.

(* ... and the file length is body + TABLE_FULL_FOOTER_LENGTH whenever the footer handles fit *)
Theorem C16_table_len_footer : table_len_footer_stmt.
Proof. exact table_len_footer. Qed.

(* the region map computed from ANY bytes of a commit-log segment tiles those bytes *)
Theorem C16_wal_regions_cover : wal_regions_cover_stmt.
Proof. exact wal_regions_cover. Qed.

(* same for a value-log file *)
Theorem C16_vlog_regions_cover : vlog_regions_cover_stmt.
Proof. exact vlog_regions_cover. Qed.

(* damage at position x of a commit-log segment (one byte altered, or the file cut at x) never changes
   the records that end at or before x (corollary of C12 wal_prefix_stable) *)
Theorem C16_wal_damage_prefix : wal_damage_prefix_stmt.
Proof. exact wal_damage_prefix. Qed.

Section WithChecksums.
Variable crcm : list byte -> list byte.                 (* stored masked CRC-32 of payload ++ [type] *)
Variable decompress : list byte -> option (list byte).  (* snappy *)
Variable vcrc : list byte -> list byte.                 (* value log: CRC-32 of key ++ value *)

(* one altered byte inside a verified block makes read_table_block fail, unless the checksum collides *)
Theorem C16_block_damage_detected : block_damage_detected_stmt crcm decompress.
Proof. exact (block_damage_detected crcm decompress). Qed.

(* reads of the other blocks are unaffected *)
Theorem C16_block_read_local : block_read_local_stmt crcm decompress.
Proof. exact (block_read_local crcm decompress). Qed.

(* value log, Full verification: one altered byte inside a referenced entry makes the read fail,
   unless the checksum of key ++ value collides *)
Theorem C16_vlog_full_detected : vlog_full_detected_stmt vcrc.
Proof. exact (vlog_full_detected vcrc). Qed.

(* the model's decoders are total *)
Theorem C16_reader_total : reader_total_stmt crcm decompress vcrc.
Proof. exact (reader_total crcm decompress vcrc). Qed.
End WithChecksums.

(* footer: altered magic / format / checksum-type bytes are rejected unconditionally *)
Theorem C16_footer_fixed_fields_detected : footer_fixed_fields_detected_stmt.
Proof. exact footer_fixed_fields_detected. Qed.

(* value log behind the block cache, for the code as it is (generated rule VLOG_CACHE_HIT_CHECKED; repair of finding F41):
   whatever happens to the value-log files — cut short, appended to again from the cut position, rewritten, removed; any
   number of times, between any operations of the machine of Lsm/Vlog.v — and through whatever pointer a value is read
   (e.g. one stored in a table written before the damage), at Full verification an answer has the pointer's value size and,
   with some key, the pointer's checksum.  For a pointer issued for (k0, v0): the answer is v0, or an error, or names a
   checksum collision (another value of that length with the checksum of k0 ++ v0); the block cache never serves another
   entry's value.  Statement: Lsm/VlogSpec.v part D; no hypothesis on the parameters; any checksum function *)
Theorem C16_vlog_damaged_reads_checked : VlogSpec.damaged_reads_checked_stmt.
Proof. exact Vlog_proofs.damaged_reads_checked. Qed.

(* regression record of F41: the cache rule before the repair (any hit on (file id, offset) is served) answers the other
   key's value for the old pointer after the history flush, cut, reopen, flush, read — a closed witness *)
Theorem C16_vlog_cache_unchecked_serves_other_entry : VlogSpec.cache_unchecked_serves_other_entry_stmt.
Proof. exact Vlog_proofs.cache_unchecked_serves_other_entry. Qed.

(* ---- non-vacuity: the hypotheses are satisfiable by concrete files built with the real checksum ---- *)
Definition ex_descr : table_descr :=
  {| td_data := [104; 96; 91]; td_filter := Some 18; td_parts := [32; 32; 32]; td_top := 79; td_meta := 355 |}.
(* the layout of a real table file written by the pinned crate (934 bytes, handles 7 bytes) *)
Example C16_table_example :
  table_len ex_descr = 934 /\ handles_len ex_descr = 7 /\ table_descr_ok ex_descr = true /\
  class_at 890 (table_regions ex_descr) = Some FooterHandles /\ class_at 104 (table_regions ex_descr) = Some DataType.
Proof. vm_compute. repeat split; reflexivity. Qed.

Definition ex_payload : list byte := [1; 2; 3; 4; 5; 0; 0; 0; 0; 1; 0; 0; 0]%N.
Definition ex_block_file : list byte := [7; 7]%N ++ ex_payload ++ [0%N] ++ tbl_crcm (ex_payload ++ [0%N]) ++ [9%N].
(* a block at offset 2 verifies (block_ok), reads back, and a flipped payload byte is rejected: the
   no-collision hypothesis of C16_block_damage_detected holds for this alteration *)
Example C16_block_example :
  (forall d, length (tbl_crcm d) = CKL) /\
  read_block tbl_crcm (fun p => Some p) ex_block_file 2 13 = Some ex_payload /\
  tbl_crcm (firstn (13 + CTL) (skipn 2 (alter ex_block_file 4 67%N))) <> tbl_crcm (firstn (13 + CTL) (skipn 2 ex_block_file)) /\
  read_block tbl_crcm (fun p => Some p) (alter ex_block_file 4 67%N) 2 13 = None /\
  read_block tbl_crcm (fun p => Some p) (alter ex_block_file 0 67%N) 2 13 = Some ex_payload.
Proof.
  split; [intros d; reflexivity|].
  split; [vm_compute; reflexivity|].
  split; [vm_compute; discriminate|].
  split; vm_compute; reflexivity.
Qed.
Example C16_block_ok_example : block_ok tbl_crcm ex_block_file 2 13.
Proof. split; vm_compute; [repeat constructor | reflexivity]. Qed.

Definition ex_vlog_file : list byte :=
  repeat 0%N 31 ++ [0; 0; 0; 2; 0; 0; 0; 3]%N ++ [107; 49]%N ++ [10; 20; 30]%N ++ vlog_crc [107; 49; 10; 20; 30]%N.
Definition ex_ptr : vptr := {| vp_off := 31; vp_k := 2; vp_v := 3; vp_crc := vlog_crc [107; 49; 10; 20; 30]%N |}.
Example C16_vlog_example :
  vlog_get vlog_crc ex_vlog_file ex_ptr = Some [10; 20; 30]%N /\
  vlog_get vlog_crc (alter ex_vlog_file 42 21%N) ex_ptr = None /\
  vlog_get vlog_crc (alter ex_vlog_file 34 1%N) ex_ptr = None /\
  count_in 40 (vlog_regions ex_vlog_file) = 1 /\ class_at 42 (vlog_regions ex_vlog_file) = Some EntValue.
Proof. vm_compute. repeat split; reflexivity. Qed.

(* commit log: the region map of a segment with two records, and the record ends the reader reports *)
Definition ex_wal : list byte := phys wal_crc 1 [1; 2; 3]%N ++ phys wal_crc 1 [4; 5]%N.
Example C16_wal_example :
  wal_descr 32 ex_wal = [WRec 1 3; WRec 1 2] /\ wal_rec_ends 0 (wal_descr 32 ex_wal) = [10; 19] /\
  map snd (fst (read_all 32 wal_crc (fun _ => None) ex_wal)) = [10; 19] /\
  class_at 14 (wal_regions 32 ex_wal) = Some RecLen.
Proof. vm_compute. repeat split; reflexivity. Qed.

(* value log behind the block cache: the generated rule is the repaired one, and the witness history of F41 (Lsm/Vlog_proofs.v
   x_ds) on both machines — a damaged history at Full verification, pointers issued for what was written; the old pointer is
   refused by the repaired machine and answered with the other key's value by the one before the repair *)
Example C16_vlog_cut_example :
  VlogParams.VLOG_CACHE_HIT_CHECKED = true /\
  Vlog.ds_run Vlog_proofs.x_crc Vlog_proofs.x_cfg true true Vlog_proofs.x_ds Vlog.vs0 = Some Vlog_proofs.x_st_new /\
  VlogSpec.issued_for Vlog_proofs.x_crc Vlog_proofs.x_p0 Vlog_proofs.x_k0 [7; 7; 7]%N /\
  fst (Vlog.vs_get Vlog_proofs.x_crc Vlog_proofs.x_cfg true Vlog_proofs.x_st_new Vlog_proofs.x_p0) = None /\
  fst (Vlog.vs_get Vlog_proofs.x_crc Vlog_proofs.x_cfg true Vlog_proofs.x_st_new Vlog_proofs.x_p2) = Some [9; 9; 9]%N /\
  fst (Vlog.vs_get Vlog_proofs.x_crc Vlog_proofs.x_cfg false Vlog_proofs.x_st_old Vlog_proofs.x_p0) = Some [9; 9; 9]%N.
Proof. vm_compute. repeat split; reflexivity. Qed.
