(* Props/C13.v — property theorems for C13 (sorted tables), over the generated parameters
   (kind numbering, SEQ_NUM_MAX / TIMESTAMP_MAX from src/lib.rs).  Proofs by `exact`. *)
From Coq Require Import List NArith Bool Arith Sorted.
From SKV Require Import Params Base.Lex Codec.IKey Codec.Separator Codec.SeparatorSpec Codec.Separator_proofs
  Codec.Bloom Codec.BloomSpec Codec.Bloom_proofs Codec.Table Codec.TableSpec Codec.Block_proofs Codec.Table_proofs
  Codec.Iter_proofs.
Import ListNotations.

(* side conditions on the generated parameters the model relies on: a sequence number fits 56 bits
   next to the kind byte, the timestamp fits 64 bits, the kinds the seek keys use are bytes, the
   kind table of trailer_to_kind agrees with the enum discriminants, block trailer = 1 + 4 bytes,
   bloom probe count within 1..30 *)
Definition c13_params_ok : bool :=
  (IK_SEQ_NUM_MAX =? 2 ^ 56 - 1)%N && (IK_TIMESTAMP_MAX =? 2 ^ 64 - 1)%N &&
  (IK_KIND_SET <? 256)%N && (IK_KIND_MAX <? 256)%N && (IK_KIND_SEPARATOR <? 256)%N &&
  IK_KIND_TABLE_CONSISTENT &&
  (TBL_BLOCK_COMPRESS_LEN =? 1)%N && (TBL_BLOCK_CKSUM_LEN =? 4)%N &&
  (1 <=? BLOOM_K)%N && (BLOOM_K <=? 30)%N && (1 <=? BLOOM_BITS_PER_KEY)%N.
Theorem C13_params_side_conditions : c13_params_ok = true.
Proof. vm_compute. reflexivity. Qed.

(* --- comparators --- *)
(* bytewise: a < b -> a <= separator(a,b) < b, not longer than a, still a byte string *)
Theorem C13_bw_separator_between : bw_separator_between_stmt.
Proof. exact bw_separator_between. Qed.
Theorem C13_bw_separator_unchanged : bw_separator_unchanged_stmt.
Proof. exact bw_separator_unchanged. Qed.
Theorem C13_bw_successor_ge : bw_successor_ge_stmt.
Proof. exact bw_successor_ge. Qed.
(* internal keys: total preorder (user key asc, seq desc); separator / successor *)
Theorem C13_ik_order : ik_order_stmt.
Proof. exact ik_order. Qed.
Theorem C13_ik_separator_between : ik_separator_between_stmt.
Proof. exact ik_separator_between. Qed.
Theorem C13_ik_separator_shape : ik_separator_shape_stmt.
Proof. exact ik_separator_shape. Qed.
Theorem C13_ik_successor_ge : ik_successor_ge_stmt.
Proof. exact ik_successor_ge. Qed.
(* codec: decode . encode = id on representable keys; the encoded-key trait functions are the
   decoded ones *)
Theorem C13_ik_roundtrip : ik_roundtrip_stmt.
Proof. exact ik_roundtrip. Qed.
Theorem C13_ik_separator_enc : ik_separator_enc_stmt.
Proof. exact ik_separator_enc_ok. Qed.
Theorem C13_ik_successor_enc : ik_successor_enc_stmt.
Proof. exact ik_successor_enc_ok. Qed.

(* --- the table --- *)
(* point lookup = newest entry of the key at or below the snapshot, for every sorted entry list,
   every chunking into blocks and index partitions, every restart interval, every filter without
   false negatives *)
Theorem C13_get_correct : get_correct_stmt.
Proof. exact get_correct. Qed.
(* a table skipped by is_before_range / is_after_range / !overlaps_with_range holds no key of the
   range; is_key_in_key_range = false implies the key is not stored *)
Theorem C13_range_predicates_sound : range_predicates_sound_stmt.
Proof. exact range_predicates_sound. Qed.
(* iteration: seek_first + next* yields exactly the entries inside the bounds in order, seek_last +
   prev* the reverse; seek(t) lands on the first entry >= t (below the upper bound) and next*
   continues from there; every mixed walk of first/last/seek/next/prev follows the reference cursor
   over the entry list (every chunking, every restart interval, all bound shapes) *)
Theorem C13_iter_forward_complete : iter_forward_complete_stmt.
Proof. exact iter_forward_complete. Qed.
Theorem C13_iter_backward_complete : iter_backward_complete_stmt.
Proof. exact iter_backward_complete. Qed.
Theorem C13_iter_seek : iter_seek_stmt.
Proof. exact iter_seek. Qed.
Theorem C13_iter_seek_scan : iter_seek_scan_stmt.
Proof. exact iter_seek_scan. Qed.
Theorem C13_iter_walk : iter_walk_stmt.
Proof. exact iter_walk. Qed.

(* the bloom filter never denies a key it was built from (any hash function) *)
Theorem C13_bloom_no_false_negative : bloom_no_false_negative_stmt.
Proof. exact bloom_no_false_negative. Qed.

(* get_correct with the table's own bloom filter as `mc` *)
Theorem C13_get_correct_with_bloom :
  forall (h : bytes -> N) (bpk : N) (k : nat) ri es bc pc T u snap,
    sorted es -> build_table ri es bc pc = Some T ->
    (1 <= bpk)%N -> 1 <= k <= 30 -> (N.of_nat (length es) * bpk + 7 < U32)%N ->
    get_spec es u snap
      (table_get T (bloom_may_contain h (bloom_create h bpk k (map (fun e => ik_uk (fst e)) es))) u snap).
Proof.
  intros h bpk k ri es bc pc T u snap Hs Hb Hbpk Hk Hsz.
  apply (get_correct ri es bc pc T _ u snap Hs Hb).
  intros e Hin. apply bloom_no_false_negative; auto.
  rewrite map_length. exact Hsz. apply in_map_iff. exists e. auto.
Qed.

(* non-vacuity: a concrete table with one key spanning two blocks and two index partitions *)
Definition ex_key (u : bytes) (s : N) : ikey := {| ik_uk := u; ik_seq := s; ik_kind := IK_KIND_SET; ik_ts := 0 |}.
Definition ex_entries : list entry :=
  [(ex_key [97] 9, [1]); (ex_key [97] 7, [2]); (ex_key [97] 5, []); (ex_key [97; 255] 4, [3]); (ex_key [98] 3, [4])]%N.
Definition ex_table : option table := build_table 2 ex_entries [2; 1; 2] [1; 2].
Example C13_example_sorted : sorted ex_entries.
Proof. repeat constructor. Qed.
Example C13_example_get :
  match ex_table with
  | Some T => (table_get T (fun _ => true) [97]%N 6%N, table_get T (fun _ => true) [97]%N 4%N,
               table_get T (fun _ => true) [97; 0]%N 100%N)
  | None => (None, None, None)
  end = (Some (ex_key [97] 5, []), None, None)%N.
Proof. vm_compute. reflexivity. Qed.

Example C13_example_seq_bounded : seq_bounded ex_entries.
Proof. intros e H. simpl in H. repeat (destruct H as [<-|H]; [vm_compute; discriminate|]). contradiction. Qed.
Example C13_example_scan :
  match ex_table with
  | Some T => scan_forward T (BInc [97]%N) (BExc [98]%N) 6 = firstn 4 ex_entries /\
              scan_backward T (BExc [97]%N) BUnb 6 = rev (skipn 3 ex_entries)
  | None => False
  end.
Proof. vm_compute. split; reflexivity. Qed.
(* the hypothesis seq_bounded is needed: a stored sequence number above SEQ_NUM_MAX (not
   representable in the 56-bit trailer) sorts before the seek key (u, SEQ_NUM_MAX) and an
   included lower bound u would skip it *)
Definition big_entries : list entry := [(ex_key [97] (IK_SEQ_NUM_MAX + 1), [1]); (ex_key [97] 3, [2])]%N.
Example C13_seq_bound_needed :
  sorted big_entries /\
  match build_table 1 big_entries [2] [1] with
  | Some T => scan_forward T (BInc [97]%N) BUnb 3 = skipn 1 big_entries
  | None => False
  end.
Proof. split. repeat constructor. vm_compute. reflexivity. Qed.
