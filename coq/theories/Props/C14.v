(* Props/C14.v — checkpoint and restore on the specification machine. *)
From Coq Require Import List NArith Arith Bool.
From SKV Require Import Base.Lex Txn.WriteSet Spec.Store Spec.Cursor Spec.Versioned Spec.Machine.
Import ListNotations.

Lemma assoc_get_set_same {A} (i : nat) (a : A) l : assoc_get i (assoc_set i a l) = Some a.
Proof.
  induction l as [|[j b] r IH]; cbn [assoc_set assoc_get].
  - rewrite Nat.eqb_refl. reflexivity.
  - destruct (Nat.eqb i j) eqn:E; cbn [assoc_get]; [rewrite Nat.eqb_refl; reflexivity | rewrite E; exact IH].
Qed.

(* restoring a checkpoint brings back exactly the history committed before it was taken, whatever
   happened in between *)
Theorem C14_restore_after_checkpoint :
  forall s c, m_hist (fst (step (fst (step s (Checkpoint c))) (Restore c))) = m_hist s.
Proof.
  intros s c. cbn [step fst m_ckpts m_hist]. rewrite assoc_get_set_same. reflexivity.
Qed.

(* the checkpoint itself, opened as a database, shows the state committed before it *)
Theorem C14_checkpoint_content :
  forall s c, snd (step (fst (step s (Checkpoint c))) (CkptScan c)) = RList (view (m_hist s) (length (m_hist s))).
Proof.
  intros s c. cbn [step fst snd m_ckpts]. rewrite assoc_get_set_same. reflexivity.
Qed.
