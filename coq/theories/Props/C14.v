(* Props/C14.v — checkpoint and restore.
   (1) on the specification machine (Spec/Machine.v: checkpoint = copy of the history, restore rewinds it);
   (2) on the mid-level machine Lsm/Checkpoint.v — table files, manifest, WAL, memtables, the block cache keyed by
       (table id, block) only, sequence counters, oracle window — instantiated with the restore step list GENERATED from
       Tree::restore_from_checkpoint (Lsm/CheckpointParams.v: CKPT_RESTORE_STEPS): removing or moving a statement of the
       restore (e.g. `block_cache.clear()`) changes the list and the `eq_refl` arguments below no longer type-check. *)
From Coq Require Import List NArith Arith Bool.
From SKV Require Import Base.Lex Txn.WriteSet Spec.Store Spec.Cursor Spec.Versioned Spec.Machine.
From SKV Require Import Lsm.Checkpoint Lsm.CheckpointParams Lsm.CheckpointInst Lsm.CheckpointSpec Lsm.Checkpoint_proofs.
Import ListNotations.

Lemma assoc_get_set_same {A} (i : nat) (a : A) l : assoc_get i (assoc_set i a l) = Some a.
Proof.
  induction l as [|[j b] r IH]; cbn [assoc_set assoc_get].
  - rewrite Nat.eqb_refl. reflexivity.
  - destruct (Nat.eqb i j) eqn:E; cbn [assoc_get]; [rewrite Nat.eqb_refl; reflexivity | rewrite E; exact IH].
Qed.

(* restoring a checkpoint brings back exactly the history committed before it was taken, whatever
   happened in between *)
Theorem C14_restore_after_checkpoint :
  forall s c, m_hist (fst (Machine.step (fst (Machine.step s (Checkpoint c))) (Restore c))) = m_hist s.
Proof.
  intros s c. cbn [Machine.step fst m_ckpts m_hist]. rewrite assoc_get_set_same. reflexivity.
Qed.

(* the checkpoint itself, opened as a database, shows the state committed before it *)
Theorem C14_checkpoint_content :
  forall s c, snd (Machine.step (fst (Machine.step s (Checkpoint c))) (CkptScan c)) = RList (view (m_hist s) (length (m_hist s))).
Proof.
  intros s c. cbn [Machine.step fst snd m_ckpts]. rewrite assoc_get_set_same. reflexivity.
Qed.

(* ---- the mid-level machine with the generated restore ---- *)
(* the facts about the sources the model builds in (lock first, directories replaced, log number and sequence number
   taken from the RELOADED manifest, set_seq_num ignores 0, create_checkpoint flushes first and copies no WAL segment),
   and the step list is the modelled one *)
Theorem C14_ckpt_params : ckpt_params_ok = true.
Proof. reflexivity. Qed.

Theorem C14_invariant_reachable : inv_reachable_stmt CKPT_RESTORE_STEPS.
Proof. exact (inv_reachable_of CKPT_RESTORE_STEPS eq_refl). Qed.

(* (a) the checkpoint directory opens as a healthy store showing exactly the view committed before it *)
Theorem C14_checkpoint_dir_content : checkpoint_content_stmt CKPT_RESTORE_STEPS.
Proof. exact (checkpoint_content CKPT_RESTORE_STEPS eq_refl). Qed.

(* (b) right after the restore every read through the cache returns the checkpointed view, for every key, whatever the
   discarded timeline flushed, compacted and cached under table ids that are handed out again *)
Theorem C14_restore_reads_checkpointed_state : restore_reads_checkpointed_state_stmt CKPT_RESTORE_STEPS.
Proof. exact (restore_reads_checkpointed_state CKPT_RESTORE_STEPS eq_refl). Qed.

Theorem C14_restore_any_checkpoint_reads_its_view : restore_any_checkpoint_reads_its_view_stmt CKPT_RESTORE_STEPS.
Proof. exact (restore_any_checkpoint_reads_its_view CKPT_RESTORE_STEPS eq_refl). Qed.

(* (c) after the restore any further history answers exactly like the same history on a store opened from the
   checkpoint directory.  PARTIAL: not for an empty checkpoint restored into a store that has committed (set_seq_num(0)
   does nothing: the outputs then differ in the sequence numbers; the reads are covered by the theorem above) *)
Theorem C14_post_restore_behaves_like_fresh_open_of_checkpoint_partial :
  post_restore_behaves_like_fresh_open_of_checkpoint_partial_stmt CKPT_RESTORE_STEPS.
Proof. exact (post_restore_behaves_like_fresh_open_of_checkpoint_partial CKPT_RESTORE_STEPS eq_refl). Qed.

(* (d) commits are never shadowed: sequence numbers above everything the store holds, at any time after a restore too *)
Theorem C14_commit_seq_above_store : commit_seq_above_store_stmt CKPT_RESTORE_STEPS.
Proof. exact (commit_seq_above_store CKPT_RESTORE_STEPS eq_refl). Qed.

Theorem C14_restore_rewinds_above_checkpoint : restore_rewinds_above_checkpoint_stmt CKPT_RESTORE_STEPS.
Proof. exact (restore_rewinds_above_checkpoint CKPT_RESTORE_STEPS eq_refl). Qed.

(* (e) regression records: what each statement of the restore is needed for (closed runs of the same machine with the
   statement left out; `without RClearCache` = the code before f0c5933) *)
Theorem C14_stale_read_without_cache_clear : stale_read_without_cache_clear_stmt.
Proof. exact stale_read_without_cache_clear. Qed.

Theorem C14_restored_state_invisible_without_seq_set : restored_state_invisible_without_seq_set_stmt.
Proof. exact restored_state_invisible_without_seq_set. Qed.

Theorem C14_false_conflict_without_oracle_reset : false_conflict_without_oracle_reset_stmt.
Proof. exact false_conflict_without_oracle_reset. Qed.

Theorem C14_discarded_memtable_read_without_replacement : discarded_memtable_read_without_replacement_stmt.
Proof. exact discarded_memtable_read_without_replacement. Qed.

Theorem C14_stale_manifest_without_reload : stale_manifest_without_reload_stmt.
Proof. exact stale_manifest_without_reload. Qed.

(* (f) the hypotheses are satisfiable *)
Example C14_hypotheses_satisfiable : hypotheses_satisfiable_stmt.
Proof. exact hypotheses_satisfiable. Qed.
