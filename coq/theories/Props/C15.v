(* Props/C15.v — property theorems for C15 (a failed commit leaves no trace and does not poison later
   commits), instantiated with the generated parameters: block size (Params.v), BufWriter capacity and
   pipeline sizes (Crash/FailParams.v), the concrete CRC-32.  Proofs by `exact`.

   Writer level (Crash/Fail.v): runs of Wal commands under ARBITRARY answers of write(2)/fsync, on the Wal with
   its `failed` flag (`xrun`: the code since the repair of C15-N1/N2/N10): the two plain crash statements are
   THEOREMS, without any excluded class.  The writer as it was before (`frun`) is kept as a regression
   record: it violated both.
   Pipeline level (Conc/PipeFail.v): arbitrary interleavings of committers.  Since MemTable::add is all-or-nothing
   (repair of C15-N5, e6ce312; generated flag C15_ATOMIC_ADD) the plain live invisibility statement is a THEOREM too;
   the old entry-by-entry add (ATOMIC = false) is kept as a regression record: it violated it. *)
From Coq Require Import List NArith Arith Bool.
From SKV Require Import Params Base.Crc32 Codec.Wal Codec.WalSpec Codec.WalInst
  Crash.Fail Crash.FailSpec Crash.Fail_proofs Crash.FailParams Crash.FailInst Crash.FailInst_proofs
  Conc.PipeFail Conc.PipeFailSpec Conc.PipeFail_proofs.
Import ListNotations.

(* the generated parameters meet the side conditions of the model: capacity = block size > 7,
   8 queue slots, 7 permits, every source anchor of the failure branches found *)
Theorem C15_params_side_conditions : fail_params_ok = true.
Proof. exact fail_params_side_conditions. Qed.

Lemma c15_wb_gt_header : 7 < WB.
Proof. apply Nat.ltb_lt. vm_compute. reflexivity. Qed.
Lemma c15_wb_fits_u16 : (N.of_nat WB <= 65542)%N.
Proof. apply N.leb_le. vm_compute. reflexivity. Qed.
Lemma c15_wb_le_cap : WB <= FC.
Proof. apply Nat.leb_le. vm_compute. reflexivity. Qed.
Theorem C15_geometry : fail_geometry WB FC wal_crc.
Proof.
  split; [|exact c15_wb_le_cap].
  split; [exact c15_wb_gt_header | split; [exact c15_wb_fits_u16 | intros t d; reflexivity]].
Qed.

Section WithCompression.
Variable decompress : list byte -> option (list byte).

(* for EVERY pattern of short writes, write errors and fsync errors and every sequence of append / flush / sync /
   close on a segment — commands after a failure and after close included —, what a crash leaves in the file
   delivers EXACTLY the acknowledged appends, in order *)
Theorem C15_crash_delivers_exactly_acked : crash_delivers_exactly_acked_stmt WB FC wal_crc decompress.
Proof. exact (crash_delivers_exactly_acked WB FC wal_crc decompress). Qed.

(* failed_invisible_after_crash, in full: no record of an append that was not acknowledged is ever delivered *)
Theorem C15_failed_invisible_after_crash : xfailed_invisible_after_crash_stmt WB FC wal_crc decompress.
Proof. exact (xfailed_invisible_after_crash WB FC wal_crc decompress). Qed.

(* later_acks_recovered, in full: every acknowledged append is delivered *)
Theorem C15_later_acks_recovered : xlater_acks_recovered_stmt WB FC wal_crc decompress.
Proof. exact (xlater_acks_recovered WB FC wal_crc decompress). Qed.
End WithCompression.

(* the failure is sticky: once a command failed or was refused no append is acknowledged any more
   (any command sequence, rotate included) *)
Theorem C15_no_ack_after_failure : no_ack_after_failure_stmt WB FC wal_crc.
Proof. exact (no_ack_after_failure WB FC wal_crc). Qed.

(* short writes alone (any pattern, no error return) never make a command fail *)
Theorem C15_short_writes_harmless : xshort_writes_harmless_stmt WB FC wal_crc.
Proof. exact (xshort_writes_harmless WB FC wal_crc). Qed.

(* what remains excluded lives one level up, at a sync COMMIT = append + sync (C15-N3, store level): when the fsync
   fails the record is already in the file; the commit fails, the record is delivered.  Per append nothing is
   wrong (the append was acknowledged), which is why the theorems above need no exclusion; the class predicate
   is `xknown_fsync_failed`. *)
Example C15_fsync_failed_sync_commit :
  x3_results = [XOk; XFail FFailFsync; XRefused] /\ xknown_fsync_failed x3_results = true /\
  xdelivered WB wal_crc nod (fst (fi_xrun x3_wenv x3_senv walx0 x3_cmds)) = [[1%N]] /\
  xacked x3_cmds x3_results = [[1%N]].
Proof. exact x3_fsync_failed. Qed.

(* ---- regression record: the writer before the repair (`frun`: nothing undone on an error path, the writer used
   again afterwards) violated both statements; the same inputs on the repaired Wal ---- *)
Theorem C15_old_writer_failed_invisible_after_crash_refuted : ~ failed_invisible_after_crash_stmt WB FC wal_crc nod.
Proof. exact failed_invisible_after_crash_refuted. Qed.
Theorem C15_old_writer_later_acks_recovered_refuted : ~ later_acks_recovered_stmt WB FC wal_crc nod.
Proof. exact later_acks_recovered_refuted. Qed.
Example C15_former_witnesses_on_the_repaired_wal :
  (snd (fi_xrun w_wenv w_senv walx0 x1_cmds) = [XOk; XFail FFailFlush; XRefused; XOk] /\
   xdelivered WB wal_crc nod (fst (fi_xrun w_wenv w_senv walx0 x1_cmds)) = [[1%N]] /\
   xacked x1_cmds x1_results = [[1%N]] /\ cur_buf (x_wal (fst (fi_xrun w_wenv w_senv walx0 x1_cmds))) = []) /\
  x2_results = [XOk; XFail FFailEmit; XRefused; XRefused; XOk] /\
  xdelivered WB wal_crc nod (fst (fi_xrun w_wenv w_senv walx0 x2_cmds)) = [[1%N]] /\
  xacked x2_cmds x2_results = [[1%N]].
Proof. split; [exact x1_regression | split; [exact x2_results_eq | split; [exact x2_delivered | exact x2_acked]]]. Qed.

Definition C15_SLOTS : nat := N.to_nat C15_COMMIT_SLOTS.
Definition C15_PERMITS : nat := N.to_nat C15_COMMIT_PERMITS.

(* the add of the code: all-or-nothing *)
Definition C15_ATOMIC : bool := C15_ATOMIC_ADD.
Lemma C15_atomic_add : C15_ATOMIC = true.
Proof. reflexivity. Qed.

(* failed_invisible_live, in full: in EVERY interleaving, at any later time, a committer whose commit() returned an
   error (conflict, WAL error, BatchTooLarge, apply error: ArenaFull -> rotation / relog I/O error) has no entry
   in any memtable — a fresh reader sees nothing of it, whatever the horizon *)
Theorem C15_failed_invisible_live :
  forall t s i, reach C15_SLOTS C15_PERMITS C15_ATOMIC t s -> failed s i = true -> entries_of s i = [] /\ visible_of s i = [].
Proof. exact (failed_invisible_live_full C15_SLOTS C15_PERMITS C15_ATOMIC C15_atomic_add). Qed.

(* the invariant behind it, for any add: a failed commit has entries only if its apply failed part-way *)
Theorem C15_failed_invisible_live_outside_known : failed_invisible_live_outside_known_stmt C15_SLOTS C15_PERMITS C15_ATOMIC.
Proof. exact (failed_invisible_live_outside_known C15_SLOTS C15_PERMITS C15_ATOMIC). Qed.

(* regression record (C15-N5): with the old entry-by-entry add (ATOMIC = false) the statement was false: apply failed after
   inserting 1 of 2 entries and publish() moved the horizon over it.  That trace is no behaviour of the all-or-nothing
   add; the same commit failing in apply now leaves nothing in the memtable although the horizon moves over its range *)
Theorem C15_old_add_failed_invisible_live_refuted : ~ failed_invisible_live_stmt C15_SLOTS C15_PERMITS false.
Proof. exact failed_invisible_live_refuted. Qed.
Example C15_former_partial_apply_trace :
  prun 8 true (p0 7) wl_trace = None /\
  match prun 8 true (p0 7) wl0_trace with
  | Some s => failed s 0 = true /\ entries_of s 0 = [] /\ p_visible s = 2 /\ idle 7 s = true
  | None => False end.
Proof. split; [exact wl_not_a_behaviour | exact wl0_invisible]. Qed.

(* sequential use: after a commit of ANY outcome the queue is empty and every permit is free *)
Theorem C15_pipeline_not_poisoned_sequential : pipeline_not_poisoned_sequential_stmt C15_SLOTS C15_PERMITS C15_ATOMIC.
Proof. exact (pipeline_not_poisoned_sequential C15_SLOTS C15_PERMITS C15_ATOMIC). Qed.

(* pipeline_not_poisoned, the full statement, for EVERY interleaving of committers (with the generated sizes,
   7 permits < 8 slots): the commit queue never overflows and len(queue) + free permits <= permits — every
   queue entry is covered by a permit its committer still holds.  (Refuted until the repair of C15-N9:
   failing commits used to return, and free their permit, before their queue entry was drained.) *)
Example C15_permits_lt_slots : C15_PERMITS < C15_SLOTS.
Proof. apply Nat.ltb_lt. vm_compute. reflexivity. Qed.
Theorem C15_pipeline_not_poisoned :
  forall t s, reach C15_SLOTS C15_PERMITS C15_ATOMIC t s -> p_panic s = false /\ length (p_q s) + p_free s <= C15_PERMITS.
Proof. exact (pipeline_not_poisoned C15_SLOTS C15_PERMITS C15_ATOMIC C15_permits_lt_slots). Qed.

(* regression of C15-N9: the former overflow trace (one committer applying, seven failing commits, one more)
   is no behaviour of the model any more; its longest enabled prefix leaves 7 entries queued, no permit
   free, no panic: the seventh failing committer gets no permit and no failed committer can return while
   its entry is queued; after the slow apply everything drains and every commit returns its own outcome *)
Example C15_former_overflow_trace :
  prun 8 true (p0 7) wq_trace = None /\
  (p_panic wq_state = false /\ length (p_q wq_state) = 7 /\ p_free wq_state = 0 /\
   pstep 8 true wq_state (LAcquire 7) = None /\ pstep 8 true wq_state (LFinish 1) = None) /\
  match prun 8 true wq_state wq_drain with
  | Some s => idle 7 s = true /\ failed s 1 = true /\ failed s 6 = true /\ failed s 0 = false
  | None => False end.
Proof. split; [exact wq_not_a_behaviour | split; [exact wq_blocked | exact wq_drains]]. Qed.

(* non-vacuity: the live witness lies in its known class; a run under 1-byte writes, with a close in the middle,
   meets every hypothesis and delivers what was acknowledged *)
Example C15_witness_classes : known_partial_apply wl_trace = true.
Proof. reflexivity. Qed.

Definition c15_ex_cmds : list xcmd :=
  [XC (CAppend [1%N; 2%N]); XC CSync; XC (CAppend []); XC (CAppend [3%N]); XC CFlush; XClose; XC (CAppend [4%N]); XC CSync].
Definition c15_ex_results : list xres :=
  Eval vm_compute in snd (fi_xrun (fun _ => WShort 1) (fun _ => true) walx0 c15_ex_cmds).
Example C15_short_writes_example :
  c15_ex_results = [XOk; XOk; XRejected; XOk; XOk; XOk; XRefused; XOk] /\
  xno_rotate c15_ex_cmds = true /\ xack_after false c15_ex_cmds c15_ex_results = false /\
  xacked c15_ex_cmds c15_ex_results = [[1%N; 2%N]; [3%N]] /\
  xdelivered WB wal_crc nod (fst (fi_xrun (fun _ => WShort 1) (fun _ => true) walx0 c15_ex_cmds)) = [[1%N; 2%N]; [3%N]].
Proof. repeat split; vm_compute; reflexivity. Qed.
