(* Props/C15.v — property theorems for C15 (a failed commit leaves no trace and does not poison later
   commits), instantiated with the generated parameters: block size (Params.v), BufWriter capacity and
   pipeline sizes (Crash/FailParams.v), the concrete CRC-32.  Proofs by `exact`.

   Writer level (Crash/Fail.v): runs of Wal commands under ARBITRARY answers of write(2)/fsync.
   Pipeline level (Conc/PipeFail.v): arbitrary interleavings of committers.
   The two plain crash statements and the plain live invisibility statement are REFUTED for the code as it
   is (witnesses below, confirmed on the implementation by tools/vlib/c15.py); the `_outside_known`
   theorems state what holds outside executable classes. *)
From Coq Require Import List NArith Arith Bool.
From SKV Require Import Params Base.Crc32 Codec.Wal Codec.WalSpec Codec.WalInst
  Crash.Fail Crash.FailSpec Crash.Fail_proofs Crash.FailParams Crash.FailInst Crash.FailInst_proofs
  Conc.PipeFail Conc.PipeFailSpec Conc.PipeFail_proofs.
Import ListNotations.

(* the generated parameters meet the side conditions of the model: capacity = block size > 7,
   8 queue slots, 7 permits, every source anchor of the failure branches found *)
Theorem C15_params_side_conditions : fail_params_ok = true.
Proof. exact fail_params_side_conditions. Qed.

Lemma c15_wb_gt_header : 7 < WB.
Proof. apply Nat.ltb_lt. vm_compute. reflexivity. Qed.
Lemma c15_wb_fits_u16 : (N.of_nat WB <= 65542)%N.
Proof. apply N.leb_le. vm_compute. reflexivity. Qed.
Lemma c15_wb_le_cap : WB <= FC.
Proof. apply Nat.leb_le. vm_compute. reflexivity. Qed.
Theorem C15_geometry : fail_geometry WB FC wal_crc.
Proof.
  split; [|exact c15_wb_le_cap].
  split; [exact c15_wb_gt_header | split; [exact c15_wb_fits_u16 | intros t d; reflexivity]].
Qed.

Section WithCompression.
Variable compress : list byte -> list byte.
Variable decompress : list byte -> option (list byte).

(* whatever short writes and errors happen: while no append failed between two writes of one record,
   file ++ buffer is the byte stream of a fault-free writer and block_offset is in step with it *)
Theorem C15_stream_wellformed : fm_stream_wellformed_stmt WB FC wal_crc compress.
Proof. exact (fm_stream_wellformed WB FC wal_crc compress). Qed.

(* later_acks_recovered outside the class `known_mid_emit_failure`: once the buffer is drained a crash
   delivers exactly the emitted records in order (all acknowledged ones among them), then a clean end *)
Theorem C15_later_acks_recovered_outside_known : later_acks_recovered_outside_known_stmt WB FC wal_crc decompress.
Proof. exact (later_acks_recovered_outside_known WB FC wal_crc decompress). Qed.

(* failed_invisible_after_crash outside the classes `known_used_after_failure`, `known_fsync_failed`:
   a crash right after the first failed command delivers EXACTLY the acknowledged records *)
Theorem C15_failed_invisible_after_crash_outside_known :
  failed_invisible_after_crash_outside_known_stmt WB FC wal_crc decompress.
Proof. exact (failed_invisible_after_crash_outside_known WB FC wal_crc decompress). Qed.
End WithCompression.

(* a successful append or flush leaves the BufWriter empty *)
Theorem C15_ok_drains : fm_ok_drains_stmt WB FC wal_crc.
Proof. exact (fm_ok_drains WB FC wal_crc). Qed.

(* short writes alone (any pattern, no error return) never make a command fail *)
Theorem C15_short_writes_harmless : short_writes_harmless_stmt WB FC wal_crc.
Proof. exact (short_writes_harmless WB FC wal_crc). Qed.

(* REFUTED: a record whose append failed is delivered after later successful appends and a crash
   (witness: three 1-byte records, the second write(2) fails once) *)
Theorem C15_failed_invisible_after_crash_refuted : ~ failed_invisible_after_crash_stmt WB FC wal_crc nod.
Proof. exact failed_invisible_after_crash_refuted. Qed.

(* REFUTED: an append acknowledged after a failed one is lost (witness: a 40000-byte record whose first
   write(2) fails once leaves the header of its second fragment buffered and block_offset 7 behind) *)
Theorem C15_later_acks_recovered_refuted : ~ later_acks_recovered_stmt WB FC wal_crc nod.
Proof. exact later_acks_recovered_refuted. Qed.

Definition C15_SLOTS : nat := N.to_nat C15_COMMIT_SLOTS.
Definition C15_PERMITS : nat := N.to_nat C15_COMMIT_PERMITS.

(* failed_invisible_live outside the class `known_partial_apply`: a commit that failed (conflict, WAL
   error, BatchTooLarge, apply error before the first insert) has no entry in the memtable, in any
   interleaving, at any later time *)
Theorem C15_failed_invisible_live_outside_known : failed_invisible_live_outside_known_stmt C15_SLOTS C15_PERMITS.
Proof. exact (failed_invisible_live_outside_known C15_SLOTS C15_PERMITS). Qed.

(* REFUTED: apply fails after inserting part of the batch; publish() advances the horizon over it *)
Theorem C15_failed_invisible_live_refuted : ~ failed_invisible_live_stmt C15_SLOTS C15_PERMITS.
Proof. exact failed_invisible_live_refuted. Qed.

(* sequential use: after a commit of ANY outcome the queue is empty and every permit is free *)
Theorem C15_pipeline_not_poisoned_sequential : pipeline_not_poisoned_sequential_stmt C15_SLOTS C15_PERMITS.
Proof. exact (pipeline_not_poisoned_sequential C15_SLOTS C15_PERMITS). Qed.

(* pipeline_not_poisoned, the full statement, for EVERY interleaving of committers (with the generated sizes,
   7 permits < 8 slots): the commit queue never overflows and len(queue) + free permits <= permits — every
   queue entry is covered by a permit its committer still holds.  (Refuted until the repair of C15-N9:
   failing commits used to return, and free their permit, before their queue entry was drained.) *)
Example C15_permits_lt_slots : C15_PERMITS < C15_SLOTS.
Proof. apply Nat.ltb_lt. vm_compute. reflexivity. Qed.
Theorem C15_pipeline_not_poisoned :
  forall t s, reach C15_SLOTS C15_PERMITS t s -> p_panic s = false /\ length (p_q s) + p_free s <= C15_PERMITS.
Proof. exact (pipeline_not_poisoned C15_SLOTS C15_PERMITS C15_permits_lt_slots). Qed.

(* regression of C15-N9: the former overflow trace (one committer applying, seven failing commits, one more)
   is no behaviour of the model any more; its longest enabled prefix leaves 7 entries queued, no permit
   free, no panic: the seventh failing committer gets no permit and no failed committer can return while
   its entry is queued; after the slow apply everything drains and every commit returns its own outcome *)
Example C15_former_overflow_trace :
  prun 8 (p0 7) wq_trace = None /\
  (p_panic wq_state = false /\ length (p_q wq_state) = 7 /\ p_free wq_state = 0 /\
   pstep 8 wq_state (LAcquire 7) = None /\ pstep 8 wq_state (LFinish 1) = None) /\
  match prun 8 wq_state wq_drain with
  | Some s => idle 7 s = true /\ failed s 1 = true /\ failed s 6 = true /\ failed s 0 = false
  | None => False end.
Proof. split; [exact wq_not_a_behaviour | split; [exact wq_blocked | exact wq_drains]]. Qed.

(* non-vacuity: the witnesses lie in the known classes; a fault-free run meets every hypothesis *)
Example C15_witness_classes :
  known_used_after_failure (snd w1_run) = true /\ known_mid_emit_failure w2_results = true /\
  known_partial_apply wl_trace = true.
Proof. repeat split; vm_compute; reflexivity. Qed.

Definition c15_ex_cmds : list wcmd := [CAppend [1%N; 2%N]; CSync; CAppend []; CAppend [3%N]; CFlush].
Definition c15_ex_run : wal * list fres :=
  Eval vm_compute in fi_run (fun _ => WShort 1) (fun _ => true) wal0 c15_ex_cmds.
Example C15_short_writes_example :
  run1 WB FC wal_crc (fun _ => WShort 1) (fun _ => true) c15_ex_cmds = c15_ex_run /\
  snd c15_ex_run = [FOk; FOk; FRejected; FOk; FOk] /\
  known_used_after_failure (snd c15_ex_run) = false /\ known_fsync_failed (snd c15_ex_run) = false /\
  known_mid_emit_failure (snd c15_ex_run) = false /\ cur_buf (fst c15_ex_run) = [] /\
  delivered WB wal_crc nod (fst c15_ex_run) = [[1%N; 2%N]; [3%N]].
Proof. repeat split; vm_compute; reflexivity. Qed.
