(* Props/C03.v — crash recovery is atomic and prefix-consistent *)
From Coq Require Import List NArith Arith Bool.
From SKV Require Import Base.Lex Txn.WriteSet Spec.Store.
From SKV Require Import Crash.Proto Crash.ProtoSpec Crash.ProtoRefute Crash.Proto_proofs Crash.ProtoRecovery_proofs.
Import ListNotations.

(* recovery as a specification: the state after the first n commits; states of longer prefixes
   extend shorter ones commit by commit (the oracle of the crash engine: "the recovered map equals
   view h n for some n not smaller than the number of acknowledged commits") *)
Theorem C03_prefix_states_compose :
  forall (h : history) (n : nat) (b : batch), n = length h -> view (h ++ [b]) (S n) = apply_batch (view h n) b.
Proof.
  intros h n b Hn. unfold view. subst n.
  replace (S (length h)) with (length (h ++ [b])) by (rewrite app_length; cbn [length]; apply Nat.add_1_r).
  rewrite !firstn_all. rewrite fold_left_app. reflexivity.
Qed.

(* protocol level: after a crash at any cut of an accepted trace the recovered batches are exactly
   the live batches below some bound in commit order, none of them in part; after a process crash
   the bound is the number of logged batches *)
Theorem C03_recover_is_prefix : recover_is_prefix_stmt.
Proof. exact recover_is_prefix. Qed.

Theorem C03_partial_batch_refuted : partial_batch_refuted_stmt.
Proof. exact partial_batch_refuted. Qed.

Theorem C03_flush_before_relog_refuted : flush_before_relog_refuted_stmt.
Proof. exact flush_before_relog_refuted. Qed.

(* regression record of the recovery before c9fa42b (finding F46), and the repaired recovery on the same state *)
Theorem C03_recovery_piece_unsynced_old_recovery_refuted : recovery_piece_unsynced_old_recovery_refuted_stmt.
Proof. exact recovery_piece_unsynced_old_recovery_refuted. Qed.

Theorem C03_repaired_piece_recovery : repaired_piece_recovery_stmt.
Proof. exact repaired_piece_recovery. Qed.

(* recovery with pieces (any split, also in the middle of a batch): accepted, and a crash of either kind
   at any point inside it recovers the live batches below a bound and nothing in part *)
Theorem C03_recovery_pieces_accepted : recovery_pieces_accepted_stmt.
Proof. exact recovery_pieces_accepted. Qed.

Theorem C03_crash_in_recovery_safe : crash_in_recovery_safe_stmt.
Proof. exact crash_in_recovery_safe. Qed.

Theorem C03_p9_needed : p9_needed_stmt.
Proof. exact p9_needed. Qed.
