(* Misc/Pages.v — the page allocator of src/bplustree/tree.rs (allocate_page / free_page and the
   trunk-page free list), transcribed.  Pages are numbers (byte offset / PAGE_SIZE); page 0 is the
   header page, page 1 the first root; a fresh file has total_pages = 2.

   Header fields used by the allocator: total_pages, trunk_page_head, free_page_count.
   A trunk page holds { next_trunk, free_pages : Vec<u32> } with at most TRUNK_PAGE_MAX_ENTRIES
   entries.  The chain of trunk pages reachable from trunk_page_head through next_trunk is
   represented as the LIST of its trunk pages in link order (head first):
       trunk_page_head = page of the first element (0 when the list is empty)
       next_trunk of an element = page of the following element (0 for the last).
   free_page_count counts the ENTRIES of the trunk pages only, not the trunk pages themselves.
   t_stack is the free_pages vector with the most recently pushed entry FIRST (Vec::push = cons,
   Vec::pop = head).

   Executable definitions only; statements in PagesSpec.v, proofs in Pages_proofs.v. *)
From Coq Require Import List NArith Bool.
Import ListNotations.
Local Open Scope N_scope.

Record trunk := mkTrunk { t_page : N; t_stack : list N }.
Record pstate := mkP { p_total : N; p_count : N; p_chain : list trunk }.

Definition p_head (st : pstate) : N := match p_chain st with [] => 0 | t :: _ => t_page t end.
Definition p_init : pstate := mkP 2 0 [].

Section Alloc.
Variable MAX : N.   (* TRUNK_PAGE_MAX_ENTRIES *)

Definition trunk_full (t : trunk) : bool := MAX <=? N.of_nat (length (t_stack t)).

(* allocate_page:
     if trunk_page_head == 0 || free_page_count == 0  -> extend the file
     else look at the head trunk page:
        not empty              -> pop its last entry, free_page_count -= 1
        empty, next_trunk != 0 -> unlink it (head = next_trunk) and hand the trunk page itself out
        empty, next_trunk == 0 -> prev = current; current = 0; the loop ends:
                                  Err(InconsistentFreePageCount)
   The `while` loop of the Rust code returns or ends during its first iteration, so the branch
   that rewrites a previous trunk page (prev_trunk_offset != 0) is never taken. *)
Definition alloc (st : pstate) : option (N * pstate) :=
  match p_chain st with
  | [] => Some (p_total st, mkP (p_total st + 1) (p_count st) [])
  | t :: rest =>
    if p_count st =? 0 then Some (p_total st, mkP (p_total st + 1) (p_count st) (p_chain st))
    else match t_stack t with
         | e :: s => Some (e, mkP (p_total st) (p_count st - 1) (mkTrunk (t_page t) s :: rest))
         | [] => match rest with
                 | _ :: _ => Some (t_page t, mkP (p_total st) (p_count st) rest)
                 | [] => None
                 end
         end
  end.

(* free_page, list not empty: the first trunk page that is not full takes the entry
   (free_page_count += 1); if all are full the freed page becomes a new, empty trunk page linked
   after the last one (free_page_count unchanged).  Result: new chain, and whether an entry was added. *)
Fixpoint free_walk (p : N) (c : list trunk) : list trunk * bool :=
  match c with
  | [] => ([mkTrunk p []], false)
  | t :: rest =>
    if trunk_full t then let (r, b) := free_walk p rest in (t :: r, b)
    else (mkTrunk (t_page t) (p :: t_stack t) :: rest, true)
  end.

(* free_page: offset < PAGE_SIZE || offset >= total_pages * PAGE_SIZE -> Err(InvalidOffset);
   trunk_page_head == 0 -> the freed page becomes the first trunk page (count unchanged) *)
Definition free (p : N) (st : pstate) : option pstate :=
  if (p <? 1) || (p_total st <=? p) then None
  else match p_chain st with
       | [] => Some (mkP (p_total st) (p_count st) [mkTrunk p []])
       | c => let (c', added) := free_walk p c in
              Some (mkP (p_total st) (if added then p_count st + 1 else p_count st) c')
       end.

(* ---- scripts of allocator calls (what the B+tree does with the allocator) ---- *)
Inductive pop := PAlloc | PFree (p : N)
               | PAllocChain (n : nat)          (* write_overflow_chain: n allocations *)
               | PFreeChain (l : list N).       (* free_overflow_chain: the pages of one chain *)

Inductive outcome :=
  | Done (st : pstate) (live : list N)
  | Illegal          (* the script frees a page that is not live: excluded by the theorems' premise *)
  | AllocErr         (* allocate_page returned Err *)
  | FreeErr.         (* free_page returned Err *)

Definition mem (p : N) (l : list N) : bool := existsb (N.eqb p) l.
Fixpoint remove1 (p : N) (l : list N) : list N :=
  match l with [] => [] | x :: r => if N.eqb p x then r else x :: remove1 p r end.

Definition do_alloc (st : pstate) (live : list N) : outcome :=
  match alloc st with None => AllocErr | Some (p, st') => Done st' (p :: live) end.
Definition do_free (p : N) (st : pstate) (live : list N) : outcome :=
  if mem p live then match free p st with None => FreeErr | Some st' => Done st' (remove1 p live) end
  else Illegal.

Fixpoint do_alloc_n (n : nat) (st : pstate) (live : list N) : outcome :=
  match n with
  | O => Done st live
  | S n' => match do_alloc st live with Done st' live' => do_alloc_n n' st' live' | o => o end
  end.
Fixpoint do_free_l (l : list N) (st : pstate) (live : list N) : outcome :=
  match l with
  | [] => Done st live
  | p :: r => match do_free p st live with Done st' live' => do_free_l r st' live' | o => o end
  end.

Definition pstep (o : pop) (st : pstate) (live : list N) : outcome :=
  match o with
  | PAlloc => do_alloc st live
  | PFree p => do_free p st live
  | PAllocChain n => do_alloc_n n st live
  | PFreeChain l => do_free_l l st live
  end.
Fixpoint prun (ops : list pop) (st : pstate) (live : list N) : outcome :=
  match ops with
  | [] => Done st live
  | o :: r => match pstep o st live with Done st' live' => prun r st' live' | x => x end
  end.

(* the pages held by the free list: trunk pages and their entries *)
Definition trunk_pages (t : trunk) : list N := t_page t :: t_stack t.
Definition free_pages (st : pstate) : list N := flat_map trunk_pages (p_chain st).
Definition free_entries (st : pstate) : list N := flat_map t_stack (p_chain st).

End Alloc.

(* ---- overflow chains: how many pages a payload needs (calculate_overflow, write_overflow_chain) ---- *)
Section Overflow.
Variables CAP MINL MAXL : N.   (* OVERFLOW_PAGE_CAPACITY, *_MIN_LOCAL, *_MAX_LOCAL *)

(* calculate_overflow: (bytes kept on the node page, needs an overflow chain) *)
Definition calc_overflow (payload : N) : N * bool :=
  if payload <=? MAXL then (payload, false)
  else let surplus := MINL + (payload - MINL) mod CAP in
       (if surplus <=? MAXL then surplus else MINL, true).

(* pages of the chain: the remainder in chunks of CAP bytes *)
Definition ovf_pages (payload : N) : N :=
  let (on_page, ov) := calc_overflow payload in
  if ov then (payload - on_page + CAP - 1) / CAP else 0.
End Overflow.
