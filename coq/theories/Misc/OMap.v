(* Misc/OMap.v — ordered map as a sorted association list under a comparison function.

   This is the specification object of property C18 ("the B+tree index is a persistent ordered
   map") and, extracted, the model side of the `bpt` differential.  The comparison function is a
   total PREORDER (the timestamp comparator of src/comparator.rs ignores the 8 trailer bytes of an
   encoded key, so byte-different keys can compare Equal); consequently
     - insert of a key that compares Equal to a stored key replaces the VALUE and keeps the stored
       key bytes (LeafNode::insert: `Ok(idx) => self.values[idx] = value`),
     - get/delete address the entry whose key compares Equal.
   Executable definitions only; statements in OMapSpec.v, proofs in OMap_proofs.v. *)
From Coq Require Import List Bool.
Import ListNotations.

Section OMap.
Variables K V : Type.
Variable cmp : K -> K -> comparison.

Definition omap := list (K * V).

Fixpoint om_get (k : K) (m : omap) : option V :=
  match m with
  | [] => None
  | (k', v) :: r => match cmp k k' with Eq => Some v | Lt => None | Gt => om_get k r end
  end.

(* insert-or-overwrite; on Equal the stored key is kept *)
Fixpoint om_insert (k : K) (v : V) (m : omap) : omap :=
  match m with
  | [] => [(k, v)]
  | (k', v') :: r => match cmp k k' with
                     | Eq => (k', v) :: r
                     | Lt => (k, v) :: m
                     | Gt => (k', v') :: om_insert k v r
                     end
  end.

Fixpoint om_delete (k : K) (m : omap) : omap :=
  match m with
  | [] => []
  | (k', v') :: r => match cmp k k' with
                     | Eq => r
                     | Lt => m
                     | Gt => (k', v') :: om_delete k r
                     end
  end.

(* BPlusTree::delete returns the removed value *)
Definition om_remove (k : K) (m : omap) : option V * omap := (om_get k m, om_delete k m).

(* range bounds: std::ops::Bound *)
Inductive bound := Unb | Incl (k : K) | Excl (k : K).

Definition above_lo (lo : bound) (k : K) : bool :=
  match lo with
  | Unb => true
  | Incl b => match cmp k b with Lt => false | _ => true end
  | Excl b => match cmp k b with Gt => true | _ => false end
  end.
Definition below_hi (hi : bound) (k : K) : bool :=
  match hi with
  | Unb => true
  | Incl b => match cmp k b with Gt => false | _ => true end
  | Excl b => match cmp k b with Lt => true | _ => false end
  end.

(* scan: skip the entries below the lower bound, then take while below the upper bound *)
Fixpoint om_skip (lo : bound) (m : omap) : omap :=
  match m with
  | [] => []
  | (k, v) :: r => if above_lo lo k then m else om_skip lo r
  end.
Fixpoint om_take (hi : bound) (m : omap) : omap :=
  match m with
  | [] => []
  | (k, v) :: r => if below_hi hi k then (k, v) :: om_take hi r else []
  end.
Definition om_range (lo hi : bound) (m : omap) : omap := om_take hi (om_skip lo m).

(* what a range scan should return: the entries whose key lies within the bounds *)
Definition in_bounds (lo hi : bound) (kv : K * V) : bool := above_lo lo (fst kv) && below_hi hi (fst kv).
Definition om_range_spec (lo hi : bound) (m : omap) : omap := filter (in_bounds lo hi) m.

(* cursor: first / last entry, entries from the first key >= k on, entries before it (nearest first) *)
Definition om_first (m : omap) : option (K * V) := hd_error m.
Definition om_last (m : omap) : option (K * V) := hd_error (rev m).
Definition om_seek (k : K) (m : omap) : omap := om_skip (Incl k) m.
Fixpoint om_before_acc (k : K) (m acc : omap) : omap :=
  match m with
  | [] => acc
  | (k', v) :: r => match cmp k' k with Lt => om_before_acc k r ((k', v) :: acc) | _ => acc end
  end.
Definition om_before (k : K) (m : omap) : omap := om_before_acc k m [].

(* `seek k; n steps forward`  and  `seek k; n steps backward`; None = the seek found no entry *)
Definition om_cursor_fwd (k : K) (n : nat) (m : omap) : option omap :=
  match om_seek k m with [] => None | l => Some (firstn (S n) l) end.
Definition om_cursor_bwd (k : K) (n : nat) (m : omap) : option omap :=
  match om_seek k m with [] => None | x :: _ => Some (x :: firstn n (om_before k m)) end.

(* keys strictly ascending *)
Fixpoint om_sortedb (m : omap) : bool :=
  match m with
  | [] => true
  | (k, _) :: r => match r with
                   | [] => true
                   | (k', _) :: _ => match cmp k k' with Lt => om_sortedb r | _ => false end
                   end
  end.

(* programs of updates, from the empty map *)
Inductive mop := MIns (k : K) (v : V) | MDel (k : K).
Definition om_step (m : omap) (o : mop) : omap :=
  match o with MIns k v => om_insert k v m | MDel k => om_delete k m end.
Definition om_apply (ops : list mop) (m : omap) : omap := fold_left om_step ops m.

End OMap.

Arguments om_get {K V}. Arguments om_insert {K V}. Arguments om_delete {K V}. Arguments om_remove {K V}.
Arguments Unb {K}. Arguments Incl {K}. Arguments Excl {K}.
Arguments above_lo {K}. Arguments below_hi {K}.
Arguments om_skip {K V}. Arguments om_take {K V}. Arguments om_range {K V}. Arguments in_bounds {K V}.
Arguments om_range_spec {K V}. Arguments om_first {K V}. Arguments om_last {K V}. Arguments om_seek {K V}.
Arguments om_before_acc {K V}. Arguments om_before {K V}. Arguments om_cursor_fwd {K V}. Arguments om_cursor_bwd {K V}.
Arguments om_sortedb {K V}. Arguments MIns {K V}. Arguments MDel {K V}. Arguments om_step {K V}. Arguments om_apply {K V}.
