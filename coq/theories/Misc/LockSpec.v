(* Misc/LockSpec.v — what "one live instance per database directory" means on the model of
   Misc/Lock.v, for a code variant v (pinned / fixed / fixed_dirs / fixed_drop / restore_unlinks).  All statements
   quantify over arbitrary (unbounded) sequences of micro operations: every interleaving of the steps of any
   number of openers in any number of processes, with close / drop / process death and the directory-rewriting
   operations of live stores (checkpoint, restore) anywhere.
   `lock_owner s` = the owner of the advisory lock on the inode that the NAME <dir>/LOCK denotes in s — the lock a
   new opener runs into; the kernel's table st_flock is per inode. *)
From Coq Require Import List Bool Arith.
From SKV Require Import Misc.Lock.
Import ListNotations.

(* an opener that may read or write the store's files: from the granted lock until its release *)
Definition critical (p : pc) : bool :=
  match p with
  | PLocked | PCleared | PCloned | PWritten | PLive | PRestoring | PClosing | PDropping | PDropClosing | PDetached => true
  | PStart | PValidated | PDirs | POpened | PClosed => false
  end.
Definition in_critical (s : state) (o : oid) : bool :=
  match st_op s o with Some r => critical (o_pc r) | None => false end.

(* 1. never two holders: at any moment at most one opener is between lock and release, and it is
      the one the kernel's lock table names for the inode called LOCK *)
Definition mutual_exclusion_stmt (v : variant) : Prop :=
  forall (ops : list op) (o1 o2 : oid),
    let s := run v ops s0 in
    in_critical s o1 = true -> in_critical s o2 = true -> o1 = o2.
Definition holder_is_flock_owner_stmt (v : variant) : Prop :=
  forall (ops : list op) (o : oid),
    let s := run v ops s0 in
    in_critical s o = true -> lock_owner s = Some o.

(* 2. after close / drop (inside a runtime) / death of the holder's process, the next open succeeds *)
Definition releases (o : oid) (p : proc) : list (list op) := [close_ops o; drop_ops o; [OKill p]].
Definition release_reopens_stmt (v : variant) : Prop :=
  forall (ops : list op) (o : oid) (r : opener) (rel : list op) (o' : oid) (p' : proc) (opts' : oopts),
    let s := run v ops s0 in
    st_op s o = Some r -> o_pc r = PLive ->
    In rel (releases o (o_proc r)) ->
    let s1 := run v rel s in
    st_op s1 o' = None -> op_valid opts' = true ->
    let s2 := run v (open_ops o' p' opts') s1 in
    is_live s2 o' = true /\ lock_owner s2 = Some o'.
(* more generally: whenever nobody owns the lock, an open with valid options succeeds *)
Definition free_open_succeeds_stmt (v : variant) : Prop :=
  forall (ops : list op) (o' : oid) (p' : proc) (opts' : oopts),
    let s := run v ops s0 in
    lock_owner s = None -> st_op s o' = None -> op_valid opts' = true ->
    let s2 := run v (open_ops o' p' opts') s in
    is_live s2 o' = true /\ lock_owner s2 = Some o'.
(* ... and while somebody owns it, an open fails *)
Definition held_open_refused_stmt (v : variant) : Prop :=
  forall (ops : list op) (h o' : oid) (p' : proc) (opts' : oopts),
    let s := run v ops s0 in
    lock_owner s = Some h -> st_op s o' = None ->
    let s2 := run v (open_ops o' p' opts') s in
    st_op s2 o' = None /\ lock_owner s2 = Some h.
(* the same for a Tree dropped on a thread outside any tokio runtime: once drop() has returned
   (drop_detached_ops: the whole call) the next open succeeds — no ORuntimeGone, i.e. without waiting
   for any runtime to be shut down.  Holds for the repaired code (F28), fails for the code before it
   (there drop_detached_ops o changes exactly what [ODropDetached o] changes: Lock_proofs
   drop_detached_ops_old, and the old form of the statement is kept below for the regression record). *)
Definition detached_drop_reopens_stmt (v : variant) : Prop :=
  forall (ops : list op) (o : oid) (r : opener) (o' : oid) (p' : proc) (opts' : oopts),
    let s := run v ops s0 in
    st_op s o = Some r -> o_pc r = PLive ->
    let s1 := run v (drop_detached_ops o) s in
    st_op s1 o' = None -> op_valid opts' = true ->
    let s2 := run v (open_ops o' p' opts') s1 in
    is_live s2 o' = true /\ lock_owner s2 = Some o'.
(* the statement as it stood before the repair (one micro operation, liveness only) *)
Definition detached_drop_reopens_old_stmt (v : variant) : Prop :=
  forall (ops : list op) (o : oid) (r : opener) (o' : oid) (p' : proc) (opts' : oopts),
    let s := run v ops s0 in
    st_op s o = Some r -> o_pc r = PLive ->
    let s1 := run v [ODropDetached o] s in
    st_op s1 o' = None -> op_valid opts' = true ->
    let s2 := run v (open_ops o' p' opts') s1 in
    is_live s2 o' = true.
(* after the whole call the opener is gone, the kernel's lock is free, the release is logged *)
Definition detached_drop_releases_stmt (v : variant) : Prop :=
  forall (ops : list op) (o : oid) (r : opener),
    let s := run v ops s0 in
    st_op s o = Some r -> o_pc r = PLive ->
    let s1 := run v (drop_detached_ops o) s in
    st_op s1 o = None /\ lock_owner s1 = None /\ st_flock s1 = [] /\
    st_log s1 = st_log s ++ [EvData o KShutdown; EvRelease o; EvGone o].
(* the state "dropped, store kept alive by its background tasks" does not exist any more, under any
   interleaving; hence the shutdown of a runtime never changes anything *)
Definition never_detached_stmt (v : variant) : Prop :=
  forall (ops : list op) (o : oid), pc_of (run v ops s0) o <> Some PDetached.
Definition runtime_gone_changes_nothing_stmt (v : variant) : Prop :=
  forall (ops : list op) (o : oid), let s := run v ops s0 in run v [ORuntimeGone o] s = s.

(* 3. lock before recovery, release last: scanning the ghost log oldest-first with the current
      owner, every lock grant finds the lock free, every release is the owner's, and every event
      that reads/writes store files (recovery, commits, shutdown, pid write) is the owner's *)
Definition scan_ev (a : option (option oid)) (e : event) : option (option oid) :=
  match a with
  | None => None
  | Some h =>
    match e with
    | EvAcquire o => match h with None => Some (Some o) | Some _ => None end
    | EvRelease o => if holds h o then Some None else None
    | EvData o _ | EvLockSet o => if holds h o then Some h else None
    | _ => Some h
    end
  end.
Definition scan (l : list event) : option (option oid) := fold_left scan_ev l (Some None).
Definition data_inside_lock_stmt (v : variant) : Prop :=
  forall ops : list op, let s := run v ops s0 in scan (st_log s) = Some (lock_owner s).
(* the same read off the log directly: a recovery (or any data) event of o is preceded by a lock
   grant to o with no release of o in between *)
Definition lock_before_recovery_stmt (v : variant) : Prop :=
  forall (ops : list op) (l1 l2 : list event) (o : oid) (k : dkind),
    st_log (run v ops s0) = l1 ++ EvData o k :: l2 ->
    exists la lb, l1 = la ++ EvAcquire o :: lb /\ ~ In (EvRelease o) lb.

(* 4. a failed open (refused, or invalid options) leaves the directory tree as it was: LOCK
      content, directories, data files; and logs no data event *)
Definition is_data (e : event) : bool := match e with EvData _ _ => true | _ => false end.
Definition refused_open_touches_nothing_stmt (v : variant) : Prop :=
  forall (ops : list op) (o : oid) (p : proc) (opts : oopts),
    let s := run v ops s0 in
    st_op s o = None ->
    let s' := run v (open_ops o p opts) s in
    st_op s' o = None ->
    st_fs s' = st_fs s /\ filter is_data (st_log s') = filter is_data (st_log s).
(* the same for an opener that asks for no sub-directory which does not exist yet (e.g. the same
   options as the holder) *)
Definition wanted_present (f : fs) (o : oopts) : bool :=
  f_std f && (implb (op_vlog o) (f_vlog f)) && (implb (op_ver o) (f_ver f)).
Definition refused_open_same_layout_touches_nothing_stmt (v : variant) : Prop :=
  forall (ops : list op) (o : oid) (p : proc) (opts : oopts),
    let s := run v ops s0 in
    st_op s o = None -> wanted_present (st_fs s) opts = true ->
    let s' := run v (open_ops o p opts) s in
    st_op s' o = None ->
    st_fs s' = st_fs s /\ filter is_data (st_log s') = filter is_data (st_log s).

(* what a failed open may change at most, whatever the variant (the property "outside the known
   classes"): never the data files nor the base directory; LOCK keeps its content or becomes
   empty; sub-directories are only added, and none if the opener asks for no missing one *)
Definition dirs_le (a b : fs) : bool :=
  implb (f_base a) (f_base b) && implb (f_std a) (f_std b) && implb (f_vlog a) (f_vlog b) && implb (f_ver a) (f_ver b).
Definition refused_open_outside_known_stmt (v : variant) : Prop :=
  forall (ops : list op) (o : oid) (p : proc) (opts : oopts),
    let s := run v ops s0 in
    st_op s o = None ->
    let s' := run v (open_ops o p opts) s in
    st_op s' o = None ->
    f_data (st_fs s') = f_data (st_fs s) /\ filter is_data (st_log s') = filter is_data (st_log s) /\
    (f_lock (st_fs s') = f_lock (st_fs s) \/ f_lock (st_fs s') = LEmpty) /\
    f_lock_ino (st_fs s') = f_lock_ino (st_fs s) /\
    f_base (st_fs s') = f_base (st_fs s) /\ dirs_le (st_fs s) (st_fs s') = true /\
    (wanted_present (st_fs s) opts = true -> dirs_eqb (st_fs s) (st_fs s') = true) /\
    st_flock s' = st_flock s /\ lock_owner s' = lock_owner s.

(* 4', for all interleavings: while some opener owns the lock, no OTHER opener changes anything
   in the directory tree (events flagged changed = true) *)
Definition quiet_ev (a : option (option oid)) (e : event) : option (option oid) :=
  match a with
  | None => None
  | Some h =>
    match e with
    | EvAcquire o => Some (Some o)
    | EvRelease o => Some None
    | EvMkdir o true | EvLockOpen o true | EvLockUnlink o =>
      match h with Some x => if Nat.eqb x o then Some h else None | None => Some h end
    | _ => Some h
    end
  end.
Definition quiet (l : list event) : bool :=
  match fold_left quiet_ev l (Some None) with Some _ => true | None => false end.
Definition no_foreign_modification_stmt (v : variant) : Prop :=
  forall ops : list op, quiet (st_log (run v ops s0)) = true.
(* restricted to histories whose openers all ask for the same sub-directories *)
Definition same_layout (vl vr : bool) (ops : list op) : Prop :=
  forall o p opts, In (OBegin o p opts) ops -> op_vlog opts = vl /\ op_ver opts = vr.
Definition no_foreign_modification_same_layout_stmt (v : variant) : Prop :=
  forall (vl vr : bool) (ops : list op), same_layout vl vr ops -> quiet (st_log (run v ops s0)) = true.

(* 5. the directory-rewriting operations of a LIVE store.  A restore (the whole call: restore_ops) leaves the store
      live and the owner of the lock on the inode called LOCK; the name, its inode (the one the holder opened and
      locked) and its content are what they were; a new opener is refused and changes nothing of that *)
Definition restore_keeps_lock_stmt (v : variant) : Prop :=
  forall (ops : list op) (o : oid) (r : opener) (o' : oid) (p' : proc) (opts' : oopts),
    let s := run v ops s0 in
    st_op s o = Some r -> o_pc r = PLive ->
    let s1 := run v (restore_ops o) s in
    is_live s1 o = true /\ lock_owner s1 = Some o /\ st_flock s1 = st_flock s /\
    f_lock (st_fs s1) <> LAbsent /\ f_lock (st_fs s1) = f_lock (st_fs s) /\
    f_lock_ino (st_fs s1) = f_lock_ino (st_fs s) /\ f_lock_ino (st_fs s1) = o_ino r /\
    (st_op s1 o' = None ->
     let s2 := run v (open_ops o' p' opts') s1 in
     st_op s2 o' = None /\ is_live s2 o = true /\ lock_owner s2 = Some o).
(* the same at every moment of every interleaving (so also between the two halves of a restore, and with other
   openers' steps, commits, checkpoints and deaths in between): every opener that has opened LOCK — in particular
   the holder — has the inode that the name LOCK denotes now; the name is never missing again once an opener got
   that far *)
Definition lock_name_stable_stmt (v : variant) : Prop :=
  forall (ops : list op) (o : oid) (r : opener),
    let s := run v ops s0 in
    st_op s o = Some r ->
    match o_pc r with PStart | PValidated | PDirs => True
    | _ => f_lock (st_fs s) <> LAbsent /\ f_lock_ino (st_fs s) = o_ino r end.
(* the kernel holds at most one lock, and it is on the inode called LOCK *)
Definition single_lock_stmt (v : variant) : Prop :=
  forall (ops : list op),
    let s := run v ops s0 in
    st_flock s = match lock_owner s with Some h => [(f_lock_ino (st_fs s), h)] | None => [] end.
(* a checkpoint changes neither LOCK nor the lock table nor any opener *)
Definition checkpoint_keeps_lock_stmt (v : variant) : Prop :=
  forall (ops : list op) (o : oid),
    let s := run v ops s0 in
    let s1 := run v [OCheckpoint o] s in
    st_op s1 = st_op s /\ st_flock s1 = st_flock s /\ lock_owner s1 = lock_owner s /\
    f_lock (st_fs s1) = f_lock (st_fs s) /\ f_lock_ino (st_fs s1) = f_lock_ino (st_fs s) /\ dirs_eqb (st_fs s) (st_fs s1) = true.
