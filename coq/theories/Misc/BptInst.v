(* Misc/BptInst.v — the C18 models instantiated with the constants of src/bplustree/tree.rs
   (Params.v, regenerated from the sources on every check).  Executable definitions only. *)
From Coq Require Import List NArith Bool.
From SKV Require Import Params Base.Lex Misc.OMap Misc.BptKey Misc.Pages.
Import ListNotations.
Local Open Scope N_scope.

Definition bpt_init : pstate := mkP BPT_INIT_TOTAL_PAGES BPT_INIT_FREE_COUNT [].
Definition bpt_alloc : pstate -> option (N * pstate) := alloc.
Definition bpt_free : N -> pstate -> option pstate := free BPT_TRUNK_MAX_ENTRIES.

Definition bpt_leaf_overflow (payload : N) : N * bool := calc_overflow BPT_OVERFLOW_CAP BPT_LEAF_MIN_LOCAL BPT_LEAF_MAX_LOCAL payload.
Definition bpt_leaf_ovf_pages (payload : N) : N := ovf_pages BPT_OVERFLOW_CAP BPT_LEAF_MIN_LOCAL BPT_LEAF_MAX_LOCAL payload.
Definition bpt_int_ovf_pages (keylen : N) : N := ovf_pages BPT_OVERFLOW_CAP BPT_INT_MIN_LOCAL BPT_INT_MAX_LOCAL keylen.

(* side conditions under which the models above are the code's (decided by computation) *)
Definition bpt_params_ok : bool :=
  (BPT_INIT_TRUNK_HEAD =? 0) && (BPT_INIT_FREE_COUNT =? 0) && (BPT_INIT_TOTAL_PAGES =? 2)
  && (BPT_TRUNK_MAX_ENTRIES =? (BPT_PAGE_SIZE - BPT_TRUNK_HEADER_SIZE) / BPT_TRUNK_ENTRY_SIZE)
  && (BPT_TRUNK_HEADER_SIZE + BPT_TRUNK_MAX_ENTRIES * BPT_TRUNK_ENTRY_SIZE <=? BPT_PAGE_SIZE)   (* a full trunk page fits *)
  && (0 <? BPT_TRUNK_MAX_ENTRIES)
  && (BPT_OVERFLOW_CAP + 13 =? BPT_PAGE_SIZE) && (0 <? BPT_OVERFLOW_CAP)
  && (BPT_LEAF_MIN_LOCAL <=? BPT_LEAF_MAX_LOCAL) && (BPT_INT_MIN_LOCAL <=? BPT_INT_MAX_LOCAL)
  (* four maximal cells / entries fit in a page: a split point always exists *)
  && (BPT_LEAF_HEADER_SIZE + 4 * (BPT_KEY_SIZE_PREFIX + BPT_VALUE_SIZE_PREFIX + BPT_LEAF_MAX_LOCAL + BPT_OVERFLOW_PTR_SIZE) <=? BPT_PAGE_SIZE)
  && (BPT_INTERNAL_HEADER_SIZE + BPT_CHILD_PTR_SIZE + 4 * (BPT_KEY_SIZE_PREFIX + BPT_INT_MAX_LOCAL + BPT_OVERFLOW_PTR_SIZE + BPT_CHILD_PTR_SIZE) <=? BPT_PAGE_SIZE)
  && (BPT_TRUNK_FULL_CMP 3 3) && (BPT_TRUNK_FULL_CMP 3 4) && negb (BPT_TRUNK_FULL_CMP 4 3)
  && negb BPT_RANGE_EMPTY_START_IS_UNBOUNDED.
