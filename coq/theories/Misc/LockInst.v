(* Misc/LockInst.v — the variant of the lock protocol that the sources in /repo implement, read off
   src/lockfile.rs, src/lsm.rs and src/checkpoint.rs by tools/gen_params.py into Misc/LockParams.v (regenerated on
   every check). *)
From SKV Require Import Misc.LockParams Misc.Lock.

Definition current : variant :=
  {| trunc_on_open := LOCK_TRUNC_ON_OPEN; subdirs_before_lock := LOCK_SUBDIRS_BEFORE_LOCK;
     detached_drop_closes := LOCK_DETACHED_DROP_CLOSES;
     restore_keeps_lock_name := LOCK_RESTORE_KEEPS_LOCK_NAME |}.
