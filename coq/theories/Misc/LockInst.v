(* Misc/LockInst.v — the variant of the lock protocol that the sources in /repo implement, read off
   src/lockfile.rs and src/lsm.rs by tools/gen_params.py into Misc/LockParams.v (regenerated on every check). *)
From SKV Require Import Misc.LockParams Misc.Lock.

Definition current : variant :=
  {| trunc_on_open := LOCK_TRUNC_ON_OPEN; subdirs_before_lock := LOCK_SUBDIRS_BEFORE_LOCK;
     detached_drop_closes := LOCK_DETACHED_DROP_CLOSES |}.
