(* Misc/Pages_proofs.v — proofs of the statements of PagesSpec.v *)
From Coq Require Import List NArith Bool Lia Sorting.Permutation.
From SKV Require Import Misc.Pages Misc.PagesSpec.
Import ListNotations.
Local Open Scope N_scope.
Arguments N.add : simpl never. Arguments N.sub : simpl never. Arguments N.eqb : simpl never.
Arguments N.ltb : simpl never. Arguments N.leb : simpl never. Arguments N.mul : simpl never.
Arguments N.div : simpl never. Arguments N.modulo : simpl never.

Ltac wf_split := unfold pages_wf; split; [|split; [|split; [|split]]].

(* ---------------------------------------------------------------- lists *)
Lemma mem_In : forall p l, mem p l = true <-> In p l.
Proof.
  intros p l. unfold mem. rewrite existsb_exists. split.
  - intros [x [I E]]. apply N.eqb_eq in E. subst. assumption.
  - intro I. exists p. split; [assumption | apply N.eqb_refl].
Qed.

Lemma remove1_perm : forall p l, In p l -> Permutation l (p :: remove1 p l).
Proof.
  induction l as [|x r IH]; intro I; [destruct I|]. simpl.
  destruct (N.eqb p x) eqn:E.
  - apply N.eqb_eq in E. subst. apply Permutation_refl.
  - destruct I as [I|I]; [subst; rewrite N.eqb_refl in E; discriminate|].
    eapply Permutation_trans; [apply perm_skip; apply IH; assumption | apply perm_swap].
Qed.

Lemma wf_perm : forall MAX st st' live live',
  Permutation (live ++ free_pages st) (live' ++ free_pages st') ->
  p_total st' = p_total st ->
  p_count st' = N.of_nat (length (free_entries st')) ->
  Forall (fun t => N.of_nat (length (t_stack t)) <= MAX) (p_chain st') ->
  pages_wf MAX st live -> pages_wf MAX st' live'.
Proof.
  intros MAX st st' live live' P T C F [ND [R [T1 _]]]. wf_split; rewrite ?T; try assumption.
  - eapply Permutation_NoDup; eassumption.
  - intro p. split; intro I.
    + apply R. eapply Permutation_in; [apply Permutation_sym; eassumption | assumption].
    + eapply Permutation_in; [eassumption|]. apply R. assumption.
Qed.

(* ---------------------------------------------------------------- init *)
Theorem init_wf_ok : init_wf_stmt.
Proof.
  intro MAX. wf_split; unfold p_init, free_pages, free_entries; simpl.
  - constructor; [intros [] | constructor].
  - intro p. split; [intros [H|[]]; subst; lia | intro H; left; lia].
  - lia.
  - reflexivity.
  - constructor.
Qed.

(* ---------------------------------------------------------------- allocate_page *)
Lemma alloc_cases : forall MAX st live, pages_wf MAX st live ->
  exists p st', alloc st = Some (p, st') /\ ~ In p live /\ pages_wf MAX st' (p :: live)
                /\ (p_count st <> 0 -> p_total st' = p_total st /\ In p (free_pages st)).
Proof.
  intros MAX [total count chain] live W. pose proof W as [ND [R [T1 [C F]]]].
  unfold alloc. simpl in *.
  (* extending the file *)
  assert (EXT : forall ch, ch = chain ->
            ~ In total live /\ pages_wf MAX (mkP (total + 1) count ch) (total :: live)).
  { intros ch ->. assert (NI : ~ In total (live ++ free_pages (mkP total count chain))).
    { intro I. apply R in I. lia. }
    split; [intro I; apply NI; apply in_or_app; left; assumption|].
    wf_split; simpl; try assumption.
    - constructor; assumption.
    - intro p. split.
      + intros [H|H]; [subst; lia | apply R in H; lia].
      + intro H. destruct (N.eq_dec p total) as [->|NE]; [left; reflexivity | right; apply R; lia].
    - lia. }
  destruct chain as [|t rest].
  - exists total, (mkP (total + 1) count []). destruct (EXT [] eq_refl) as [E1 E2].
    split; [reflexivity|]. split; [assumption|]. split; [assumption|].
    intro NZ. exfalso. unfold free_entries in C. simpl in C. lia.
  - destruct (count =? 0) eqn:Z.
    + apply N.eqb_eq in Z. exists total, (mkP (total + 1) count (t :: rest)). destruct (EXT (t :: rest) eq_refl) as [E1 E2].
      split; [reflexivity|]. split; [assumption|]. split; [assumption|]. intro NZ. exfalso. apply NZ. assumption.
    + apply N.eqb_neq in Z. destruct t as [pg stack]. simpl. destruct stack as [|e s].
      * (* empty head trunk page *)
        destruct rest as [|t2 rest2].
        -- exfalso. unfold free_entries in C. simpl in C. lia.
        -- exists pg, (mkP total count (t2 :: rest2)).
           assert (P : Permutation (live ++ free_pages (mkP total count (mkTrunk pg [] :: t2 :: rest2)))
                                   ((pg :: live) ++ free_pages (mkP total count (t2 :: rest2)))).
           { unfold free_pages. simpl. apply Permutation_sym. apply Permutation_middle. }
           split; [reflexivity|]. split; [|split; [|intros _; split]].
           ++ intro I. unfold free_pages in ND. simpl in ND. apply NoDup_remove_2 in ND. apply ND. apply in_or_app. left. assumption.
           ++ eapply wf_perm; [exact P | reflexivity | | | exact W].
              ** unfold free_entries in *. simpl in *. assumption.
              ** inversion F; assumption.
           ++ reflexivity.
           ++ unfold free_pages. simpl. left. reflexivity.
      * (* pop *)
        exists e, (mkP total (count - 1) (mkTrunk pg s :: rest)).
        assert (P : Permutation (live ++ free_pages (mkP total count (mkTrunk pg (e :: s) :: rest)))
                                ((e :: live) ++ free_pages (mkP total (count - 1) (mkTrunk pg s :: rest)))).
        { unfold free_pages. simpl. apply Permutation_sym.
          change (Permutation (e :: live ++ [pg] ++ (s ++ flat_map trunk_pages rest)) (live ++ [pg] ++ e :: s ++ flat_map trunk_pages rest)).
          rewrite (app_assoc live [pg] (s ++ flat_map trunk_pages rest)), (app_assoc live [pg] (e :: s ++ flat_map trunk_pages rest)).
          apply Permutation_middle. }
        split; [reflexivity|]. split; [|split; [|intros _; split]].
        -- intro I. unfold free_pages in ND. simpl in ND.
           assert (ND2 : NoDup ((live ++ [pg]) ++ e :: s ++ flat_map trunk_pages rest)) by (rewrite <- app_assoc; exact ND).
           apply NoDup_remove_2 in ND2. apply ND2. apply in_or_app. left. apply in_or_app. left. assumption.
        -- eapply wf_perm; [exact P | reflexivity | | | exact W].
           ++ unfold free_entries in *. simpl in *. lia.
           ++ inversion F; subst. constructor; [simpl in *; lia | assumption].
        -- reflexivity.
        -- unfold free_pages. simpl. right. left. reflexivity.
Qed.

Theorem alloc_ok_ok : alloc_ok_stmt.
Proof. intros MAX st live W. destruct (alloc_cases MAX st live W) as [p [st' [A [N [W' _]]]]]. exists p, st'. auto. Qed.

Theorem alloc_reuses_ok : alloc_reuses_stmt.
Proof. intros MAX st live W NZ. destruct (alloc_cases MAX st live W) as [p [st' [A [N [W' Rz]]]]]. exists p, st'. destruct (Rz NZ). auto. Qed.

(* ---------------------------------------------------------------- free_page *)
Lemma free_walk_spec : forall MAX p c, Forall (fun t => N.of_nat (length (t_stack t)) <= MAX) c ->
  let (c', added) := free_walk MAX p c in
  Permutation (p :: flat_map trunk_pages c) (flat_map trunk_pages c')
  /\ length (flat_map t_stack c') = (length (flat_map t_stack c) + (if added then 1 else 0))%nat
  /\ Forall (fun t => N.of_nat (length (t_stack t)) <= MAX) c'.
Proof.
  induction c as [|t rest IH]; intro F; simpl.
  - split; [apply Permutation_refl|]. split; [simpl; lia|]. constructor; [simpl; lia | constructor].
  - inversion F as [|? ? Ft Fr]; subst. unfold trunk_full. destruct (MAX <=? N.of_nat (length (t_stack t))) eqn:E.
    + specialize (IH Fr). destruct (free_walk MAX p rest) as [r b]. destruct IH as [P [L F']]. simpl. split; [|split].
      * eapply Permutation_trans; [apply Permutation_middle with (l1 := trunk_pages t)|]. simpl.
        apply perm_skip. apply Permutation_app_head. eapply Permutation_trans; [|exact P]. apply Permutation_refl.
      * rewrite !app_length, L. lia.
      * constructor; assumption.
    + apply N.leb_gt in E. simpl. split; [|split].
      * apply perm_swap.
      * simpl. lia.
      * constructor; [simpl; lia | assumption].
Qed.

Theorem free_ok_ok : free_ok_stmt.
Proof.
  intros MAX [total count chain] live p W I. pose proof W as [ND [R [T1 [C F]]]]. simpl in *.
  assert (RG : 1 <= p < total). { apply R. apply in_or_app. left. assumption. }
  unfold free. cbn [p_total p_count p_chain].
  destruct (p <? 1) eqn:E1; [apply N.ltb_lt in E1; lia|].
  destruct (total <=? p) eqn:E2; [apply N.leb_le in E2; lia|]. cbn [orb].
  pose proof (free_walk_spec MAX p chain F) as FW.
  assert (LP : Permutation (live ++ free_pages (mkP total count chain)) (remove1 p live ++ p :: flat_map trunk_pages chain)).
  { unfold free_pages. simpl. eapply Permutation_trans; [apply Permutation_app_tail; apply remove1_perm; exact I|].
    simpl. apply Permutation_middle. }
  destruct chain as [|t rest].
  - eexists. split; [reflexivity|].
    refine (wf_perm MAX _ _ live _ _ _ _ _ W).
    + unfold free_pages at 2. simpl. exact LP.
    + reflexivity.
    + unfold free_entries in *. simpl in *. assumption.
    + constructor; [simpl; lia | constructor].
  - destruct (free_walk MAX p (t :: rest)) as [c' added]. destruct FW as [P [L F']].
    eexists. split; [reflexivity|].
    refine (wf_perm MAX _ _ live _ _ _ _ _ W).
    + eapply Permutation_trans; [exact LP|]. unfold free_pages. simpl p_chain. apply Permutation_app_head. exact P.
    + reflexivity.
    + unfold free_entries in *. simpl p_chain in *. simpl p_count in *. rewrite L. destruct added; lia.
    + exact F'.
Qed.

Theorem head_zero_ok : head_zero_stmt.
Proof.
  intros MAX [total count chain] live [ND [R _]]. unfold p_head. simpl in *. destruct chain as [|t rest]; [tauto|].
  split; [|discriminate]. intro Z. exfalso.
  assert (I : In (t_page t) (live ++ free_pages (mkP total count (t :: rest)))).
  { apply in_or_app. right. unfold free_pages. simpl. left. reflexivity. }
  apply R in I. lia.
Qed.

(* ---------------------------------------------------------------- scripts *)
Definition good MAX (o : outcome) : Prop :=
  match o with Done st live => pages_wf MAX st live | Illegal => True | AllocErr | FreeErr => False end.

Lemma do_alloc_good : forall MAX st live, pages_wf MAX st live -> good MAX (do_alloc st live).
Proof.
  intros MAX st live W. unfold do_alloc. destruct (alloc_ok_ok MAX st live W) as [p [st' [A [_ W']]]]. rewrite A. exact W'.
Qed.
Lemma do_free_good : forall MAX p st live, pages_wf MAX st live -> good MAX (do_free MAX p st live).
Proof.
  intros MAX p st live W. unfold do_free. destruct (mem p live) eqn:M; [|exact I].
  apply mem_In in M. destruct (free_ok_ok MAX st live p W M) as [st' [Fr W']]. rewrite Fr. exact W'.
Qed.
Lemma do_alloc_n_good : forall MAX n st live, pages_wf MAX st live -> good MAX (do_alloc_n n st live).
Proof.
  induction n as [|n IH]; intros st live W; simpl; [exact W|].
  pose proof (do_alloc_good MAX st live W) as G. destruct (do_alloc st live); simpl in G; try exact G. apply IH. exact G.
Qed.
Lemma do_free_l_good : forall MAX l st live, pages_wf MAX st live -> good MAX (do_free_l MAX l st live).
Proof.
  induction l as [|p r IH]; intros st live W; simpl; [exact W|].
  pose proof (do_free_good MAX p st live W) as G. destruct (do_free MAX p st live); simpl in G; try exact G. apply IH. exact G.
Qed.
Lemma pstep_good : forall MAX o st live, pages_wf MAX st live -> good MAX (pstep MAX o st live).
Proof.
  intros MAX o st live W. destruct o; simpl;
    [apply do_alloc_good | apply do_free_good | apply do_alloc_n_good | apply do_free_l_good]; assumption.
Qed.

Theorem pages_partition_ok : pages_partition_stmt.
Proof.
  intros MAX ops. induction ops as [|o r IH]; intros st live W; simpl; [exact W|].
  pose proof (pstep_good MAX o st live W) as G. destruct (pstep MAX o st live); simpl in G; try exact G.
  apply IH. exact G.
Qed.

Theorem pages_partition_fresh_ok : pages_partition_fresh_stmt.
Proof.
  intros MAX ops st live H. pose proof (pages_partition_ok MAX ops p_init [1] (init_wf_ok MAX)) as G.
  rewrite H in G. destruct G as [ND [R [_ [C _]]]]. split; [assumption|]. split; [|assumption].
  intro p. split.
  - intro I. apply R in I. apply in_app_or. assumption.
  - intro I. apply R. apply in_or_app. assumption.
Qed.

(* ---------------------------------------------------------------- overflow chains *)
Theorem calc_overflow_ok_ok : calc_overflow_ok_stmt.
Proof.
  intros CAP MINL MAXL payload LE. unfold calc_overflow.
  destruct (payload <=? MAXL) eqn:E1.
  - apply N.leb_le in E1. split; [lia|]. split; [lia|]. split; [reflexivity | discriminate].
  - apply N.leb_gt in E1. destruct (MINL + (payload - MINL) mod CAP <=? MAXL) eqn:E2.
    + apply N.leb_le in E2.
      assert (ML : (payload - MINL) mod CAP <= payload - MINL).
      { destruct (N.eq_dec CAP 0) as [->|NZ]; [destruct (payload - MINL); cbv [N.modulo N.div_eucl snd]; lia | apply N.mod_le; assumption]. }
      split; [lia|]. split; [lia|]. split; [discriminate|]. intros _.
      set (x := (payload - MINL) mod CAP) in *. clearbody x. lia.
    + split; [lia|]. split; [lia|]. split; [discriminate|]. intros _. lia.
Qed.

Theorem ovf_pages_ok_ok : ovf_pages_ok_stmt.
Proof.
  intros CAP MINL MAXL payload CP LE. unfold ovf_pages.
  pose proof (calc_overflow_ok_ok CAP MINL MAXL payload LE) as H.
  destruct (calc_overflow CAP MINL MAXL payload) as [on_page ov]. destruct H as [H1 [H2 [H3 H4]]].
  destruct ov.
  - split; [discriminate|]. intros _. destruct (H4 eq_refl) as [LT _].
    set (rest := payload - on_page) in *. assert (RP : 1 <= rest) by (unfold rest; lia).
    replace (payload - on_page + CAP - 1) with (rest + CAP - 1) by reflexivity.
    pose proof (N.div_mod (rest + CAP - 1) CAP ltac:(lia)) as DM.
    pose proof (N.mod_lt (rest + CAP - 1) CAP ltac:(lia)) as ML.
    set (q := (rest + CAP - 1) / CAP) in *. set (m := (rest + CAP - 1) mod CAP) in *.
    assert (1 <= q). { destruct (N.eq_dec q 0) as [Z|]; [rewrite Z in DM; lia | lia]. }
    split; [assumption|]. split.
    + replace ((q - 1) * CAP) with (CAP * q - CAP) by nia. lia.
    + nia.
  - split; [reflexivity | discriminate].
Qed.
