(* Misc/OMap_proofs.v — proofs of the statements of OMapSpec.v *)
From Coq Require Import List Bool Sorting.Sorted Lia.
From SKV Require Import Misc.OMap Misc.OMapSpec.
Import ListNotations.

Section P.
Variables K V : Type.
Variable cmp : K -> K -> comparison.
Hypothesis PO : preorder cmp.

Lemma cmp_sym : forall a b, cmp b a = CompOpp (cmp a b).
Proof. exact (proj1 PO). Qed.
Lemma cmp_le_trans : forall a b c, cmp a b <> Gt -> cmp b c <> Gt -> cmp a c <> Gt.
Proof. exact (proj2 PO). Qed.

Lemma cmp_refl : forall a, cmp a a = Eq.
Proof. intro a. pose proof (cmp_sym a a) as H. destruct (cmp a a); simpl in H; congruence. Qed.

Lemma cmp_lt_gt : forall a b, cmp a b = Lt <-> cmp b a = Gt.
Proof. intros a b. rewrite (cmp_sym a b). destruct (cmp a b); simpl; split; congruence. Qed.
Lemma cmp_eq_sym : forall a b, cmp a b = Eq -> cmp b a = Eq.
Proof. intros a b H. rewrite (cmp_sym a b), H. reflexivity. Qed.

(* Equal keys are interchangeable on either side of a comparison *)
Lemma cmp_eq_l : forall a b c, cmp a b = Eq -> cmp a c = cmp b c.
Proof.
  intros a b c E.
  assert (Hab : cmp a b <> Gt) by congruence.
  assert (Hba : cmp b a <> Gt) by (rewrite (cmp_eq_sym _ _ E); congruence).
  pose proof (cmp_le_trans a b c Hab) as T1.
  pose proof (cmp_le_trans b a c Hba) as T2.
  pose proof (fun h => cmp_le_trans c a b h Hab) as T3.
  pose proof (fun h => cmp_le_trans c b a h Hba) as T4.
  rewrite (cmp_sym a c) in T3, T4. rewrite (cmp_sym b c) in T3, T4.
  destruct (cmp a c) eqn:E1; destruct (cmp b c) eqn:E2; simpl in *; try reflexivity; exfalso;
    try (apply T1; congruence); try (apply T2; congruence); try (apply T3; congruence); try (apply T4; congruence).
Qed.
Lemma cmp_eq_r : forall a b c, cmp a b = Eq -> cmp c a = cmp c b.
Proof. intros a b c E. rewrite (cmp_sym a c), (cmp_sym b c). f_equal. apply cmp_eq_l; assumption. Qed.

Lemma cmp_lt_trans : forall a b c, cmp a b = Lt -> cmp b c = Lt -> cmp a c = Lt.
Proof.
  intros a b c H1 H2.
  assert (L : cmp a c <> Gt) by (apply (cmp_le_trans a b c); congruence).
  destruct (cmp a c) eqn:E; try congruence.
  (* a ~ c: then cmp b c = cmp b a = Gt *)
  exfalso. rewrite <- (cmp_eq_r a c b E) in H2. apply cmp_lt_gt in H1. congruence.
Qed.
Lemma cmp_lt_le_trans : forall a b c, cmp a b = Lt -> cmp b c <> Gt -> cmp a c = Lt.
Proof.
  intros a b c H1 H2. destruct (cmp b c) eqn:E; try congruence.
  - rewrite <- (cmp_eq_r b c a E). assumption.
  - eapply cmp_lt_trans; eassumption.
Qed.
Lemma cmp_le_lt_trans : forall a b c, cmp a b <> Gt -> cmp b c = Lt -> cmp a c = Lt.
Proof.
  intros a b c H1 H2. destruct (cmp a b) eqn:E; try congruence.
  - rewrite (cmp_eq_l a b c E). assumption.
  - eapply cmp_lt_trans; eassumption.
Qed.

Notation omap := (omap K V).
Notation sorted := (om_sorted cmp (V:=V)).
Definition below (k : K) (m : omap) : Prop := Forall (fun kv => cmp k (fst kv) = Lt) m.

Lemma sorted_cons : forall k v (m : omap), sorted ((k, v) :: m) <-> below k m /\ sorted m.
Proof.
  intros. unfold om_sorted, below. split.
  - intro H. inversion H; subst. split; assumption.
  - intros [H1 H2]. constructor; assumption.
Qed.
Lemma sorted_nil : sorted [].
Proof. constructor. Qed.

Lemma below_trans : forall k k' (m : omap), cmp k k' <> Gt -> below k' m -> below k m.
Proof.
  intros k k' m H B. unfold below in *. rewrite Forall_forall in *. intros x Hx.
  apply (cmp_le_lt_trans k k' (fst x)); auto.
Qed.
Lemma below_eq : forall k k' (m : omap), cmp k k' = Eq -> below k' m -> below k m.
Proof. intros. eapply below_trans; eauto. congruence. Qed.

(* ---------------------------------------------------------------- sortedness (boolean) *)
Lemma sortedb_iff : forall m : omap, om_sortedb cmp m = true <-> sorted m.
Proof.
  induction m as [|[k v] r IH]; simpl.
  - split; intros; [apply sorted_nil | reflexivity].
  - destruct r as [|[k' v'] q].
    + split; intros; [|reflexivity]. apply sorted_cons. split; [constructor | apply sorted_nil].
    + destruct (cmp k k') eqn:E.
      * split; [discriminate|]. intro H. apply sorted_cons in H. destruct H as [B _]. inversion B; subst. simpl in *. congruence.
      * rewrite IH. split.
        -- intro S. apply sorted_cons. split; [|assumption].
           apply sorted_cons in S. destruct S as [B S'].
           constructor; [assumption|]. apply below_trans with k'; [congruence | assumption].
        -- intro S. apply sorted_cons in S. tauto.
      * split; [discriminate|]. intro H. apply sorted_cons in H. destruct H as [B _]. inversion B; subst. simpl in *. congruence.
Qed.

(* ---------------------------------------------------------------- get *)
Lemma get_below : forall k (m : omap), below k m -> om_get cmp k m = None.
Proof. intros k m B. destruct m as [|[k' v] r]; simpl; [reflexivity|]. inversion B; subst. simpl in *. rewrite H1. reflexivity. Qed.

Lemma get_in : forall (m : omap) k v, sorted m ->
  (om_get cmp k m = Some v <-> exists k0, In (k0, v) m /\ cmp k k0 = Eq).
Proof.
  induction m as [|[k' v'] r IH]; intros k v S; simpl.
  - split; [discriminate | intros [k0 [[] _]]].
  - apply sorted_cons in S. destruct S as [B S].
    destruct (cmp k k') eqn:E.
    + split.
      * intro H. inversion H; subst. exists k'. auto.
      * intros [k0 [[H|H] E0]].
        -- inversion H; subst. reflexivity.
        -- exfalso. unfold below in B. rewrite Forall_forall in B. specialize (B _ H). simpl in B.
           rewrite <- (cmp_eq_l k k' k0 E) in B. congruence.
    + split; [discriminate|]. intros [k0 [[H|H] E0]].
      * inversion H; subst. congruence.
      * exfalso. unfold below in B. rewrite Forall_forall in B. specialize (B _ H). simpl in B.
        pose proof (cmp_lt_trans k k' k0 E B). congruence.
    + rewrite (IH k v S). split.
      * intros [k0 [H E0]]. exists k0. auto.
      * intros [k0 [[H|H] E0]]; [inversion H; subst; congruence | exists k0; auto].
Qed.

(* ---------------------------------------------------------------- insert *)
Lemma insert_below : forall (m : omap) k v k0, cmp k0 k = Lt -> below k0 m -> below k0 (om_insert cmp k v m).
Proof.
  induction m as [|[k' v'] r IH]; intros k v k0 L B; simpl.
  - constructor; [assumption | constructor].
  - inversion B; subst. simpl in *. destruct (cmp k k').
    + constructor; assumption.
    + constructor; [assumption|]. constructor; assumption.
    + constructor; [assumption|]. apply IH; assumption.
Qed.

Lemma insert_sorted : forall (m : omap) k v, sorted m -> sorted (om_insert cmp k v m).
Proof.
  induction m as [|[k' v'] r IH]; intros k v S; simpl.
  - apply sorted_cons. split; [constructor | apply sorted_nil].
  - pose proof S as S0. apply sorted_cons in S. destruct S as [B S]. destruct (cmp k k') eqn:E.
    + apply sorted_cons. auto.
    + apply sorted_cons. split; [|assumption].
      constructor; [assumption|]. apply below_trans with k'; [congruence|assumption].
    + apply sorted_cons. split; [|apply IH; assumption].
      apply insert_below; [|assumption]. apply cmp_lt_gt. assumption.
Qed.

Lemma get_insert_same : forall (m : omap) k k' v, sorted m -> cmp k' k = Eq -> om_get cmp k' (om_insert cmp k v m) = Some v.
Proof.
  induction m as [|[k0 v0] r IH]; intros k k' v S E; simpl.
  - rewrite E. reflexivity.
  - apply sorted_cons in S. destruct S as [B S].
    rewrite <- (cmp_eq_l k' k k0 E). destruct (cmp k' k0) eqn:E0; simpl.
    + rewrite E0. reflexivity.
    + rewrite E. reflexivity.
    + rewrite E0. apply IH; assumption.
Qed.

Lemma get_insert_other : forall (m : omap) k k' v, sorted m -> cmp k' k <> Eq -> om_get cmp k' (om_insert cmp k v m) = om_get cmp k' m.
Proof.
  induction m as [|[k0 v0] r IH]; intros k k' v S N; simpl.
  - destruct (cmp k' k) eqn:E; congruence.
  - apply sorted_cons in S. destruct S as [B S].
    destruct (cmp k k0) eqn:E0; simpl.
    + reflexivity || (rewrite (cmp_eq_r k k0 k' E0) in N; destruct (cmp k' k0); congruence).
    + destruct (cmp k' k) eqn:E1; try congruence.
      (* k' < k < k0 *) rewrite (cmp_lt_trans k' k k0 E1 E0). reflexivity.
    + destruct (cmp k' k0) eqn:E1; try reflexivity. apply IH; assumption.
Qed.

Lemma insert_keeps_key : forall (m : omap) k k0 v0 v, sorted m -> In (k0, v0) m -> cmp k k0 = Eq -> In (k0, v) (om_insert cmp k v m).
Proof.
  induction m as [|[k1 v1] r IH]; intros k k0 v0 v S I E; simpl; [destruct I|].
  apply sorted_cons in S. destruct S as [B S]. destruct I as [I|I].
  - inversion I; subst. rewrite E. left. reflexivity.
  - unfold below in B. rewrite Forall_forall in B. pose proof (B _ I) as L. simpl in L.
    (* k1 < k0 ~ k  hence k > k1 *)
    assert (G : cmp k k1 = Gt).
    { apply cmp_lt_gt. rewrite (cmp_eq_r k k0 k1 E). assumption. }
    rewrite G. right. eapply IH; eassumption.
Qed.

Lemma insert_in : forall (m : omap) k v k1 v1, sorted m -> cmp k1 k <> Eq ->
  (In (k1, v1) (om_insert cmp k v m) <-> In (k1, v1) m).
Proof.
  induction m as [|[k0 v0] r IH]; intros k v k1 v1 S N; simpl.
  - split; [|tauto]. intros [H|[]]. inversion H; subst. rewrite cmp_refl in N. congruence.
  - apply sorted_cons in S. destruct S as [B S]. destruct (cmp k k0) eqn:E; simpl.
    + split; (intros [H|H]; [|right; assumption]); inversion H; subst; exfalso; apply N; apply cmp_eq_sym; assumption.
    + split; [|tauto]. intros [H|H]; [|assumption]. inversion H; subst. rewrite cmp_refl in N. congruence.
    + rewrite (IH k v k1 v1 S N). tauto.
Qed.

(* ---------------------------------------------------------------- delete *)
Lemma delete_below : forall (m : omap) k k0, below k0 m -> below k0 (om_delete cmp k m).
Proof.
  induction m as [|[k' v'] r IH]; intros k k0 B; simpl; [constructor|].
  inversion B; subst. destruct (cmp k k'); [assumption | assumption | constructor; [assumption | apply IH; assumption]].
Qed.
Lemma delete_sorted : forall (m : omap) k, sorted m -> sorted (om_delete cmp k m).
Proof.
  induction m as [|[k' v'] r IH]; intros k S; simpl; [apply sorted_nil|].
  pose proof S as S0. apply sorted_cons in S. destruct S as [B S]. destruct (cmp k k'); [assumption | assumption |].
  apply sorted_cons. split; [apply delete_below; assumption | apply IH; assumption].
Qed.

Lemma get_delete_same : forall (m : omap) k k', sorted m -> cmp k' k = Eq -> om_get cmp k' (om_delete cmp k m) = None.
Proof.
  induction m as [|[k0 v0] r IH]; intros k k' S E; simpl; [reflexivity|].
  apply sorted_cons in S. destruct S as [B S].
  rewrite <- (cmp_eq_l k' k k0 E). destruct (cmp k' k0) eqn:E0; simpl.
  - apply get_below. apply below_eq with k0; assumption.
  - rewrite E0. reflexivity.
  - rewrite E0. apply IH; assumption.
Qed.

Lemma get_delete_other : forall (m : omap) k k', sorted m -> cmp k' k <> Eq -> om_get cmp k' (om_delete cmp k m) = om_get cmp k' m.
Proof.
  induction m as [|[k0 v0] r IH]; intros k k' S N; simpl; [reflexivity|].
  apply sorted_cons in S. destruct S as [B S].
  destruct (cmp k k0) eqn:E0; simpl.
  - (* k ~ k0 removed; k' is not ~ k0 *)
    rewrite (cmp_eq_r k k0 k' E0) in N. destruct (cmp k' k0) eqn:E1; try congruence.
    apply get_below. apply below_trans with k0; [congruence | assumption].
  - reflexivity.
  - destruct (cmp k' k0); try reflexivity. apply IH; assumption.
Qed.

Lemma delete_in : forall (m : omap) k k1 v1, sorted m ->
  (In (k1, v1) (om_delete cmp k m) <-> In (k1, v1) m /\ cmp k1 k <> Eq).
Proof.
  induction m as [|[k0 v0] r IH]; intros k k1 v1 S; simpl; [tauto|].
  apply sorted_cons in S. destruct S as [B S].
  unfold below in B. rewrite Forall_forall in B.
  destruct (cmp k k0) eqn:E; simpl.
  - split.
    + intro H. split; [right; assumption|]. specialize (B _ H). simpl in B.
      rewrite (cmp_eq_r k k0 k1 E). apply cmp_lt_gt in B. congruence.
    + intros [[H|H] N]; [|assumption]. inversion H; subst. exfalso. apply N. apply cmp_eq_sym. assumption.
  - split; [|tauto]. intro H. split; [assumption|]. destruct H as [H|H].
    + inversion H; subst. apply cmp_lt_gt in E. congruence.
    + specialize (B _ H). simpl in B. pose proof (cmp_lt_trans k k0 k1 E B) as L. apply cmp_lt_gt in L. congruence.
  - rewrite (IH k k1 v1 S). split.
    + intros [H|[H N]]; [|tauto]. inversion H; subst. split; [left; reflexivity|]. apply cmp_lt_gt in E. congruence.
    + intros [[H|H] N]; [left; assumption | right; tauto].
Qed.

(* ---------------------------------------------------------------- programs of updates *)
Lemma apply_sorted_from : forall (ops : list (mop K V)) (m : omap), sorted m -> sorted (om_apply cmp ops m).
Proof.
  induction ops as [|o r IH]; intros m S; simpl; [assumption|].
  apply IH. destruct o; simpl; [apply insert_sorted | apply delete_sorted]; assumption.
Qed.

(* ---------------------------------------------------------------- scans *)
Lemma above_lo_mono : forall lo k k', above_lo cmp lo k = true -> cmp k k' = Lt -> above_lo cmp lo k' = true.
Proof.
  intros lo k k' A L. destruct lo as [|b|b]; simpl in *; [reflexivity| |].
  - destruct (cmp k b) eqn:E; try discriminate.
    + rewrite <- (cmp_eq_r k b k' E). apply cmp_lt_gt in L. rewrite L. reflexivity.
    + apply cmp_lt_gt in E. pose proof (cmp_lt_trans b k k' E L) as T. apply cmp_lt_gt in T. rewrite T. reflexivity.
  - destruct (cmp k b) eqn:E; try discriminate.
    apply cmp_lt_gt in E. pose proof (cmp_lt_trans b k k' E L) as T. apply cmp_lt_gt in T. rewrite T. reflexivity.
Qed.
Lemma below_hi_anti : forall hi k k', below_hi cmp hi k = false -> cmp k k' = Lt -> below_hi cmp hi k' = false.
Proof.
  intros hi k k' A L. destruct hi as [|b|b]; simpl in *; [discriminate| |].
  - destruct (cmp k b) eqn:E; try discriminate.
    apply cmp_lt_gt in E. pose proof (cmp_lt_trans b k k' E L) as T. apply cmp_lt_gt in T. rewrite T. reflexivity.
  - destruct (cmp k b) eqn:E; try discriminate.
    + rewrite <- (cmp_eq_r k b k' E). apply cmp_lt_gt in L. rewrite L. reflexivity.
    + apply cmp_lt_gt in E. pose proof (cmp_lt_trans b k k' E L) as T. apply cmp_lt_gt in T. rewrite T. reflexivity.
Qed.

Lemma filter_all_true : forall (f : K * V -> bool) (m : omap), Forall (fun x => f x = true) m -> filter f m = m.
Proof. induction m; intro H; simpl; [reflexivity|]. inversion H; subst. rewrite H2. f_equal. auto. Qed.
Lemma filter_all_false : forall (f : K * V -> bool) (m : omap), Forall (fun x => f x = false) m -> filter f m = [].
Proof. induction m; intro H; simpl; [reflexivity|]. inversion H; subst. rewrite H2. auto. Qed.

Lemma take_filter : forall hi (m : omap), sorted m -> om_take cmp hi m = filter (fun kv => below_hi cmp hi (fst kv)) m.
Proof.
  induction m as [|[k v] r IH]; intro S; simpl; [reflexivity|].
  apply sorted_cons in S. destruct S as [B S]. destruct (below_hi cmp hi k) eqn:E.
  - f_equal. apply IH. assumption.
  - symmetry. apply filter_all_false. unfold below in B. rewrite Forall_forall in *. intros x Hx.
    apply below_hi_anti with k; auto.
Qed.

Lemma skip_spec : forall lo (m : omap), sorted m ->
  om_skip cmp lo m = filter (fun kv => above_lo cmp lo (fst kv)) m /\ sorted (om_skip cmp lo m).
Proof.
  induction m as [|[k v] r IH]; intro S; simpl; [split; [reflexivity | apply sorted_nil]|].
  pose proof S as S0. apply sorted_cons in S. destruct S as [B S]. destruct (above_lo cmp lo k) eqn:E.
  - split; [|assumption]. f_equal. symmetry. apply filter_all_true.
    unfold below in B. rewrite Forall_forall in *. intros x Hx. apply above_lo_mono with k; auto.
  - apply IH. assumption.
Qed.

Lemma filter_filter : forall (f g : K * V -> bool) (m : omap), filter g (filter f m) = filter (fun x => f x && g x) m.
Proof. induction m as [|a r IH]; simpl; [reflexivity|]. destruct (f a); simpl; [destruct (g a); rewrite IH; reflexivity | assumption]. Qed.

Lemma range_filter : forall (m : omap) lo hi, sorted m -> om_range cmp lo hi m = om_range_spec cmp lo hi m.
Proof.
  intros m lo hi S. unfold om_range, om_range_spec.
  destruct (skip_spec lo m S) as [E S']. rewrite (take_filter hi _ S'), E. apply filter_filter.
Qed.

Lemma filter_sorted : forall (f : K * V -> bool) (m : omap), sorted m -> sorted (filter f m).
Proof.
  induction m as [|[k v] r IH]; intro S; simpl; [apply sorted_nil|].
  apply sorted_cons in S. destruct S as [B S]. destruct (f (k, v)); [|apply IH; assumption].
  apply sorted_cons. split; [|apply IH; assumption].
  unfold below in *. rewrite Forall_forall in *. intros x Hx. apply filter_In in Hx. apply B. tauto.
Qed.

Lemma range_sorted : forall (m : omap) lo hi, sorted m -> sorted (om_range cmp lo hi m).
Proof. intros. rewrite range_filter by assumption. apply filter_sorted. assumption. Qed.

Lemma seek_filter : forall (m : omap) k, sorted m ->
  om_seek cmp k m = filter (fun kv => match cmp (fst kv) k with Lt => false | _ => true end) m.
Proof. intros m k S. unfold om_seek. apply (proj1 (skip_spec (Incl k) m S)). Qed.

Lemma before_acc : forall (m : omap) k acc, sorted m ->
  om_before_acc cmp k m acc = rev (filter (fun kv => match cmp (fst kv) k with Lt => true | _ => false end) m) ++ acc.
Proof.
  induction m as [|[k' v] r IH]; intros k acc S; simpl; [reflexivity|].
  apply sorted_cons in S. destruct S as [B S].
  destruct (cmp k' k) eqn:E.
  - rewrite filter_all_false; [reflexivity|]. unfold below in B. rewrite Forall_forall in *. intros x Hx.
    specialize (B _ Hx). rewrite (cmp_eq_l k' k (fst x) E) in B. apply cmp_lt_gt in B. rewrite B. reflexivity.
  - rewrite IH by assumption. simpl. rewrite <- app_assoc. reflexivity.
  - rewrite filter_all_false; [reflexivity|]. unfold below in B. rewrite Forall_forall in *. intros x Hx.
    specialize (B _ Hx). apply cmp_lt_gt in E. pose proof (cmp_lt_trans k k' (fst x) E B) as T. apply cmp_lt_gt in T. rewrite T. reflexivity.
Qed.
Lemma before_filter : forall (m : omap) k, sorted m ->
  om_before cmp k m = rev (filter (fun kv => match cmp (fst kv) k with Lt => true | _ => false end) m).
Proof. intros. unfold om_before. rewrite before_acc by assumption. apply app_nil_r. Qed.

Lemma first_least : forall (m : omap) kv kv', sorted m -> om_first m = Some kv -> In kv' m -> cmp (fst kv) (fst kv') <> Gt.
Proof.
  intros m kv kv' S F I. destruct m as [|[k v] r]; simpl in F; [discriminate|]. inversion F; subst. simpl.
  apply sorted_cons in S. destruct S as [B _]. destruct I as [I|I].
  - subst. simpl. rewrite cmp_refl. congruence.
  - unfold below in B. rewrite Forall_forall in B. rewrite (B _ I). congruence.
Qed.

Lemma sorted_app_last : forall (m : omap) x, sorted (m ++ [x]) -> forall y, In y m -> cmp (fst y) (fst x) = Lt.
Proof.
  induction m as [|[k v] r IH]; intros x S y I; [destruct I|].
  simpl in S. apply sorted_cons in S. destruct S as [B S]. destruct I as [I|I].
  - subst. unfold below in B. rewrite Forall_forall in B. apply (B x). apply in_or_app. right. left. reflexivity.
  - apply IH; assumption.
Qed.
Lemma last_greatest : forall (m : omap) kv kv', sorted m -> om_last m = Some kv -> In kv' m -> cmp (fst kv') (fst kv) <> Gt.
Proof.
  intros m kv kv' S L I. unfold om_last in L.
  destruct (rev m) as [|x q] eqn:R; simpl in L; [discriminate|]. inversion L; subst.
  assert (M : m = rev q ++ [kv]) by (rewrite <- (rev_involutive m), R; reflexivity).
  subst m. apply in_app_or in I. destruct I as [I|[I|[]]].
  - rewrite (sorted_app_last _ _ S _ I). congruence.
  - subst. rewrite cmp_refl. congruence.
Qed.

End P.

(* ---------------------------------------------------------------- the statements of OMapSpec.v *)
Theorem sortedb_iff_ok : sortedb_iff_stmt. Proof. intros K V cmp PO m. apply sortedb_iff; assumption. Qed.
Theorem insert_sorted_ok : insert_sorted_stmt. Proof. intros K V cmp PO m k v. apply insert_sorted; assumption. Qed.
Theorem delete_sorted_ok : delete_sorted_stmt. Proof. intros K V cmp PO m k. apply delete_sorted; assumption. Qed.
Theorem apply_sorted_ok : apply_sorted_stmt. Proof. intros K V cmp PO ops. apply apply_sorted_from; [assumption | apply sorted_nil]. Qed.
Theorem get_insert_same_ok : get_insert_same_stmt. Proof. intros K V cmp PO m k k' v. apply get_insert_same; assumption. Qed.
Theorem get_insert_other_ok : get_insert_other_stmt. Proof. intros K V cmp PO m k k' v. apply get_insert_other; assumption. Qed.
Theorem get_delete_same_ok : get_delete_same_stmt. Proof. intros K V cmp PO m k k'. apply get_delete_same; assumption. Qed.
Theorem get_delete_other_ok : get_delete_other_stmt. Proof. intros K V cmp PO m k k'. apply get_delete_other; assumption. Qed.
Theorem get_empty_ok : get_empty_stmt. Proof. intros K V cmp k. reflexivity. Qed.
Theorem get_in_ok : get_in_stmt. Proof. intros K V cmp PO m k v. apply get_in; assumption. Qed.
Theorem insert_keeps_key_ok : insert_keeps_key_stmt. Proof. intros K V cmp PO m k k0 v0 v. apply insert_keeps_key; assumption. Qed.
Theorem insert_in_ok : insert_in_stmt. Proof. intros K V cmp PO m k v k1 v1. apply insert_in; assumption. Qed.
Theorem delete_in_ok : delete_in_stmt. Proof. intros K V cmp PO m k k1 v1. apply delete_in; assumption. Qed.
Theorem range_filter_ok : range_filter_stmt. Proof. intros K V cmp PO m lo hi. apply range_filter; assumption. Qed.
Theorem range_sorted_ok : range_sorted_stmt. Proof. intros K V cmp PO m lo hi. apply range_sorted; assumption. Qed.
Theorem seek_filter_ok : seek_filter_stmt. Proof. intros K V cmp PO m k. apply seek_filter; assumption. Qed.
Theorem before_filter_ok : before_filter_stmt. Proof. intros K V cmp PO m k. apply before_filter; assumption. Qed.
Theorem first_least_ok : first_least_stmt. Proof. intros K V cmp PO m kv kv'. apply first_least; assumption. Qed.
Theorem last_greatest_ok : last_greatest_stmt. Proof. intros K V cmp PO m kv kv'. apply last_greatest; assumption. Qed.

Theorem map_laws_ok : map_laws_stmt.
Proof.
  intros K cmp PO V.
  split; [apply (apply_sorted_ok K V cmp PO)|].
  split; [apply (insert_sorted_ok K V cmp PO)|].
  split; [apply (delete_sorted_ok K V cmp PO)|].
  split; [apply (get_insert_same_ok K V cmp PO)|].
  split; [apply (get_insert_other_ok K V cmp PO)|].
  split; [apply (get_delete_same_ok K V cmp PO)|].
  split; [apply (get_delete_other_ok K V cmp PO)|].
  split; [apply (get_in_ok K V cmp PO)|].
  split; [apply (range_filter_ok K V cmp PO)|].
  intros m k S. split; [apply (seek_filter_ok K V cmp PO) | apply (before_filter_ok K V cmp PO)]; assumption.
Qed.
