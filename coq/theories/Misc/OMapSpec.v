(* Misc/OMapSpec.v — statements about the ordered map of Misc/OMap.v (proofs in OMap_proofs.v).
   Every statement is for an arbitrary key type, value type and comparison function satisfying
   `preorder`; Misc/BptKey_proofs.v discharges `preorder` for the two orders the B+tree is used with. *)
From Coq Require Import List Bool Sorting.Sorted.
From SKV Require Import Misc.OMap.
Import ListNotations.

(* total preorder given by a three-way comparison: swapping the arguments mirrors the answer, and
   "not greater" is transitive.  (Reflexivity and all mixed transitivities follow.) *)
Definition preorder {K} (cmp : K -> K -> comparison) : Prop :=
  (forall a b, cmp b a = CompOpp (cmp a b)) /\
  (forall a b c, cmp a b <> Gt -> cmp b c <> Gt -> cmp a c <> Gt).

(* keys strictly ascending: every entry is below all later entries (hence no two stored keys compare Equal) *)
Definition om_sorted {K V} (cmp : K -> K -> comparison) (m : omap K V) : Prop :=
  StronglySorted (fun a b => cmp (fst a) (fst b) = Lt) m.

Definition sortedb_iff_stmt : Prop := forall K V (cmp : K -> K -> comparison), preorder cmp ->
  forall m : omap K V, om_sortedb cmp m = true <-> om_sorted cmp m.

(* --- the invariant is kept --- *)
Definition insert_sorted_stmt : Prop := forall K V (cmp : K -> K -> comparison), preorder cmp ->
  forall (m : omap K V) k v, om_sorted cmp m -> om_sorted cmp (om_insert cmp k v m).
Definition delete_sorted_stmt : Prop := forall K V (cmp : K -> K -> comparison), preorder cmp ->
  forall (m : omap K V) k, om_sorted cmp m -> om_sorted cmp (om_delete cmp k m).
Definition apply_sorted_stmt : Prop := forall K V (cmp : K -> K -> comparison), preorder cmp ->
  forall (ops : list (mop K V)), om_sorted cmp (om_apply cmp ops []).

(* --- map laws --- *)
Definition get_insert_same_stmt : Prop := forall K V (cmp : K -> K -> comparison), preorder cmp ->
  forall (m : omap K V) k k' v, om_sorted cmp m -> cmp k' k = Eq -> om_get cmp k' (om_insert cmp k v m) = Some v.
Definition get_insert_other_stmt : Prop := forall K V (cmp : K -> K -> comparison), preorder cmp ->
  forall (m : omap K V) k k' v, om_sorted cmp m -> cmp k' k <> Eq -> om_get cmp k' (om_insert cmp k v m) = om_get cmp k' m.
Definition get_delete_same_stmt : Prop := forall K V (cmp : K -> K -> comparison), preorder cmp ->
  forall (m : omap K V) k k', om_sorted cmp m -> cmp k' k = Eq -> om_get cmp k' (om_delete cmp k m) = None.
Definition get_delete_other_stmt : Prop := forall K V (cmp : K -> K -> comparison), preorder cmp ->
  forall (m : omap K V) k k', om_sorted cmp m -> cmp k' k <> Eq -> om_get cmp k' (om_delete cmp k m) = om_get cmp k' m.
Definition get_empty_stmt : Prop := forall K V (cmp : K -> K -> comparison) k, om_get cmp k ([] : omap K V) = None.

(* get finds exactly the entry whose stored key compares Equal *)
Definition get_in_stmt : Prop := forall K V (cmp : K -> K -> comparison), preorder cmp ->
  forall (m : omap K V) k v, om_sorted cmp m ->
    (om_get cmp k m = Some v <-> exists k0, In (k0, v) m /\ cmp k k0 = Eq).
(* overwriting through a key that compares Equal keeps the stored key bytes *)
Definition insert_keeps_key_stmt : Prop := forall K V (cmp : K -> K -> comparison), preorder cmp ->
  forall (m : omap K V) k k0 v0 v, om_sorted cmp m -> In (k0, v0) m -> cmp k k0 = Eq -> In (k0, v) (om_insert cmp k v m).
(* the entries of the map after an insert / a delete *)
Definition insert_in_stmt : Prop := forall K V (cmp : K -> K -> comparison), preorder cmp ->
  forall (m : omap K V) k v k1 v1, om_sorted cmp m -> cmp k1 k <> Eq ->
    (In (k1, v1) (om_insert cmp k v m) <-> In (k1, v1) m).
Definition delete_in_stmt : Prop := forall K V (cmp : K -> K -> comparison), preorder cmp ->
  forall (m : omap K V) k k1 v1, om_sorted cmp m ->
    (In (k1, v1) (om_delete cmp k m) <-> In (k1, v1) m /\ cmp k1 k <> Eq).

(* --- scans --- *)
Definition range_filter_stmt : Prop := forall K V (cmp : K -> K -> comparison), preorder cmp ->
  forall (m : omap K V) lo hi, om_sorted cmp m -> om_range cmp lo hi m = om_range_spec cmp lo hi m.
Definition range_sorted_stmt : Prop := forall K V (cmp : K -> K -> comparison), preorder cmp ->
  forall (m : omap K V) lo hi, om_sorted cmp m -> om_sorted cmp (om_range cmp lo hi m).
Definition seek_filter_stmt : Prop := forall K V (cmp : K -> K -> comparison), preorder cmp ->
  forall (m : omap K V) k, om_sorted cmp m ->
    om_seek cmp k m = filter (fun kv => match cmp (fst kv) k with Lt => false | _ => true end) m.
Definition before_filter_stmt : Prop := forall K V (cmp : K -> K -> comparison), preorder cmp ->
  forall (m : omap K V) k, om_sorted cmp m ->
    om_before cmp k m = rev (filter (fun kv => match cmp (fst kv) k with Lt => true | _ => false end) m).
Definition first_least_stmt : Prop := forall K V (cmp : K -> K -> comparison), preorder cmp ->
  forall (m : omap K V) kv kv', om_sorted cmp m -> om_first m = Some kv -> In kv' m -> cmp (fst kv) (fst kv') <> Gt.
Definition last_greatest_stmt : Prop := forall K V (cmp : K -> K -> comparison), preorder cmp ->
  forall (m : omap K V) kv kv', om_sorted cmp m -> om_last m = Some kv -> In kv' m -> cmp (fst kv') (fst kv) <> Gt.

(* all of the above for one key type and order, any value type *)
Definition map_laws {K} (cmp : K -> K -> comparison) : Prop := forall V : Type,
  (forall (ops : list (mop K V)), om_sorted cmp (om_apply cmp ops []))
  /\ (forall (m : omap K V) k v, om_sorted cmp m -> om_sorted cmp (om_insert cmp k v m))
  /\ (forall (m : omap K V) k, om_sorted cmp m -> om_sorted cmp (om_delete cmp k m))
  /\ (forall (m : omap K V) k k' v, om_sorted cmp m -> cmp k' k = Eq -> om_get cmp k' (om_insert cmp k v m) = Some v)
  /\ (forall (m : omap K V) k k' v, om_sorted cmp m -> cmp k' k <> Eq -> om_get cmp k' (om_insert cmp k v m) = om_get cmp k' m)
  /\ (forall (m : omap K V) k k', om_sorted cmp m -> cmp k' k = Eq -> om_get cmp k' (om_delete cmp k m) = None)
  /\ (forall (m : omap K V) k k', om_sorted cmp m -> cmp k' k <> Eq -> om_get cmp k' (om_delete cmp k m) = om_get cmp k' m)
  /\ (forall (m : omap K V) k v, om_sorted cmp m -> (om_get cmp k m = Some v <-> exists k0, In (k0, v) m /\ cmp k k0 = Eq))
  /\ (forall (m : omap K V) lo hi, om_sorted cmp m -> om_range cmp lo hi m = om_range_spec cmp lo hi m)
  /\ (forall (m : omap K V) k, om_sorted cmp m ->
        om_seek cmp k m = filter (fun kv => match cmp (fst kv) k with Lt => false | _ => true end) m
        /\ om_before cmp k m = rev (filter (fun kv => match cmp (fst kv) k with Lt => true | _ => false end) m)).
Definition map_laws_stmt : Prop := forall K (cmp : K -> K -> comparison), preorder cmp -> map_laws cmp.
