(* Misc/BptKey.v — the two key orders the B+tree is used with, and the quirks of its range entry point.

   bytewise order  = Base/Lex.lex_cmp                      (BytewiseComparator::compare = <[u8]>::cmp)
   timestamp order = ts_cmp below                          (TimestampComparator::compare =
        InternalKey::decode on both sides, then cmp_by_timestamp: user key ascending, then the
        timestamp DEscending; the 8 trailer bytes (seq_num << 8 | kind) are NOT compared)
   An encoded key is  user_key ++ trailer(8, big endian) ++ timestamp(8, big endian); decode takes
   n = len - 16.  The Rust code is undefined for keys shorter than 16 bytes (usize underflow followed
   by an unchecked read); the model uses truncated subtraction there and the differential only uses
   keys of length >= 16 under this order. *)
From Coq Require Import List NArith Bool.
From SKV Require Import Base.Lex Misc.OMap.
Import ListNotations.
Local Open Scope N_scope.

(* big-endian value of a byte string (read_u64_be on 8 bytes) *)
Definition be_val (l : bytes) : N := fold_left (fun acc b => acc * 256 + b) l 0.

Definition ikey_user (k : bytes) : bytes := firstn (length k - 16)%nat k.
Definition ikey_ts (k : bytes) : N := be_val (skipn (length k - 16 + 8)%nat k).

Definition ts_cmp (a b : bytes) : comparison :=
  match lex_cmp (ikey_user a) (ikey_user b) with
  | Eq => N.compare (ikey_ts b) (ikey_ts a)
  | c => c
  end.

(* RangeScanIterator::new (repaired, fix 83ce498): an EMPTY start key means "start from the beginning" for an
   Included bound (nothing sorts below the empty key) — the descent and the leaf index skip the comparator;
   for an Excluded bound the leading entries stored under the empty key are skipped. *)
Definition bpt_lo (lo : bound bytes) : bound bytes :=
  match lo with
  | Incl [] => Unb
  | b => b
  end.
Definition bpt_range {V} (cmp : bytes -> bytes -> comparison) (lo hi : bound bytes) (m : omap bytes V) : omap bytes V :=
  om_range cmp (bpt_lo lo) hi m.

(* the inputs on which the quirk is observable (classifier of the recorded finding) *)
Definition bpt_range_known {V} (lo : bound bytes) (m : omap bytes V) : bool :=
  match lo with
  | Excl [] => match m with ([], _) :: _ => true | _ => false end
  | _ => false
  end.
