(* Misc/BptKeySpec.v — statements about the two key orders and the range entry point (proofs in BptKey_proofs.v) *)
From Coq Require Import List NArith Bool.
From SKV Require Import Base.Lex Misc.OMap Misc.OMapSpec Misc.BptKey.
Import ListNotations.

(* both orders satisfy the hypotheses of the map laws; the bytewise one is moreover antisymmetric *)
Definition lex_preorder_stmt : Prop := preorder lex_cmp.
Definition lex_antisym_stmt : Prop := forall a b, lex_cmp a b = Eq -> a = b.
Definition ts_preorder_stmt : Prop := preorder ts_cmp.
(* what the timestamp order looks at: equal user keys and equal timestamps compare Equal whatever the trailer *)
Definition ts_ignores_trailer_stmt : Prop := forall u t1 t2 ts,
  length t1 = 8%nat -> length t2 = 8%nat -> length ts = 8%nat -> ts_cmp (u ++ t1 ++ ts) (u ++ t2 ++ ts) = Eq.

(* the range entry point returns what an ordered map returns, except on the listed class of inputs *)
Definition bpt_range_statement : Prop := forall V (m : omap bytes V) lo hi,
  om_sorted lex_cmp m -> bpt_range lex_cmp lo hi m = om_range_spec lex_cmp lo hi m.
(* regression record of finding F30 (before fix 83ce498 an excluded empty start key was treated as unbounded):
   with that reading the statement fails on a map that holds the empty key *)
Definition bpt_range_old_refuted_stmt : Prop := exists (m : omap bytes N) hi,
  om_sorted lex_cmp m /\ om_range lex_cmp Unb hi m <> om_range_spec lex_cmp (Excl []) hi m.
(* under the timestamp order every key has at least 16 bytes, so the entry point and the map agree whenever the start key is not empty *)
Definition bpt_range_nonempty_start_stmt : Prop := forall V cmp (m : omap bytes V) lo hi,
  preorder cmp -> om_sorted cmp m -> lo <> Incl [] -> bpt_range cmp lo hi m = om_range_spec cmp lo hi m.
