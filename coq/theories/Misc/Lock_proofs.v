(* Misc/Lock_proofs.v — proofs of the statements of LockSpec.v (and refutations with concrete
   witnesses) for the variants of Misc/Lock.v.  Invariants by induction over arbitrary operation
   sequences.  The invariant (and every theorem that needs it) is for the variants whose restore leaves the
   name LOCK alone (restore_keeps_lock_name v = true): then the kernel's per-inode lock table holds at most one
   lock, on the inode called LOCK (st_flock s = tbl (st_fs s) (lock_owner s)).  For the other variants mutual
   exclusion is refuted by a closed witness at the end of the file. *)
From Coq Require Import List Bool Arith Lia.
From SKV Require Import Misc.Lock Misc.LockSpec.
Import ListNotations.

(* ------------------------------------------------------------------ basics *)
Lemma upd_eq : forall m o x, upd m o x o = x.
Proof. intros. unfold upd. now rewrite Nat.eqb_refl. Qed.
Lemma upd_neq : forall m o x y, y <> o -> upd m o x y = m y.
Proof. intros. unfold upd. destruct (Nat.eqb_spec y o); [contradiction | reflexivity]. Qed.

Lemma run_app : forall v a b s, run v (a ++ b) s = run v b (run v a s).
Proof. intros. unfold run. apply fold_left_app. Qed.
Lemma run_snoc : forall v a x s, run v (a ++ [x]) s = apply_op v (run v a s) x.
Proof. intros. rewrite run_app. reflexivity. Qed.
Lemma run_cons : forall v x a s, run v (x :: a) s = run v a (apply_op v s x).
Proof. reflexivity. Qed.
Lemma run_nil : forall v s, run v [] s = s.
Proof. reflexivity. Qed.

Lemma holds_true : forall h o, holds h o = true <-> h = Some o.
Proof.
  intros [x|] o; cbn [holds]; split; intro H; try discriminate.
  - apply Nat.eqb_eq in H. now subst.
  - inversion H. apply Nat.eqb_refl.
Qed.

(* the lock table with at most one lock, on the inode called LOCK *)
Definition tbl (f : fs) (h : option oid) : ltable :=
  match h with Some o => [(f_lock_ino f, o)] | None => [] end.
Lemma unlock_tbl_self : forall f o, unlock (tbl f (Some o)) o = [].
Proof. intros. cbn [tbl unlock filter snd]. now rewrite Nat.eqb_refl. Qed.
Lemma lock_owner_mk : forall m f l h, (forall y, h = Some y -> f_lock f <> LAbsent) ->
  lock_owner (mk m (tbl f h) f l) = h.
Proof.
  intros m f l h Hn. unfold lock_owner. cbn [mk st_fs st_flock].
  destruct h as [y|]; cbn [tbl lk_find].
  - specialize (Hn y eq_refl). rewrite Nat.eqb_refl. destruct (f_lock f); [contradiction | reflexivity | reflexivity].
  - now destruct (f_lock f).
Qed.
Lemma lock_owner_named : forall s h, lock_owner s = Some h -> f_lock (st_fs s) <> LAbsent.
Proof. intros s h H E. unfold lock_owner in H. rewrite E in H. discriminate. Qed.
Lemma lock_owner_find : forall s, f_lock (st_fs s) <> LAbsent -> lock_owner s = lk_find (st_flock s) (f_lock_ino (st_fs s)).
Proof. intros s H. unfold lock_owner. destruct (f_lock (st_fs s)); [contradiction | reflexivity | reflexivity]. Qed.

Lemma set_lock_same : forall f, set_lock f (f_lock f) = f.
Proof. now destruct f. Qed.
Lemma mk_base_same : forall f, f_base f = true -> mk_base f = f.
Proof. destruct f; cbn; intros; now subst. Qed.
Lemma mk_sub_same : forall f o, f_std f = true -> (op_vlog o = true -> f_vlog f = true) -> (op_ver o = true -> f_ver f = true) ->
  mk_sub f o = f.
Proof.
  destruct f as [b sd vl vr lk li nx d]; cbn; intros o H1 H2 H3; subst. unfold mk_sub; cbn. f_equal.
  - destruct (op_vlog o); [rewrite H2 by reflexivity|]; now rewrite ?orb_true_r, ?orb_false_r.
  - destruct (op_ver o); [rewrite H3 by reflexivity|]; now rewrite ?orb_true_r, ?orb_false_r.
Qed.
Lemma dirs_eqb_refl : forall f, dirs_eqb f f = true.
Proof. intros. unfold dirs_eqb. now rewrite !eqb_reflx. Qed.
Lemma lcontent_eqb_refl : forall c, lcontent_eqb c c = true.
Proof. destruct c; cbn; auto. apply Nat.eqb_refl. Qed.

(* LOCK as seen through the name, after the file operations of the model *)
Lemma open_lock_named : forall v f, f_lock f <> LAbsent -> open_lock v f = set_lock f (lock_after_open v (f_lock f)).
Proof. intros v f H. unfold open_lock. destruct (f_lock f); [contradiction | reflexivity | reflexivity]. Qed.
Lemma f_lock_open_lock : forall v f, f_lock (open_lock v f) = lock_after_open v (f_lock f).
Proof. intros v f. unfold open_lock. destruct (f_lock f); reflexivity. Qed.
Lemma open_lock_present : forall v f, f_lock (open_lock v f) <> LAbsent.
Proof.
  intros v f. rewrite f_lock_open_lock. unfold lock_after_open.
  destruct (f_lock f); try discriminate; destruct (trunc_on_open v); discriminate.
Qed.
Lemma open_lock_dirs : forall v f,
  f_base (open_lock v f) = f_base f /\ f_std (open_lock v f) = f_std f /\ f_vlog (open_lock v f) = f_vlog f /\
  f_ver (open_lock v f) = f_ver f /\ f_data (open_lock v f) = f_data f.
Proof. intros v f. unfold open_lock. destruct (f_lock f); cbn; auto. Qed.
Lemma open_lock_ino : forall v f, f_lock f <> LAbsent -> f_lock_ino (open_lock v f) = f_lock_ino f.
Proof. intros v f H. now rewrite open_lock_named. Qed.
Lemma wr_lock_named : forall f c, f_lock f <> LAbsent -> wr_lock f (f_lock_ino f) c = set_lock f c.
Proof. intros f c H. unfold wr_lock. rewrite Nat.eqb_refl. destruct (f_lock f); [contradiction | reflexivity | reflexivity]. Qed.

Lemma wr_lock_set : forall f c1 c2, c1 <> LAbsent -> wr_lock (set_lock f c1) (f_lock_ino f) c2 = set_lock (set_lock f c1) c2.
Proof. intros f c1 c2 H. unfold wr_lock. cbn [set_lock f_lock f_lock_ino]. rewrite Nat.eqb_refl. destruct c1; [contradiction | reflexivity | reflexivity]. Qed.

(* ------------------------------------------------------------------ invariants *)
Definition past_validated (p : pc) : bool := match p with PStart | PValidated => false | _ => true end.
Definition past_dirs (p : pc) : bool := match p with PStart | PValidated | PDirs => false | _ => true end.

Record Inv (v : variant) (s : state) : Prop := {
  (* the kernel holds at most one lock, on the inode called LOCK *)
  inv_tbl : st_flock s = tbl (st_fs s) (lock_owner s);
  (* an opener between lock and release is the owner of that lock *)
  inv_crit : forall o r, st_op s o = Some r -> critical (o_pc r) = true -> lock_owner s = Some o;
  (* the owner is an existing opener between lock and release *)
  inv_owner : forall h, lock_owner s = Some h -> exists r, st_op s h = Some r /\ critical (o_pc r) = true;
  (* the ghost log brackets agree with the lock table *)
  inv_scan : scan (st_log s) = Some (lock_owner s);
  inv_quiet_track : forall a, fold_left quiet_ev (st_log s) (Some None) = Some a -> a = lock_owner s;
  (* what an opener has created stays *)
  inv_base : forall o r, st_op s o = Some r -> past_validated (o_pc r) = true -> f_base (st_fs s) = true;
  inv_lockfile : forall o r, st_op s o = Some r -> past_dirs (o_pc r) = true -> f_lock (st_fs s) <> LAbsent;
  (* ... and the inode an opener opened is the one the name LOCK denotes *)
  inv_ino : forall o r, st_op s o = Some r -> past_dirs (o_pc r) = true -> o_ino r = f_lock_ino (st_fs s);
  inv_sub : forall o r, st_op s o = Some r -> past_validated (o_pc r) = true -> subdirs_before_lock v = true ->
            f_std (st_fs s) = true /\ (op_vlog (o_opts r) = true -> f_vlog (st_fs s) = true)
            /\ (op_ver (o_opts r) = true -> f_ver (st_fs s) = true)
}.

Lemma inv_s0 : forall v, Inv v s0.
Proof.
  intro v. constructor; cbn; try (intros; discriminate); auto.
  intros a Q. now inversion Q.
Qed.

Lemma critical_past_dirs : forall p, critical p = true -> past_dirs p = true.
Proof. destruct p; cbn; auto. Qed.
Lemma past_dirs_validated : forall p, past_dirs p = true -> past_validated p = true.
Proof. destruct p; cbn; auto. Qed.

Lemma scan_snoc : forall l e, scan (l ++ [e]) = scan_ev (scan l) e.
Proof. intros. unfold scan. now rewrite fold_left_app. Qed.
Lemma scan_app2 : forall l e1 e2, scan (l ++ [e1; e2]) = scan_ev (scan_ev (scan l) e1) e2.
Proof. intros. unfold scan. now rewrite fold_left_app. Qed.
Lemma quiet_snoc : forall l e a, fold_left quiet_ev (l ++ [e]) a = quiet_ev (fold_left quiet_ev l a) e.
Proof. intros. now rewrite fold_left_app. Qed.
Lemma quiet_app2 : forall l e1 e2 a, fold_left quiet_ev (l ++ [e1; e2]) a = quiet_ev (quiet_ev (fold_left quiet_ev l a) e1) e2.
Proof. intros. now rewrite fold_left_app. Qed.

Ltac inv_eq :=
  repeat match goal with
  | H : Some _ = Some _ |- _ => inversion H; clear H; subst
  | H : Some _ = None |- _ => discriminate H
  | H : None = Some _ |- _ => discriminate H
  end.

(* lookup in an updated map, by cases *)
Ltac look o1 o :=
  destruct (Nat.eq_dec o1 o) as [?E|?E];
  [subst o1; rewrite ?upd_eq in * | rewrite ?(upd_neq _ _ _ _ E) in * by assumption].

(* consequences of the invariant on the concrete lock table *)
Lemma inv_free : forall v s, Inv v s -> lock_owner s = None -> st_flock s = [].
Proof. intros v s I F. rewrite (inv_tbl v s I), F. reflexivity. Qed.
Lemma inv_held : forall v s o, Inv v s -> lock_owner s = Some o ->
  st_flock s = [(f_lock_ino (st_fs s), o)] /\ f_lock (st_fs s) <> LAbsent.
Proof. intros v s o I F. split; [rewrite (inv_tbl v s I), F; reflexivity | eapply lock_owner_named; eauto]. Qed.
(* an opener that has opened LOCK looks its own inode up: it finds the owner *)
Lemma inv_find : forall v s o r, Inv v s -> st_op s o = Some r -> past_dirs (o_pc r) = true ->
  lk_find (st_flock s) (o_ino r) = lock_owner s.
Proof.
  intros v s o r I H P. rewrite (inv_ino v s I o r H P). symmetry. apply lock_owner_find.
  eapply (inv_lockfile v s I); eauto.
Qed.
(* the table stays of the one-lock form when the named inode stays *)
Lemma tbl_keep : forall v s f', Inv v s ->
  (f_lock (st_fs s) <> LAbsent -> f_lock_ino f' = f_lock_ino (st_fs s)) ->
  st_flock s = tbl f' (lock_owner s).
Proof.
  intros v s f' I Mi. rewrite (inv_tbl v s I) at 1. destruct (lock_owner s) as [h|] eqn:F; [|reflexivity].
  cbn [tbl]. rewrite Mi; [reflexivity | eapply lock_owner_named; eauto].
Qed.

Section Step.
Variable v : variant.
(* the restore of this variant leaves the name LOCK alone *)
Hypothesis KEEP : restore_keeps_lock_name v = true.

(* the generic shape of a transition: opener o gets record x (or disappears), the lock table
   becomes T — again of the one-lock form, with owner h' —, the fs f', the log grows by evs *)
Lemma inv_upd : forall s o (x : option opener) T h' f' evs,
  Inv v s ->
  T = tbl f' h' ->
  (forall y, h' = Some y -> f_lock f' <> LAbsent) ->
  (* lock table vs the changed opener *)
  (match x with Some r' => critical (o_pc r') = true -> h' = Some o | None => True end) ->
  (forall o1, o1 <> o -> lock_owner s = Some o1 -> h' = Some o1) ->
  (forall hh, h' = Some hh -> (hh = o /\ exists r', x = Some r' /\ critical (o_pc r') = true) \/ (hh <> o /\ lock_owner s = Some hh)) ->
  scan (st_log s ++ evs) = Some h' ->
  (forall a, fold_left quiet_ev (st_log s ++ evs) (Some None) = Some a -> a = h') ->
  (* fs monotone; the named inode stays *)
  (f_base (st_fs s) = true -> f_base f' = true) ->
  (f_lock (st_fs s) <> LAbsent -> f_lock f' <> LAbsent /\ f_lock_ino f' = f_lock_ino (st_fs s)) ->
  (f_std (st_fs s) = true -> f_std f' = true) ->
  (f_vlog (st_fs s) = true -> f_vlog f' = true) ->
  (f_ver (st_fs s) = true -> f_ver f' = true) ->
  (match x with
   | Some r' => (past_validated (o_pc r') = true -> f_base f' = true) /\
                (past_dirs (o_pc r') = true -> f_lock f' <> LAbsent /\ o_ino r' = f_lock_ino f') /\
                (past_validated (o_pc r') = true -> subdirs_before_lock v = true ->
                   f_std f' = true /\ (op_vlog (o_opts r') = true -> f_vlog f' = true) /\ (op_ver (o_opts r') = true -> f_ver f' = true))
   | None => True end) ->
  Inv v (mk (upd (st_op s) o x) T f' (st_log s ++ evs)).
Proof.
  intros s o x T h' f' evs I HT Hn Hx Hoth Hown Hscan Hq Mb Ml Ms Mv Mr Hnew.
  subst T.
  assert (LO : lock_owner (mk (upd (st_op s) o x) (tbl f' h') f' (st_log s ++ evs)) = h') by (now apply lock_owner_mk).
  destruct I as [It Ic Io Is Iq Ib Il Ii Isub].
  constructor; rewrite ?LO; cbn [mk st_op st_flock st_fs st_log].
  - reflexivity.
  - intros o1 r1 H1 C1. look o1 o.
    + subst x. now apply Hx.
    + apply Hoth; auto. eapply Ic; eauto.
  - intros hh Hh. destruct (Hown hh Hh) as [[-> [r' [-> C]]] | [Ne Hf]].
    + exists r'. rewrite upd_eq. auto.
    + destruct (Io hh Hf) as [r [A B]]. exists r. rewrite upd_neq by auto. auto.
  - exact Hscan.
  - exact Hq.
  - intros o1 r1 H1 P1. look o1 o.
    + subst x. now apply Hnew.
    + apply Mb. eapply Ib; eauto.
  - intros o1 r1 H1 P1. look o1 o.
    + subst x. now apply Hnew.
    + apply Ml. eapply Il; eauto.
  - intros o1 r1 H1 P1. look o1 o.
    + subst x. now apply Hnew.
    + rewrite (Ii o1 r1 H1 P1). symmetry. apply Ml. eapply Il; eauto.
  - intros o1 r1 H1 P1 SB. look o1 o.
    + subst x. now apply Hnew.
    + destruct (Isub o1 r1 H1 P1 SB) as [A [B C]]. repeat split; auto.
Qed.

(* the lock table and its owner do not change *)
Lemma inv_upd_same : forall s o (x : option opener) f' evs,
  Inv v s ->
  (match x with Some r' => critical (o_pc r') = true -> lock_owner s = Some o | None => True end) ->
  (forall hh, lock_owner s = Some hh -> (hh = o /\ exists r', x = Some r' /\ critical (o_pc r') = true) \/ hh <> o) ->
  scan (st_log s ++ evs) = Some (lock_owner s) ->
  (forall a, fold_left quiet_ev (st_log s ++ evs) (Some None) = Some a -> a = lock_owner s) ->
  (f_base (st_fs s) = true -> f_base f' = true) ->
  (f_lock (st_fs s) <> LAbsent -> f_lock f' <> LAbsent /\ f_lock_ino f' = f_lock_ino (st_fs s)) ->
  (f_std (st_fs s) = true -> f_std f' = true) ->
  (f_vlog (st_fs s) = true -> f_vlog f' = true) ->
  (f_ver (st_fs s) = true -> f_ver f' = true) ->
  (match x with
   | Some r' => (past_validated (o_pc r') = true -> f_base f' = true) /\
                (past_dirs (o_pc r') = true -> f_lock f' <> LAbsent /\ o_ino r' = f_lock_ino f') /\
                (past_validated (o_pc r') = true -> subdirs_before_lock v = true ->
                   f_std f' = true /\ (op_vlog (o_opts r') = true -> f_vlog f' = true) /\ (op_ver (o_opts r') = true -> f_ver f' = true))
   | None => True end) ->
  Inv v (mk (upd (st_op s) o x) (st_flock s) f' (st_log s ++ evs)).
Proof.
  intros s o x f' evs I Hx Hown Hscan Hq Mb Ml Ms Mv Mr Hnew.
  apply inv_upd with (h' := lock_owner s); auto.
  - eapply tbl_keep; eauto. intro N. now apply Ml.
  - intros y Hy. apply Ml. eapply lock_owner_named; eauto.
  - intros hh Hh. destruct (Hown hh Hh) as [A|A]; auto.
Qed.

(* the same when nothing is logged *)
Lemma inv_upd0 : forall s o (x : option opener) f',
  Inv v s ->
  (match x with Some r' => critical (o_pc r') = true -> lock_owner s = Some o | None => True end) ->
  (forall hh, lock_owner s = Some hh -> (hh = o /\ exists r', x = Some r' /\ critical (o_pc r') = true) \/ hh <> o) ->
  (f_base (st_fs s) = true -> f_base f' = true) ->
  (f_lock (st_fs s) <> LAbsent -> f_lock f' <> LAbsent /\ f_lock_ino f' = f_lock_ino (st_fs s)) ->
  (f_std (st_fs s) = true -> f_std f' = true) ->
  (f_vlog (st_fs s) = true -> f_vlog f' = true) ->
  (f_ver (st_fs s) = true -> f_ver f' = true) ->
  (match x with
   | Some r' => (past_validated (o_pc r') = true -> f_base f' = true) /\
                (past_dirs (o_pc r') = true -> f_lock f' <> LAbsent /\ o_ino r' = f_lock_ino f') /\
                (past_validated (o_pc r') = true -> subdirs_before_lock v = true ->
                   f_std f' = true /\ (op_vlog (o_opts r') = true -> f_vlog f' = true) /\ (op_ver (o_opts r') = true -> f_ver f' = true))
   | None => True end) ->
  Inv v (mk (upd (st_op s) o x) (st_flock s) f' (st_log s)).
Proof.
  intros s o x f' I Hx Hown Mb Ml Ms Mv Mr Hnew.
  rewrite <- (app_nil_r (st_log s)).
  apply inv_upd_same; auto; rewrite ?app_nil_r.
  - apply (inv_scan v s I).
  - apply (inv_quiet_track v s I).
Qed.

Lemma flock_not_o : forall s o r, Inv v s -> st_op s o = Some r -> critical (o_pc r) = false ->
  forall hh, lock_owner s = Some hh -> hh <> o.
Proof.
  intros s o r I H C hh Hh ->. destruct (inv_owner v s I o Hh) as [r' [A B]].
  rewrite H in A. inv_eq. congruence.
Qed.
Lemma flock_absent_not_o : forall s o, Inv v s -> st_op s o = None -> forall hh, lock_owner s = Some hh -> hh <> o.
Proof.
  intros s o I H hh Hh ->. destruct (inv_owner v s I o Hh) as [r' [A B]]. congruence.
Qed.

Lemma quiet_track_some : forall s, Inv v s ->
  forall e a, quiet_ev (fold_left quiet_ev (st_log s) (Some None)) e = Some a ->
  fold_left quiet_ev (st_log s) (Some None) = Some (lock_owner s).
Proof.
  intros s I e a H. destruct (fold_left quiet_ev (st_log s) (Some None)) as [b|] eqn:E; [|discriminate].
  f_equal. now apply (inv_quiet_track v s I).
Qed.

(* side conditions of inv_upd / inv_upd_same / inv_upd0, solved by shape *)
Ltac old_inv I H P :=
  solve [ eapply (inv_base v _ I); eauto; now rewrite P
        | eapply (inv_lockfile v _ I); eauto; now rewrite P
        | eapply (inv_ino v _ I); eauto; now rewrite P
        | split; [eapply (inv_lockfile v _ I); eauto; now rewrite P | eapply (inv_ino v _ I); eauto; now rewrite P]
        | eapply (inv_sub v _ I); eauto; now rewrite P ].
Ltac lock_cases :=
  solve [ intros; cbn; match goal with |- context [f_lock ?f] => destruct (f_lock f) end;
          try discriminate; destruct (trunc_on_open v); discriminate ].
Ltac quiet_goal I F :=
  let a := fresh "a" in let Q := fresh "Q" in let b := fresh "b" in let E := fresh "E" in
  intros a; rewrite ?quiet_snoc, ?quiet_app2; intro Q;
  destruct (fold_left quiet_ev (st_log _) (Some None)) as [b|] eqn:E; [|discriminate Q];
  pose proof (inv_quiet_track v _ I b E); subst b; rewrite ?F in Q; cbn in Q;
  repeat match type of Q with
         | context [negb ?x] => destruct (negb x); cbn in Q
         | context [match lock_owner ?s with _ => _ end] => destruct (lock_owner s); cbn in Q
         | context [Nat.eqb ?x ?y] => destruct (Nat.eqb x y); cbn in Q
         end;
  inv_eq; rewrite ?F; reflexivity.
(* the fs keeps LOCK: name, inode *)
Ltac keep_lock :=
  solve [ intros; cbn; split; [assumption | reflexivity]
        | intros; cbn; split; [discriminate | reflexivity]
        | intros; unfold fs_dirs; destruct (subdirs_before_lock v); cbn; split; [assumption | reflexivity] ].
Ltac side I H P F :=
  cbn; rewrite ?F;
  first
  [ exact I
  | solve [auto]
  | solve [intros; discriminate]
  | solve [intros; cbn; auto]
  | keep_lock
  | (* owner: o not critical, table unchanged *)
    solve [ let hh := fresh in let Hh := fresh in intros hh Hh; right; first [split; [|exact Hh] |idtac];
            inv_eq; first [ eapply flock_not_o; eauto; now rewrite P | eapply flock_absent_not_o; eauto ] ]
  | (* owner: o is the owner *)
    solve [ let hh := fresh in let Hh := fresh in intros hh Hh; rewrite ?F in Hh; inv_eq; left; split; auto; eexists; split; eauto ]
  | (* others keep the lock *)
    solve [ let o1 := fresh in let Ne := fresh in let E := fresh in intros o1 Ne E; rewrite ?F in E; inv_eq; congruence ]
  | solve [ rewrite ?scan_snoc, ?scan_app2, (inv_scan v _ I), ?F; cbn; rewrite ?Nat.eqb_refl; reflexivity ]
  | solve [ quiet_goal I F ]
  | lock_cases
  | solve [ destruct (subdirs_before_lock v); cbn; auto; intros ->; apply orb_true_l ]
  | solve [ split; [|split]; intros; try discriminate; try old_inv I H P; try lock_cases;
            try (split; [ first [discriminate | assumption | lock_cases | old_inv I H P]
                        | first [assumption | reflexivity | old_inv I H P] ]);
            try (destruct (subdirs_before_lock v); cbn; old_inv I H P) ]
  | idtac ].

(* an opener between lock and release: the table is [(its inode = the named inode, it)] *)
Lemma crit_facts : forall s o r, Inv v s -> st_op s o = Some r -> critical (o_pc r) = true ->
  lock_owner s = Some o /\ st_flock s = [(f_lock_ino (st_fs s), o)] /\ f_lock (st_fs s) <> LAbsent /\
  o_ino r = f_lock_ino (st_fs s).
Proof.
  intros s o r I H C. assert (F : lock_owner s = Some o) by (eapply (inv_crit v s I); eauto).
  destruct (inv_held v s o I F) as [T N]. repeat split; auto.
  eapply (inv_ino v s I); eauto. now apply critical_past_dirs.
Qed.

Lemma inv_step_opener : forall s o r, Inv v s -> st_op s o = Some r -> Inv v (step_opener v s o r).
Proof.
  intros s o r I H. unfold step_opener, fs_dirs.
  destruct (o_pc r) eqn:P; try exact I.
  - (* PStart *)
    destruct (op_valid (o_opts r)).
    + apply inv_upd0; side I H P I.
    + apply inv_upd_same; side I H P I.
  - (* PValidated *)
    apply inv_upd_same; side I H P I.
    split; [|split]; try discriminate.
    + intros _. destruct (subdirs_before_lock v); reflexivity.
    + intros _ ->. cbn. repeat split; auto; intros ->; apply orb_true_r.
  - (* PDirs *)
    destruct (open_lock_dirs v (st_fs s)) as (EB & ES & EV & ER & _).
    apply inv_upd_same; side I H P I; rewrite ?EB, ?ES, ?EV, ?ER; auto.
    + intro N. split; [apply open_lock_present | now apply open_lock_ino].
    + split; [|split].
      * intros _. old_inv I H P.
      * intros _. split; [apply open_lock_present | reflexivity].
      * intros _ SB. old_inv I H P.
  - (* POpened *)
    rewrite (inv_find v s o r I H) by (now rewrite P).
    assert (N : f_lock (st_fs s) <> LAbsent) by old_inv I H P.
    assert (E : o_ino r = f_lock_ino (st_fs s)) by old_inv I H P.
    destruct (lock_owner s) as [hh|] eqn:F.
    + apply inv_upd_same; side I H P F.
    + apply inv_upd with (h' := Some o); side I H P F.
      * now rewrite (inv_free v s I F), E.
  - (* PLocked *)
    destruct (crit_facts s o r I H) as (F & T & N & E); [now rewrite P|].
    rewrite E, (wr_lock_named _ _ N).
    apply inv_upd_same; side I H P F.
  - (* PCleared *)
    destruct (crit_facts s o r I H) as (F & T & N & E); [now rewrite P|].
    apply inv_upd0; side I H P F.
  - (* PCloned *)
    destruct (crit_facts s o r I H) as (F & T & N & E); [now rewrite P|].
    rewrite E, (wr_lock_named _ _ N).
    apply inv_upd_same; side I H P F.
  - (* PWritten *)
    destruct (crit_facts s o r I H) as (F & T & N & E); [now rewrite P|].
    apply inv_upd_same; side I H P F.
    split; [|split].
    + intros _. destruct (subdirs_before_lock v); cbn; old_inv I H P.
    + intros _. destruct (subdirs_before_lock v); cbn; auto.
    + intros _ SB. rewrite SB. cbn. old_inv I H P.
  - (* PRestoring *)
    destruct (crit_facts s o r I H) as (F & T & N & E); [now rewrite P|].
    apply inv_upd_same; side I H P F.
  - (* PClosing *)
    destruct (crit_facts s o r I H) as (F & T & N & E); [now rewrite P|].
    apply inv_upd with (h' := None); side I H P F.
    + rewrite T. cbn. now rewrite Nat.eqb_refl.
  - (* PDropping *)
    destruct (crit_facts s o r I H) as (F & T & N & E); [now rewrite P|].
    apply inv_upd_same; side I H P F.
  - (* PDropClosing *)
    destruct (crit_facts s o r I H) as (F & T & N & E); [now rewrite P|].
    apply inv_upd with (h' := None); side I H P F.
    + rewrite T. cbn. now rewrite Nat.eqb_refl.
Qed.

(* a data event of the owner: only the version counter moves *)
Lemma inv_data : forall s o r k, Inv v s -> st_op s o = Some r -> critical (o_pc r) = true ->
  Inv v (mk (st_op s) (st_flock s) (bump (st_fs s)) (st_log s ++ [EvData o k])).
Proof.
  intros s o r k I H C.
  assert (F : lock_owner s = Some o) by (eapply (inv_crit v s I); eauto).
  pose proof (inv_scan v s I) as Hs.
  assert (LO : lock_owner (mk (st_op s) (st_flock s) (bump (st_fs s)) (st_log s ++ [EvData o k])) = lock_owner s) by reflexivity.
  destruct I as [It Ic Io Is Iq Ib Il Ii Isub].
  constructor; rewrite ?LO; cbn [mk st_op st_flock st_fs st_log]; auto.
  - rewrite scan_snoc, Hs, F. cbn. now rewrite Nat.eqb_refl.
  - intros a. rewrite quiet_snoc. intro Q.
    destruct (fold_left quiet_ev (st_log s) (Some None)) as [b|] eqn:E; [|discriminate].
    cbn in Q. inv_eq. now apply Iq.
Qed.

Lemma inv_apply : forall s a, Inv v s -> Inv v (apply_op v s a).
Proof.
  intros s a I.
  destruct a as [o p opts | o | o | o | o | o | o | p | o | o]; unfold apply_op.
  - (* OBegin *)
    destruct (st_op s o) eqn:H; [exact I|].
    apply inv_upd0; side I H H I.
  - (* OStep *)
    destruct (st_op s o) eqn:H; [|exact I]. now apply inv_step_opener.
  - (* OClose *)
    destruct (st_op s o) as [r|] eqn:H; [|exact I]. destruct (o_pc r) eqn:P; try exact I.
    destruct (crit_facts s o r I H) as (F & T & N & E); [now rewrite P|].
    apply inv_upd_same; side I H P F.
  - (* ODrop *)
    destruct (st_op s o) as [r|] eqn:H; [|exact I]. destruct (o_pc r) eqn:P; try exact I.
    + destruct (crit_facts s o r I H) as (F & T & N & E); [now rewrite P|].
      apply inv_upd0; side I H P F.
    + apply inv_upd_same; side I H P I.
  - (* ODropDetached *)
    destruct (st_op s o) as [r|] eqn:H; [|exact I]. destruct (o_pc r) eqn:P; try exact I.
    + destruct (crit_facts s o r I H) as (F & T & N & E); [now rewrite P|].
      destruct (detached_drop_closes v); apply inv_upd0; side I H P F.
    + apply inv_upd_same; side I H P I.
  - (* ORuntimeGone *)
    destruct (st_op s o) as [r|] eqn:H; [|exact I]. destruct (o_pc r) eqn:P; try exact I.
    destruct (crit_facts s o r I H) as (F & T & N & E); [now rewrite P|].
    apply inv_upd with (h' := None); side I H P F.
    + rewrite T. cbn. now rewrite Nat.eqb_refl.
  - (* OCommit *)
    destruct (st_op s o) as [r|] eqn:H; [|exact I]. destruct (o_pc r) eqn:P; try exact I.
    eapply inv_data; eauto. now rewrite P.
  - (* OKill *)
    assert (KM : forall o r, kill_map (st_op s) p o = Some r -> st_op s o = Some r /\ Nat.eqb (o_proc r) p = false).
    { intros o r. unfold kill_map. destruct (st_op s o) as [r0|]; [|discriminate].
      destruct (Nat.eqb (o_proc r0) p) eqn:E; [discriminate|]. intro. inv_eq. auto. }
    pose proof (inv_scan v s I) as Hs.
    assert (SHAPE : exists h' evs,
              kill_flock (st_op s) (st_flock s) p = tbl (st_fs s) h' /\ kill_log (st_op s) (st_flock s) p = evs /\
              (forall y, h' = Some y -> lock_owner s = Some y /\ exists r, st_op s y = Some r /\ Nat.eqb (o_proc r) p = false) /\
              (forall y r, lock_owner s = Some y -> st_op s y = Some r -> Nat.eqb (o_proc r) p = false -> h' = Some y) /\
              scan (st_log s ++ evs) = Some h' /\
              (forall a, fold_left quiet_ev (st_log s ++ evs) (Some None) = Some a -> a = h')).
    { destruct (lock_owner s) as [x|] eqn:F.
      - destruct (inv_held v s x I F) as [T N]. destruct (inv_owner v s I x F) as [r [A C]].
        rewrite T. unfold kill_flock, kill_log, dies. cbn [filter flat_map snd]. rewrite A.
        destruct (Nat.eqb (o_proc r) p) eqn:D; cbn [negb app].
        + exists None. eexists. split; [reflexivity|]. split; [reflexivity|]. split; [intros y Y; discriminate Y|].
          split; [intros y r0 Y A0 D0; inv_eq; rewrite A in A0; inv_eq; congruence|]. split.
          * rewrite scan_app2, Hs. cbn. now rewrite Nat.eqb_refl.
          * intros a. rewrite quiet_app2.
            destruct (fold_left quiet_ev (st_log s) (Some None)) as [b|] eqn:E; [|discriminate].
            cbn. intro. now inv_eq.
        + exists (Some x). eexists. split; [reflexivity|]. split; [reflexivity|]. split; [intros y Y; inv_eq; split; eauto|].
          split; [intros y r0 Y A0 D0; now inv_eq|]. rewrite app_nil_r. split; [exact Hs|].
          intros a Q. rewrite (inv_quiet_track v s I a Q). exact F.
      - rewrite (inv_free v s I F). exists None. eexists. split; [reflexivity|]. split; [reflexivity|].
        split; [intros y Y; discriminate Y|]. split; [intros y r0 Y; discriminate Y|]. cbn [kill_log flat_map]. rewrite app_nil_r.
        split; [exact Hs|]. intros a Q. rewrite (inv_quiet_track v s I a Q). exact F. }
    destruct SHAPE as (h' & evs & ET & EL & Hsome & Hkeep & Hscan & Hq). rewrite ET, EL.
    assert (LO : lock_owner (mk (kill_map (st_op s) p) (tbl (st_fs s) h') (st_fs s) (st_log s ++ evs)) = h').
    { apply lock_owner_mk. intros y Y. destruct (Hsome y Y) as [F _]. eapply lock_owner_named; eauto. }
    destruct I as [It Ic Io Is Iq Ib Il Ii Isub].
    constructor; rewrite ?LO; cbn [mk st_op st_flock st_fs st_log]; auto.
    + intros o r H C. destruct (KM o r H) as [A B]. eapply Hkeep; eauto.
    + intros hh Hh. destruct (Hsome hh Hh) as [F [r [A B]]]. destruct (Io hh F) as [r' [A' C']].
      rewrite A in A'. inv_eq. exists r'. unfold kill_map. rewrite A, B. auto.
    + intros o r H. destruct (KM o r H). eapply Ib; eauto.
    + intros o r H. destruct (KM o r H). eapply Il; eauto.
    + intros o r H. destruct (KM o r H). eapply Ii; eauto.
    + intros o r H. destruct (KM o r H). eapply Isub; eauto.
  - (* OCheckpoint *)
    destruct (st_op s o) as [r|] eqn:H; [|exact I]. destruct (o_pc r) eqn:P; try exact I.
    eapply inv_data; eauto. now rewrite P.
  - (* ORestore *)
    destruct (st_op s o) as [r|] eqn:H; [|exact I]. destruct (o_pc r) eqn:P; try exact I.
    rewrite KEEP.
    destruct (crit_facts s o r I H) as (F & T & N & E); [now rewrite P|].
    apply inv_upd_same; side I H P F.
Qed.

Theorem inv_run : forall ops s, Inv v s -> Inv v (run v ops s).
Proof.
  induction ops as [|a ops IH]; intros s I; [exact I|].
  rewrite run_cons. apply IH. now apply inv_apply.
Qed.
Corollary inv_reach : forall ops, Inv v (run v ops s0).
Proof. intros. apply inv_run. apply inv_s0. Qed.

(* ------------------------------------------------------------------ 1. mutual exclusion *)
Theorem holder_is_flock_owner : holder_is_flock_owner_stmt v.
Proof.
  intros ops o s C. unfold in_critical in C. destruct (st_op s o) as [r|] eqn:H; [|discriminate].
  eapply (inv_crit v s (inv_reach ops)); eauto.
Qed.
Theorem mutual_exclusion : mutual_exclusion_stmt v.
Proof.
  intros ops o1 o2 s C1 C2.
  pose proof (holder_is_flock_owner ops o1 C1) as F1.
  pose proof (holder_is_flock_owner ops o2 C2) as F2.
  fold s in F1, F2. congruence.
Qed.

(* ------------------------------------------------------------------ 3. bracket *)
Theorem data_inside_lock : data_inside_lock_stmt v.
Proof. intros ops s. apply (inv_scan v s (inv_reach ops)). Qed.

(* ------------------------------------------------------------------ 5. the lock table, the name LOCK and its inode *)
Theorem single_lock : single_lock_stmt v.
Proof. intros ops s. apply (inv_tbl v s (inv_reach ops)). Qed.
Theorem lock_name_stable : lock_name_stable_stmt v.
Proof.
  intros ops o r s H. pose proof (inv_reach ops) as I. fold s in I.
  destruct (o_pc r) eqn:P; auto;
    (split; [eapply (inv_lockfile v s I); eauto; now rewrite P | symmetry; eapply (inv_ino v s I); eauto; now rewrite P]).
Qed.

End Step.

Lemma scan_none_absorbs : forall l, fold_left scan_ev l None = None.
Proof. induction l; cbn; auto. Qed.
Lemma scan_prefix : forall l1 l2 a, scan (l1 ++ l2) = Some a -> exists b, scan l1 = Some b.
Proof.
  intros l1 l2 a H. unfold scan in *. rewrite fold_left_app in H.
  destruct (fold_left scan_ev l1 (Some None)) as [b|]; [eauto|]. now rewrite scan_none_absorbs in H.
Qed.
Lemma scan_owner_acquired : forall l o, scan l = Some (Some o) ->
  exists la lb, l = la ++ EvAcquire o :: lb /\ ~ In (EvRelease o) lb.
Proof.
  induction l as [|e l IH] using rev_ind; intros o H; [discriminate|].
  rewrite scan_snoc in H. destruct (scan l) as [h|] eqn:E; [|discriminate].
  assert (KEEP : h = Some o -> e <> EvRelease o ->
                 exists la lb, l ++ [e] = la ++ EvAcquire o :: lb /\ ~ In (EvRelease o) lb).
  { intros -> Ne. destruct (IH o eq_refl) as [la [lb [A B]]]. exists la, (lb ++ [e]). split.
    - rewrite A, <- app_assoc. reflexivity.
    - intro X. apply in_app_or in X. destruct X as [X|[X|[]]]; [now apply B | now apply Ne]. }
  destruct e; cbn in H.
  - apply KEEP; [now inv_eq | discriminate].
  - apply KEEP; [now inv_eq | discriminate].
  - apply KEEP; [now inv_eq | discriminate].
  - destruct h; [discriminate|]. inv_eq. exists l, []. split; auto.
  - apply KEEP; [now inv_eq | discriminate].
  - destruct (holds h o0); [|discriminate]. apply KEEP; [now inv_eq | discriminate].
  - destruct (holds h o0); [|discriminate]. apply KEEP; [now inv_eq | discriminate].
  - destruct (holds h o0); discriminate.
  - apply KEEP; [now inv_eq | discriminate].
  - apply KEEP; [now inv_eq | discriminate].
Qed.

Theorem lock_before_recovery : forall v, restore_keeps_lock_name v = true -> lock_before_recovery_stmt v.
Proof.
  intros v K ops l1 l2 o k H.
  pose proof (data_inside_lock v K ops) as S. cbn in S. rewrite H in S.
  replace (l1 ++ EvData o k :: l2) with ((l1 ++ [EvData o k]) ++ l2) in S by (rewrite <- app_assoc; reflexivity).
  destruct (scan_prefix _ _ _ S) as [b B]. rewrite scan_snoc in B.
  destruct (scan l1) as [h|] eqn:E; [|discriminate]. cbn in B.
  destruct (holds h o) eqn:Hh; [|discriminate]. apply holds_true in Hh. subst h.
  now apply scan_owner_acquired.
Qed.

(* ------------------------------------------------------------------ running a whole open *)
Local Arguments run : simpl never.
Local Arguments apply_op : simpl never.
Local Arguments lock_after_open : simpl never.
Local Arguments open_lock : simpl never.
Local Arguments wr_lock : simpl never.
Local Arguments fs_dirs : simpl never.
Lemma apply_step_some : forall v m h f l o r,
  apply_op v (mk (upd m o (Some r)) h f l) (OStep o) = step_opener v (mk (upd m o (Some r)) h f l) o r.
Proof. intros. unfold apply_op. cbn. now rewrite upd_eq. Qed.
Lemma apply_step_none : forall v m h f l o,
  apply_op v (mk (upd m o None) h f l) (OStep o) = mk (upd m o None) h f l.
Proof. intros. unfold apply_op. cbn. now rewrite upd_eq. Qed.
Lemma run_steps_none : forall v n m h f l o,
  run v (repeat (OStep o) n) (mk (upd m o None) h f l) = mk (upd m o None) h f l.
Proof. induction n; intros; cbn [repeat]; [reflexivity|]. rewrite run_cons, apply_step_none. apply IHn. Qed.
Lemma apply_begin : forall v m h f l o p opts, m o = None ->
  apply_op v (mk m h f l) (OBegin o p opts) =
  mk (upd m o (Some {| o_proc := p; o_opts := opts; o_pc := PStart; o_fds := 0; o_ino := 0 |})) h f l.
Proof. intros. unfold apply_op. cbn. now rewrite H. Qed.
Lemma state_eta : forall s, s = mk (st_op s) (st_flock s) (st_fs s) (st_log s).
Proof. now destruct s. Qed.

(* invalid options: the attempt ends at validate() *)
Lemma open_invalid : forall v s o p opts, st_op s o = None -> op_valid opts = false ->
  run v (open_ops o p opts) s = mk (upd (upd (st_op s) o (Some {| o_proc := p; o_opts := opts; o_pc := PStart; o_fds := 0; o_ino := 0 |})) o None)
                                  (st_flock s) (st_fs s) (st_log s ++ [EvInvalid o]).
Proof.
  intros v s o p opts N V. rewrite (state_eta s) at 1. unfold open_ops. rewrite run_cons, apply_begin by assumption.
  cbn [repeat]. rewrite run_cons, apply_step_some. unfold step_opener. cbn. rewrite V.
  apply (run_steps_none v 7).
Qed.

(* the fs after the two steps that precede try_lock, when LOCK exists *)
Definition fs_lockopen (v : variant) (f : fs) : fs := set_lock f (lock_after_open v (f_lock f)).
Definition ev_dirs (v : variant) (f : fs) (o : oid) (opts : oopts) : event :=
  EvMkdir o (negb (dirs_eqb f (fs_dirs v f opts))).
Definition ev_lockopen (v : variant) (f : fs) (o : oid) : event :=
  EvLockOpen o (negb (lcontent_eqb (f_lock f) (lock_after_open v (f_lock f)))).

Lemma f_lock_fs_dirs : forall v f opts, f_lock (fs_dirs v f opts) = f_lock f.
Proof. intros. unfold fs_dirs. destruct (subdirs_before_lock v); reflexivity. Qed.
Lemma f_lock_ino_fs_dirs : forall v f opts, f_lock_ino (fs_dirs v f opts) = f_lock_ino f.
Proof. intros. unfold fs_dirs. destruct (subdirs_before_lock v); reflexivity. Qed.

(* valid options, the lock on the inode called LOCK owned by somebody: refused at try_lock *)
Lemma open_refused : forall v s o p opts hh, st_op s o = None -> op_valid opts = true -> lock_owner s = Some hh ->
  exists m', run v (open_ops o p opts) s =
    mk (upd m' o None) (st_flock s) (fs_lockopen v (fs_dirs v (st_fs s) opts))
       (((st_log s ++ [ev_dirs v (st_fs s) o opts]) ++ [ev_lockopen v (fs_dirs v (st_fs s) opts) o]) ++ [EvRefused o]).
Proof.
  intros v s o p opts hh N V F.
  pose proof (lock_owner_named s hh F) as NA. rewrite (lock_owner_find s NA) in F.
  destruct s as [m h f l]. cbn [st_op st_flock st_fs st_log] in *. change (Build_state m) with (mk m).
  assert (NA' : f_lock (fs_dirs v f opts) <> LAbsent) by now rewrite f_lock_fs_dirs.
  unfold open_ops. rewrite run_cons, apply_begin by assumption.
  cbn [repeat].
  rewrite run_cons, apply_step_some. unfold step_opener at 1. cbn. rewrite V.
  rewrite run_cons, apply_step_some. unfold step_opener at 1. cbn.
  rewrite run_cons, apply_step_some. unfold step_opener at 1. cbn.
  rewrite (open_lock_named v _ NA'). cbn [f_lock_ino set_lock]. rewrite f_lock_ino_fs_dirs.
  rewrite run_cons, apply_step_some. unfold step_opener at 1. cbn. rewrite F.
  repeat (rewrite run_cons, apply_step_none). rewrite run_nil. eexists. unfold fs_lockopen, ev_lockopen, ev_dirs.
  reflexivity.
Qed.

(* valid options, no lock anywhere: the open runs to the end *)
Definition fs_after_open (v : variant) (f : fs) (p : proc) (opts : oopts) : fs :=
  let f3 := set_lock (set_lock (open_lock v (fs_dirs v f opts)) LEmpty) (LPid p) in
  bump (if subdirs_before_lock v then f3 else mk_sub f3 opts).
Lemma open_free : forall v s o p opts, st_op s o = None -> op_valid opts = true -> st_flock s = [] ->
  exists m' l', run v (open_ops o p opts) s =
    mk (upd m' o (Some {| o_proc := p; o_opts := opts; o_pc := PLive; o_fds := 1;
                          o_ino := f_lock_ino (open_lock v (fs_dirs v (st_fs s) opts)) |}))
       [(f_lock_ino (open_lock v (fs_dirs v (st_fs s) opts)), o)]
       (fs_after_open v (st_fs s) p opts) l'.
Proof.
  intros v s o p opts N V F. destruct s as [m h f l]. cbn [st_op st_flock st_fs st_log] in *. subst h.
  change (Build_state m) with (mk m).
  pose proof (open_lock_present v (fs_dirs v f opts)) as NA.
  unfold open_ops. rewrite run_cons, apply_begin by assumption.
  cbn [repeat].
  rewrite run_cons, apply_step_some. unfold step_opener at 1. cbn. rewrite V.
  rewrite run_cons, apply_step_some. unfold step_opener at 1. cbn.
  rewrite run_cons, apply_step_some. unfold step_opener at 1. cbn.
  rewrite run_cons, apply_step_some. unfold step_opener at 1. cbn.
  rewrite run_cons, apply_step_some. unfold step_opener at 1. cbn.
  rewrite (wr_lock_named _ LEmpty NA).
  rewrite run_cons, apply_step_some. unfold step_opener at 1. cbn.
  rewrite run_cons, apply_step_some. unfold step_opener at 1. cbn.
  rewrite wr_lock_set by discriminate.
  rewrite run_cons, apply_step_some. unfold step_opener at 1. cbn.
  rewrite run_nil. eexists. eexists. unfold fs_after_open. reflexivity.
Qed.
Lemma fs_after_open_lock : forall v f p opts,
  f_lock (fs_after_open v f p opts) = LPid p /\
  f_lock_ino (fs_after_open v f p opts) = f_lock_ino (open_lock v (fs_dirs v f opts)).
Proof. intros. unfold fs_after_open. destruct (subdirs_before_lock v); cbn; auto. Qed.

(* the state after a completed open: the opener is live and owns the lock on the inode called LOCK *)
Lemma open_free_live : forall v s o p opts, st_op s o = None -> op_valid opts = true -> st_flock s = [] ->
  let s2 := run v (open_ops o p opts) s in
  is_live s2 o = true /\ lock_owner s2 = Some o.
Proof.
  intros v s o p opts N V F s2. subst s2.
  destruct (open_free v s o p opts N V F) as [m' [l' E]]. rewrite E.
  unfold is_live, pc_of, lock_owner. cbn [mk st_op st_flock st_fs]. rewrite upd_eq.
  destruct (fs_after_open_lock v (st_fs s) p opts) as [A B]. rewrite A, B. cbn. now rewrite Nat.eqb_refl.
Qed.

(* ------------------------------------------------------------------ 2. release / reopen *)
Theorem free_open_succeeds : forall v, restore_keeps_lock_name v = true -> free_open_succeeds_stmt v.
Proof.
  intros v K ops o' p' opts' s F N V s2.
  apply open_free_live; auto. eapply inv_free; eauto. apply (inv_reach v K).
Qed.

Theorem held_open_refused : forall v, held_open_refused_stmt v.
Proof.
  intros v ops h o' p' opts' s F N s2. subst s2.
  destruct (op_valid opts') eqn:V.
  - destruct (open_refused v s o' p' opts' h N V F) as [m' E]. rewrite E. cbn [mk st_op]. rewrite upd_eq. split; [reflexivity|].
    pose proof (lock_owner_named s h F) as NA. rewrite (lock_owner_find s NA) in F.
    unfold lock_owner, fs_lockopen. cbn [mk st_fs st_flock set_lock f_lock f_lock_ino].
    rewrite f_lock_fs_dirs, f_lock_ino_fs_dirs, F.
    unfold lock_after_open. destruct (f_lock (st_fs s)); [contradiction | |]; destruct (trunc_on_open v); reflexivity.
  - rewrite (open_invalid v s o' p' opts' N V). cbn [mk st_op]. rewrite upd_eq. auto.
Qed.

(* each way of letting go frees the kernel's lock *)
Lemma release_frees : forall v s o r rel, Inv v s -> st_op s o = Some r -> o_pc r = PLive ->
  In rel (releases o (o_proc r)) -> st_flock (run v rel s) = [].
Proof.
  intros v s o r rel I H P R.
  assert (F : lock_owner s = Some o) by (eapply (inv_crit v s I); eauto; now rewrite P).
  destruct (inv_held v s o I F) as [T _].
  rewrite (state_eta s). destruct R as [<-|[<-|[<-|[]]]].
  - unfold close_ops. rewrite run_cons. unfold apply_op at 1. cbn. rewrite H, P.
    rewrite run_cons, apply_step_some. unfold step_opener. cbn. rewrite T. cbn. now rewrite Nat.eqb_refl.
  - unfold drop_ops. rewrite run_cons. unfold apply_op at 1. cbn. rewrite H, P.
    rewrite run_cons, apply_step_some. unfold step_opener at 1. cbn.
    rewrite run_cons, apply_step_some. unfold step_opener at 1. cbn. rewrite T. cbn. now rewrite Nat.eqb_refl.
  - rewrite run_cons. unfold apply_op. cbn. unfold kill_flock, dies. rewrite T. cbn. rewrite H, Nat.eqb_refl. reflexivity.
Qed.

Theorem release_reopens : forall v, restore_keeps_lock_name v = true -> release_reopens_stmt v.
Proof.
  intros v K ops o r rel o' p' opts' s H P R s1 N V s2.
  assert (F1 : st_flock s1 = []) by (eapply release_frees; eauto; apply (inv_reach v K)).
  now apply open_free_live.
Qed.

(* ------------------------------------------------------------------ 4. a failed open touches nothing *)
Lemma filter_data_snoc : forall l e, is_data e = false -> filter is_data (l ++ [e]) = filter is_data l.
Proof. intros. rewrite filter_app. cbn. rewrite H. apply app_nil_r. Qed.

Lemma lock_after_open_same : forall v c, trunc_on_open v = false -> c <> LAbsent -> lock_after_open v c = c.
Proof. intros v c T N. unfold lock_after_open. rewrite T. destruct c; congruence. Qed.
Lemma wanted_present_spec : forall f o, wanted_present f o = true ->
  f_std f = true /\ (op_vlog o = true -> f_vlog f = true) /\ (op_ver o = true -> f_ver f = true).
Proof.
  intros f o H. unfold wanted_present in H. apply andb_prop in H. destruct H as [H H3]. apply andb_prop in H. destruct H as [H1 H2].
  repeat split; auto; intros E; rewrite E in *; cbn in *; auto.
Qed.
Lemma fs_dirs_same : forall v f o, f_base f = true ->
  (subdirs_before_lock v = true -> wanted_present f o = true) -> fs_dirs v f o = f.
Proof.
  intros v f o B W. unfold fs_dirs. rewrite (mk_base_same f B). destruct (subdirs_before_lock v); [|reflexivity].
  destruct (wanted_present_spec f o (W eq_refl)) as [A [C D]]. now apply mk_sub_same.
Qed.

(* the owner of the lock has created the base directory and LOCK *)
Lemma owner_created : forall v s hh, Inv v s -> lock_owner s = Some hh ->
  f_base (st_fs s) = true /\ f_lock (st_fs s) <> LAbsent.
Proof.
  intros v s hh I F. destruct (inv_owner v s I hh F) as [r [A C]]. apply critical_past_dirs in C. split.
  - eapply (inv_base v s I); eauto. now apply past_dirs_validated.
  - eapply (inv_lockfile v s I); eauto.
Qed.

Lemma failed_open_touches_nothing : forall v ops o p opts,
  restore_keeps_lock_name v = true ->
  trunc_on_open v = false ->
  let s := run v ops s0 in
  (subdirs_before_lock v = true -> wanted_present (st_fs s) opts = true) ->
  st_op s o = None ->
  let s' := run v (open_ops o p opts) s in
  st_op s' o = None ->
  st_fs s' = st_fs s /\ filter is_data (st_log s') = filter is_data (st_log s).
Proof.
  intros v ops o p opts K T s W N s' N'. pose proof (inv_reach v K ops) as I. fold s in I. subst s'.
  destruct (op_valid opts) eqn:V.
  - destruct (lock_owner s) as [hh|] eqn:F.
    + destruct (open_refused v s o p opts hh N V F) as [m' E]. rewrite E. cbn [mk st_fs st_log].
      destruct (owner_created v s hh I F) as [B L]. split.
      * unfold fs_lockopen. rewrite (fs_dirs_same v (st_fs s) opts B W).
        rewrite (lock_after_open_same v _ T L). apply set_lock_same.
      * rewrite !filter_data_snoc; reflexivity.
    + destruct (open_free v s o p opts N V (inv_free v s I F)) as [m' [l' E]]. rewrite E in N'. cbn [mk st_op] in N'. rewrite upd_eq in N'. discriminate.
  - rewrite (open_invalid v s o p opts N V). cbn [mk st_fs st_log]. split; [reflexivity|]. now rewrite filter_data_snoc.
Qed.

(* every variant that neither truncates on open nor creates the sub-directories before the lock *)
Theorem refused_open_touches_nothing_gen : forall v, restore_keeps_lock_name v = true ->
  trunc_on_open v = false -> subdirs_before_lock v = false ->
  refused_open_touches_nothing_stmt v.
Proof. intros v K T S ops o p opts s N s' N'. apply failed_open_touches_nothing; auto. rewrite S. discriminate. Qed.
Theorem refused_open_same_layout_touches_nothing_gen : forall v, restore_keeps_lock_name v = true -> trunc_on_open v = false ->
  refused_open_same_layout_touches_nothing_stmt v.
Proof. intros v K T ops o p opts s N W s' N'. apply failed_open_touches_nothing; auto. Qed.
Theorem refused_open_touches_nothing_fixed_dirs : refused_open_touches_nothing_stmt fixed_dirs.
Proof. intros ops o p opts s N s' N'. apply failed_open_touches_nothing; auto. discriminate. Qed.
Theorem refused_open_same_layout_touches_nothing_fixed : refused_open_same_layout_touches_nothing_stmt fixed.
Proof. intros ops o p opts s N W s' N'. apply failed_open_touches_nothing; auto. Qed.
Theorem refused_open_same_layout_touches_nothing_fixed_dirs : refused_open_same_layout_touches_nothing_stmt fixed_dirs.
Proof. intros ops o p opts s N W s' N'. apply failed_open_touches_nothing; auto. Qed.

(* ---- refutations: the pinned code, and the sub-directories of `fixed` ---- *)
Definition wit_ops : list op := Eval vm_compute in open_ops 1 0 plain.
Definition wit_before_pinned : fs := Eval vm_compute in st_fs (run pinned wit_ops s0).
Definition wit_after_pinned : fs := Eval vm_compute in st_fs (run pinned (open_ops 2 0 plain) (run pinned wit_ops s0)).
(* opener 1 (process 0) holds the store; opener 2 (same options) is refused — and LOCK, which held
   the owner's pid, is empty afterwards *)
Theorem refused_open_touches_nothing_refuted_pinned :
  let s := run pinned wit_ops s0 in
  let s' := run pinned (open_ops 2 0 plain) s in
  is_live s 1 = true /\ st_op s 2 = None /\ wanted_present (st_fs s) plain = true /\ st_op s' 2 = None /\ is_live s' 1 = true /\
  st_fs s = wit_before_pinned /\ st_fs s' = wit_after_pinned /\
  f_lock wit_before_pinned = LPid 0 /\ f_lock wit_after_pinned = LEmpty /\
  last (st_log s') (EvGone 0) = EvRefused 2.
Proof. vm_compute. repeat split; reflexivity. Qed.
Corollary refused_open_touches_nothing_fails_pinned :
  ~ refused_open_touches_nothing_stmt pinned /\ ~ refused_open_same_layout_touches_nothing_stmt pinned.
Proof.
  split; intro H.
  - assert (X := H wit_ops 2 0 plain eq_refl eq_refl). destruct X as [X _]. vm_compute in X. discriminate.
  - assert (X := H wit_ops 2 0 plain eq_refl eq_refl eq_refl). destruct X as [X _]. vm_compute in X. discriminate.
Qed.

Definition opts_vlog : oopts := {| op_valid := true; op_vlog := true; op_ver := false |}.
Definition wit_before_fixed : fs := Eval vm_compute in st_fs (run fixed wit_ops s0).
Definition wit_after_fixed : fs := Eval vm_compute in st_fs (run fixed (open_ops 2 0 opts_vlog) (run fixed wit_ops s0)).
(* with `.truncate(true)` removed, a refused opener that enables the value log still creates vlog/ *)
Theorem refused_open_touches_nothing_refuted_fixed :
  let s := run fixed wit_ops s0 in
  let s' := run fixed (open_ops 2 0 opts_vlog) s in
  is_live s 1 = true /\ st_op s 2 = None /\ st_op s' 2 = None /\
  st_fs s = wit_before_fixed /\ st_fs s' = wit_after_fixed /\
  f_vlog wit_before_fixed = false /\ f_vlog wit_after_fixed = true /\ f_lock wit_after_fixed = f_lock wit_before_fixed /\
  last (st_log s') (EvGone 0) = EvRefused 2.
Proof. vm_compute. repeat split; reflexivity. Qed.
Corollary refused_open_touches_nothing_fails_fixed : ~ refused_open_touches_nothing_stmt fixed.
Proof.
  intro H. assert (X := H wit_ops 2 0 opts_vlog eq_refl eq_refl). destruct X as [X _]. vm_compute in X. discriminate.
Qed.

(* ---- a Tree dropped outside a runtime ---- *)
(* the code before the F28 repair (every variant with detached_drop_closes = false) keeps the lock: the next
   open is refused until the runtime is shut down.  Regression record. *)
Lemma drop_detached_ops_old : forall v s o r, detached_drop_closes v = false ->
  st_op s o = Some r -> o_pc r = PLive ->
  run v (drop_detached_ops o) s = run v [ODropDetached o] s.
Proof.
  intros v s o r D H P.
  assert (E : apply_op v s (ODropDetached o) = mk (upd (st_op s) o (Some (at_pc r PDetached 1))) (st_flock s) (st_fs s) (st_log s)).
  { unfold apply_op. rewrite H, P, D. reflexivity. }
  unfold drop_detached_ops. rewrite !run_cons, !run_nil, E.
  rewrite apply_step_some. unfold step_opener at 1. cbn.
  rewrite apply_step_some. unfold step_opener at 1. cbn. reflexivity.
Qed.
(* all four fields of the variant are split (complete, 8 closed cases): vm_compute never meets an abstract field *)
Theorem detached_drop_reopens_old_refuted : forall v, detached_drop_closes v = false -> ~ detached_drop_reopens_old_stmt v.
Proof.
  intros v D H.
  assert (X := H (open_ops 1 0 plain) 1 {| o_proc := 0; o_opts := plain; o_pc := PLive; o_fds := 1; o_ino := 1 |} 2 0 plain).
  destruct v as [[|] [|] [|] [|]]; try discriminate D;
    vm_compute in X; specialize (X eq_refl eq_refl eq_refl eq_refl); discriminate.
Qed.
Theorem detached_drop_reopens_refuted : forall v, detached_drop_closes v = false -> ~ detached_drop_reopens_stmt v.
Proof.
  intros v D H.
  assert (X := H (open_ops 1 0 plain) 1 {| o_proc := 0; o_opts := plain; o_pc := PLive; o_fds := 1; o_ino := 1 |} 2 0 plain).
  destruct v as [[|] [|] [|] [|]]; try discriminate D;
    vm_compute in X; specialize (X eq_refl eq_refl eq_refl eq_refl); destruct X as [X _]; discriminate.
Qed.
Theorem detached_drop_keeps_lock : forall v ops o r o' p' opts',
  restore_keeps_lock_name v = true ->
  detached_drop_closes v = false ->
  let s := run v ops s0 in
  st_op s o = Some r -> o_pc r = PLive ->
  let s1 := run v [ODropDetached o] s in
  st_op s1 o' = None ->
  lock_owner s1 = Some o /\ st_op (run v (open_ops o' p' opts') s1) o' = None /\
  (op_valid opts' = true -> st_op (run v [ORuntimeGone o] s1) o' = None ->
   is_live (run v (open_ops o' p' opts') (run v [ORuntimeGone o] s1)) o' = true).
Proof.
  intros v ops o r o' p' opts' K D s H P s1 N.
  pose proof (inv_reach v K ops) as I. fold s in I.
  assert (F : lock_owner s = Some o) by (eapply (inv_crit v s I); eauto; now rewrite P).
  destruct (inv_held v s o I F) as [T NA].
  assert (E1 : s1 = mk (upd (st_op s) o (Some (at_pc r PDetached 1))) (st_flock s) (st_fs s) (st_log s)).
  { subst s1. rewrite run_cons, run_nil. unfold apply_op. rewrite H, P, D. reflexivity. }
  assert (F1 : lock_owner s1 = Some o) by (rewrite E1; exact F).
  split; [exact F1|]. split.
  - destruct (op_valid opts') eqn:V.
    + destruct (open_refused v s1 o' p' opts' o N V F1) as [m' E]. rewrite E. cbn [mk st_op]. apply upd_eq.
    + rewrite (open_invalid v s1 o' p' opts' N V). cbn [mk st_op]. apply upd_eq.
  - intros V N2.
    assert (F2 : st_flock (run v [ORuntimeGone o] s1) = []).
    { rewrite E1, run_cons, run_nil. unfold apply_op. cbn. rewrite upd_eq. cbn. rewrite T. cbn. now rewrite Nat.eqb_refl. }
    apply open_free_live; auto.
Qed.

(* the record for the code as it was right before the repair (variant fixed_dirs): both forms of the statement fail,
   and concretely: opener 1 live, dropped outside its runtime -> the kernel's lock still names opener 1, opener 2
   is refused; after the runtime is gone opener 2 gets in *)
Corollary detached_drop_reopens_fails_fixed_dirs :
  ~ detached_drop_reopens_stmt fixed_dirs /\ ~ detached_drop_reopens_old_stmt fixed_dirs.
Proof. split; [apply detached_drop_reopens_refuted | apply detached_drop_reopens_old_refuted]; reflexivity. Qed.
Theorem detached_drop_witness_fixed_dirs :
  let s := run fixed_dirs wit_ops s0 in
  let s1 := run fixed_dirs (drop_detached_ops 1) s in
  let s2 := run fixed_dirs (open_ops 2 0 plain) s1 in
  let s3 := run fixed_dirs (open_ops 2 0 plain) (run fixed_dirs [ORuntimeGone 1] s2) in
  is_live s 1 = true /\ pc_of s1 1 = Some PDetached /\ lock_owner s1 = Some 1 /\
  st_op s2 2 = None /\ last (st_log s2) (EvGone 0) = EvRefused 2 /\ st_fs s2 = st_fs s /\
  is_live s3 2 = true /\ lock_owner s3 = Some 2.
Proof. vm_compute. repeat split; reflexivity. Qed.
(* the same script on the repaired code: opener 2 gets in at once, ORuntimeGone is not needed *)
Theorem detached_drop_witness_fixed_drop :
  let s := run fixed_drop wit_ops s0 in
  let s1 := run fixed_drop (drop_detached_ops 1) s in
  let s2 := run fixed_drop (open_ops 2 0 plain) s1 in
  is_live s 1 = true /\ pc_of s1 1 = None /\ lock_owner s1 = None /\ st_flock s1 = [] /\
  is_live s2 2 = true /\ lock_owner s2 = Some 2 /\
  st_log s1 = st_log s ++ [EvData 1 KShutdown; EvRelease 1; EvGone 1].
Proof. vm_compute. repeat split; reflexivity. Qed.

(* the repaired code (every variant with detached_drop_closes = true): when drop() returns the store is closed,
   the opener gone, the lock free — and the next open succeeds at once *)
Theorem detached_drop_releases : forall v, restore_keeps_lock_name v = true -> detached_drop_closes v = true ->
  detached_drop_releases_stmt v.
Proof.
  intros v K D ops o r s H P s1.
  pose proof (inv_reach v K ops) as I. fold s in I.
  assert (F : lock_owner s = Some o) by (eapply (inv_crit v s I); eauto; now rewrite P).
  destruct (inv_held v s o I F) as [T NA].
  assert (E : exists m', s1 = mk (upd m' o None) [] (bump (st_fs s))
                              ((st_log s ++ [EvData o KShutdown]) ++ [EvRelease o; EvGone o])).
  { subst s1. rewrite (state_eta s). unfold drop_detached_ops.
    rewrite run_cons. unfold apply_op at 1. cbn. rewrite H, P, D.
    rewrite run_cons, apply_step_some. unfold step_opener at 1. cbn.
    rewrite run_cons, apply_step_some. unfold step_opener at 1. cbn.
    rewrite run_nil, T. cbn. rewrite Nat.eqb_refl. eexists. reflexivity. }
  destruct E as [m' E]. rewrite E. cbn [mk st_op st_flock st_log]. rewrite upd_eq, <- app_assoc.
  repeat split; auto. unfold lock_owner. cbn [mk st_fs st_flock]. now destruct (f_lock (bump (st_fs s))).
Qed.
Theorem detached_drop_reopens : forall v, restore_keeps_lock_name v = true -> detached_drop_closes v = true ->
  detached_drop_reopens_stmt v.
Proof.
  intros v K D ops o r o' p' opts' s H P s1 N V s2.
  destruct (detached_drop_releases v K D ops o r H P) as [_ [_ [F1 _]]]. fold s in F1. fold s1 in F1.
  now apply open_free_live.
Qed.

(* the state "dropped but kept alive by the background tasks" is unreachable for the repaired code *)
Definition NoDet (s : state) : Prop := forall o r, st_op s o = Some r -> o_pc r <> PDetached.
Lemma nodet_step_opener : forall v s o r, NoDet s -> st_op s o = Some r -> NoDet (step_opener v s o r).
Proof.
  intros v s o r L H. pose proof (L o r H) as Lo.
  unfold step_opener. destruct (o_pc r); try exact L;
    repeat match goal with |- context [if ?c then _ else _] => destruct c
                      | |- context [match lk_find ?t ?i with _ => _ end] => destruct (lk_find t i) end;
    intros o1 r1; cbn; intro H1; look o1 o; inv_eq; cbn; eauto; discriminate.
Qed.
Lemma nodet_apply : forall v s a, detached_drop_closes v = true -> NoDet s -> NoDet (apply_op v s a).
Proof.
  intros v s a D L. destruct a as [o p opts | o | o | o | o | o | o | p | o | o]; unfold apply_op.
  - destruct (st_op s o) eqn:H; [exact L|]. intros o1 r1; cbn; intro H1; look o1 o; inv_eq; cbn; eauto; discriminate.
  - destruct (st_op s o) eqn:H; [|exact L]. now apply nodet_step_opener.
  - destruct (st_op s o) as [r|] eqn:H; [|exact L]. destruct (o_pc r); try exact L.
    intros o1 r1; cbn; intro H1; look o1 o; inv_eq; cbn; eauto; discriminate.
  - destruct (st_op s o) as [r|] eqn:H; [|exact L]. destruct (o_pc r); try exact L;
    intros o1 r1; cbn; intro H1; look o1 o; inv_eq; cbn; eauto; discriminate.
  - destruct (st_op s o) as [r|] eqn:H; [|exact L]. rewrite D. destruct (o_pc r); try exact L;
    intros o1 r1; cbn; intro H1; look o1 o; inv_eq; cbn; eauto; discriminate.
  - destruct (st_op s o) as [r|] eqn:H; [|exact L]. destruct (o_pc r); try exact L;
    intros o1 r1; cbn; intro H1; look o1 o; inv_eq; cbn; eauto; discriminate.
  - destruct (st_op s o) as [r|] eqn:H; [|exact L]. destruct (o_pc r); exact L.
  - intros o1 r1. cbn. unfold kill_map. destruct (st_op s o1) as [r0|] eqn:H1; [|discriminate].
    destruct (Nat.eqb (o_proc r0) p); [discriminate|]. intro. inv_eq. eauto.
  - destruct (st_op s o) as [r|] eqn:H; [|exact L]. destruct (o_pc r); exact L.
  - destruct (st_op s o) as [r|] eqn:H; [|exact L]. destruct (o_pc r); try exact L.
    destruct (restore_keeps_lock_name v);
    intros o1 r1; cbn; intro H1; look o1 o; inv_eq; cbn; eauto; discriminate.
Qed.
Lemma nodet_run : forall v ops s, detached_drop_closes v = true -> NoDet s -> NoDet (run v ops s).
Proof.
  intros v ops. induction ops as [|a ops IH]; intros s D L; [exact L|].
  rewrite run_cons. apply IH; auto. now apply nodet_apply.
Qed.
Theorem never_detached : forall v, detached_drop_closes v = true -> never_detached_stmt v.
Proof.
  intros v D ops o X. unfold pc_of in X. destruct (st_op (run v ops s0) o) as [r|] eqn:H; [|discriminate].
  inv_eq. revert H1. eapply (nodet_run v ops s0 D); eauto. intros o1 r1 H1. discriminate H1.
Qed.
Theorem runtime_gone_changes_nothing : forall v, detached_drop_closes v = true -> runtime_gone_changes_nothing_stmt v.
Proof.
  intros v D ops o s. rewrite run_cons, run_nil. unfold apply_op.
  destruct (st_op s o) as [r|] eqn:H; [|reflexivity]. destruct (o_pc r) eqn:P; try reflexivity.
  exfalso. apply (never_detached v D ops o). unfold pc_of. fold s. now rewrite H, P.
Qed.

(* ------------------------------------------------------------------ 4'. nobody but the owner modifies *)
Definition layout (vl vr : bool) (s : state) : Prop :=
  forall o r, st_op s o = Some r -> op_vlog (o_opts r) = vl /\ op_ver (o_opts r) = vr.

Lemma layout_step_opener : forall v vl vr s o r, layout vl vr s -> st_op s o = Some r -> layout vl vr (step_opener v s o r).
Proof.
  intros v vl vr s o r L H. pose proof (L o r H) as Lo.
  unfold step_opener. destruct (o_pc r); try exact L;
    repeat match goal with |- context [if ?c then _ else _] => destruct c
                      | |- context [match lk_find ?t ?i with _ => _ end] => destruct (lk_find t i) end;
    intros o1 r1; cbn; intro H1; look o1 o; inv_eq; cbn; eauto.
Qed.
Lemma layout_apply : forall v vl vr s a, layout vl vr s ->
  (forall o p opts, a = OBegin o p opts -> op_vlog opts = vl /\ op_ver opts = vr) ->
  layout vl vr (apply_op v s a).
Proof.
  intros v vl vr s a L HB. destruct a as [o p opts | o | o | o | o | o | o | p | o | o]; unfold apply_op.
  - destruct (st_op s o) eqn:H; [exact L|]. intros o1 r1; cbn; intro H1; look o1 o; inv_eq; cbn; eauto.
  - destruct (st_op s o) eqn:H; [|exact L]. now apply layout_step_opener.
  - destruct (st_op s o) as [r|] eqn:H; [|exact L]. pose proof (L o r H). destruct (o_pc r); try exact L.
    intros o1 r1; cbn; intro H1; look o1 o; inv_eq; cbn; eauto.
  - destruct (st_op s o) as [r|] eqn:H; [|exact L]. pose proof (L o r H). destruct (o_pc r); try exact L;
    try destruct (detached_drop_closes v);
    intros o1 r1; cbn; intro H1; look o1 o; inv_eq; cbn; eauto.
  - destruct (st_op s o) as [r|] eqn:H; [|exact L]. pose proof (L o r H). destruct (o_pc r); try exact L;
    try destruct (detached_drop_closes v);
    intros o1 r1; cbn; intro H1; look o1 o; inv_eq; cbn; eauto.
  - destruct (st_op s o) as [r|] eqn:H; [|exact L]. pose proof (L o r H). destruct (o_pc r); try exact L;
    try destruct (detached_drop_closes v);
    intros o1 r1; cbn; intro H1; look o1 o; inv_eq; cbn; eauto.
  - destruct (st_op s o) as [r|] eqn:H; [|exact L]. destruct (o_pc r); exact L.
  - intros o1 r1. cbn. unfold kill_map. destruct (st_op s o1) as [r0|] eqn:H1; [|discriminate].
    destruct (Nat.eqb (o_proc r0) p); [discriminate|]. intro. inv_eq. eauto.
  - destruct (st_op s o) as [r|] eqn:H; [|exact L]. destruct (o_pc r); exact L.
  - destruct (st_op s o) as [r|] eqn:H; [|exact L]. pose proof (L o r H). destruct (o_pc r); try exact L.
    destruct (restore_keeps_lock_name v);
    intros o1 r1; cbn; intro H1; look o1 o; inv_eq; cbn; eauto.
Qed.

Definition tracked (s : state) : Prop := fold_left quiet_ev (st_log s) (Some None) = Some (lock_owner s).

Lemma tracked_step : forall v vl vr s a,
  trunc_on_open v = false -> Inv v s -> (subdirs_before_lock v = true -> layout vl vr s) -> tracked s ->
  exists b, fold_left quiet_ev (st_log (apply_op v s a)) (Some None) = Some b.
Proof.
  intros v vl vr s a T I L Q. unfold tracked in Q.
  destruct a as [o p opts | o | o | o | o | o | o | p | o | o]; unfold apply_op;
    try (destruct (st_op s o) as [r|] eqn:H; [|eauto]).
  - eauto.
  - (* OStep *)
    unfold step_opener. destruct (o_pc r) eqn:P; eauto; cbn; rewrite ?fold_left_app, ?Q; cbn; eauto.
    + destruct (op_valid (o_opts r)); cbn; rewrite ?fold_left_app, ?Q; cbn; eauto.
    + (* create_directory_structure *)
      destruct (lock_owner s) as [x|] eqn:F.
      * destruct (owner_created v s x I F) as [B _].
        destruct (inv_owner v s I x F) as [rx [Hx Cx]].
        assert (E : fs_dirs v (st_fs s) (o_opts r) = st_fs s).
        { apply fs_dirs_same; auto. intro SB.
          destruct (inv_sub v s I x rx Hx (past_dirs_validated _ (critical_past_dirs _ Cx)) SB) as [A [C D]].
          destruct (L SB x rx Hx) as [Lx1 Lx2]. destruct (L SB o r H) as [Lo1 Lo2].
          unfold wanted_present. rewrite A. cbn. apply andb_true_intro. split.
          - destruct (op_vlog (o_opts r)) eqn:E1; cbn; auto. apply C. congruence.
          - destruct (op_ver (o_opts r)) eqn:E2; cbn; auto. apply D. congruence. }
        rewrite E, dirs_eqb_refl. cbn. eauto.
      * destruct (negb _); eauto.
    + (* open LOCK *)
      destruct (lock_owner s) as [x|] eqn:F.
      * destruct (owner_created v s x I F) as [_ Lk].
        rewrite (lock_after_open_same v _ T Lk), lcontent_eqb_refl. cbn. eauto.
      * destruct (negb _); eauto.
    + destruct (lk_find (st_flock s) (o_ino r)); cbn; rewrite ?fold_left_app, ?Q; cbn; eauto.
  - destruct (o_pc r); eauto; try destruct (detached_drop_closes v); cbn; rewrite ?fold_left_app, ?Q; cbn; eauto.
  - destruct (o_pc r); eauto; try destruct (detached_drop_closes v); cbn; rewrite ?fold_left_app, ?Q; cbn; eauto.
  - destruct (o_pc r); eauto; try destruct (detached_drop_closes v); cbn; rewrite ?fold_left_app, ?Q; cbn; eauto.
  - destruct (o_pc r); eauto; try destruct (detached_drop_closes v); cbn; rewrite ?fold_left_app, ?Q; cbn; eauto.
  - destruct (o_pc r); eauto; try destruct (detached_drop_closes v); cbn; rewrite ?fold_left_app, ?Q; cbn; eauto.
  - cbn [mk st_log]. rewrite fold_left_app, Q.
    destruct (lock_owner s) as [x|] eqn:F.
    + destruct (inv_held v s x I F) as [TT _]. rewrite TT. unfold kill_log. cbn [flat_map snd].
      destruct (dies (st_op s) p x); cbn; eauto.
    + rewrite (inv_free v s I F). cbn. eauto.
  - destruct (o_pc r); eauto; cbn; rewrite ?fold_left_app, ?Q; cbn; eauto.
  - (* ORestore: by the owner *)
    destruct (o_pc r) eqn:P; eauto.
    assert (F : lock_owner s = Some o) by (eapply (inv_crit v s I); eauto; now rewrite P).
    destruct (restore_keeps_lock_name v); cbn; rewrite ?fold_left_app, ?Q, F; cbn; rewrite ?Nat.eqb_refl; eauto.
Qed.

Lemma no_foreign_modification_gen : forall v vl vr, restore_keeps_lock_name v = true -> trunc_on_open v = false ->
  forall ops s, Inv v s -> (subdirs_before_lock v = true -> layout vl vr s) -> tracked s ->
  (subdirs_before_lock v = true -> same_layout vl vr ops) ->
  tracked (run v ops s).
Proof.
  intros v vl vr K T. induction ops as [|a ops IH]; intros s I L Q SL; [exact Q|].
  rewrite run_cons. apply IH.
  - now apply inv_apply.
  - intro SB. apply layout_apply; auto. intros o p opts ->. apply (SL SB o p opts). now left.
  - destruct (tracked_step v vl vr s a T I L Q) as [b B]. unfold tracked. rewrite B. f_equal.
    apply (inv_quiet_track v _ (inv_apply v K s a I) b B).
  - intros SB o p opts X. apply (SL SB o p opts). now right.
Qed.

Theorem no_foreign_modification_all : forall v, restore_keeps_lock_name v = true ->
  trunc_on_open v = false -> subdirs_before_lock v = false ->
  no_foreign_modification_stmt v.
Proof.
  intros v K T S ops. unfold quiet.
  assert (X : tracked (run v ops s0)).
  { apply (no_foreign_modification_gen v false false K T); try (intro X; rewrite S in X; discriminate X);
      [apply inv_s0 | reflexivity]. }
  unfold tracked in X. now rewrite X.
Qed.
Theorem no_foreign_modification_fixed_dirs : no_foreign_modification_stmt fixed_dirs.
Proof.
  intros ops. unfold quiet.
  assert (X : tracked (run fixed_dirs ops s0)).
  { apply (no_foreign_modification_gen fixed_dirs false false eq_refl eq_refl); try discriminate; [apply inv_s0 | reflexivity]. }
  unfold tracked in X. now rewrite X.
Qed.
Theorem no_foreign_modification_same_layout_fixed : no_foreign_modification_same_layout_stmt fixed.
Proof.
  intros vl vr ops SL. unfold quiet.
  assert (X : tracked (run fixed ops s0)).
  { apply (no_foreign_modification_gen fixed vl vr eq_refl eq_refl); auto; [apply inv_s0 | intros _ o r; discriminate | reflexivity]. }
  unfold tracked in X. now rewrite X.
Qed.
(* the pinned code: opener 2's open() empties LOCK while opener 1 owns the lock *)
Theorem no_foreign_modification_refuted_pinned :
  quiet (st_log (run pinned (wit_ops ++ open_ops 2 0 plain) s0)) = false /\
  same_layout false false (wit_ops ++ open_ops 2 0 plain).
Proof.
  split; [vm_compute; reflexivity|].
  intros o p opts H. vm_compute in H.
  repeat (destruct H as [H|H]; [try discriminate H; inversion H; subst; split; reflexivity|]). destruct H.
Qed.

(* ------------------------------------------------------------------ what a failed open can change at most *)
Lemma dirs_le_refl : forall f, dirs_le f f = true.
Proof. intros [[|] [|] [|] [|] l i n d]; reflexivity. Qed.
Lemma dirs_le_fs_dirs : forall v f o, dirs_le f (set_lock (fs_dirs v f o) (lock_after_open v (f_lock (fs_dirs v f o)))) = true.
Proof.
  intros v [[|] [|] [|] [|] l i n d] [va [|] [|]]; unfold fs_dirs; destruct (subdirs_before_lock v); reflexivity.
Qed.
Theorem refused_open_outside_known : forall v, restore_keeps_lock_name v = true -> refused_open_outside_known_stmt v.
Proof.
  intros v K ops o p opts s N s' N'. pose proof (inv_reach v K ops) as I. fold s in I. subst s'.
  destruct (op_valid opts) eqn:V.
  - destruct (lock_owner s) as [hh|] eqn:F.
    + destruct (open_refused v s o p opts hh N V F) as [m' E].
      pose proof (held_open_refused v ops hh o p opts F N) as [_ LO]. fold s in LO.
      rewrite E in *. cbn [mk st_fs st_log st_flock].
      destruct (owner_created v s hh I F) as [B L].
      repeat split.
      * unfold fs_lockopen, fs_dirs. destruct (subdirs_before_lock v); reflexivity.
      * rewrite !filter_data_snoc; reflexivity.
      * unfold fs_lockopen. cbn [set_lock f_lock]. rewrite f_lock_fs_dirs. unfold lock_after_open.
        destruct (f_lock (st_fs s)); auto. destruct (trunc_on_open v); auto. destruct (trunc_on_open v); auto.
      * unfold fs_lockopen. cbn [set_lock f_lock_ino]. apply f_lock_ino_fs_dirs.
      * unfold fs_lockopen, fs_dirs. destruct (subdirs_before_lock v); cbn; now rewrite B.
      * apply dirs_le_fs_dirs.
      * intro W. unfold fs_lockopen. rewrite (fs_dirs_same v (st_fs s) opts B (fun _ => W)).
        unfold dirs_eqb. cbn. now rewrite !eqb_reflx.
      * exact LO.
    + destruct (open_free v s o p opts N V (inv_free v s I F)) as [m' [l' E]]. rewrite E in N'. cbn [mk st_op] in N'. rewrite upd_eq in N'. discriminate.
  - rewrite (open_invalid v s o p opts N V). cbn [mk st_fs st_log st_flock]. repeat split; auto.
    + now rewrite filter_data_snoc.
    + apply dirs_le_refl.
    + intros _. apply dirs_eqb_refl.
Qed.

(* ------------------------------------------------------------------ 5. checkpoint / restore of a live store *)
(* the steps of one opener leave every other opener's record alone *)
Lemma step_frame : forall v s o y, y <> o -> st_op (apply_op v s (OStep o)) y = st_op s y.
Proof.
  intros v s o y Ne. unfold apply_op. destruct (st_op s o) as [r|] eqn:H; [|reflexivity].
  unfold step_opener. destruct (o_pc r); try reflexivity;
    repeat match goal with |- context [if ?c then _ else _] => destruct c
                      | |- context [match lk_find ?t ?i with _ => _ end] => destruct (lk_find t i) end;
    cbn [mk st_op]; now rewrite upd_neq.
Qed.
Lemma steps_frame : forall v n s o y, y <> o -> st_op (run v (repeat (OStep o) n) s) y = st_op s y.
Proof.
  induction n as [|n IH]; intros s o y Ne; [reflexivity|].
  cbn [repeat]. rewrite run_cons, IH by assumption. now apply step_frame.
Qed.
Lemma open_frame : forall v s o p opts y, y <> o -> st_op (run v (open_ops o p opts) s) y = st_op s y.
Proof.
  intros v s o p opts y Ne. unfold open_ops. rewrite run_cons, steps_frame by assumption.
  unfold apply_op. destruct (st_op s o); [reflexivity|]. cbn [mk st_op]. now rewrite upd_neq.
Qed.

(* the whole restore call on a live store, computed *)
Lemma restore_run : forall v s o r, restore_keeps_lock_name v = true -> st_op s o = Some r -> o_pc r = PLive ->
  run v (restore_ops o) s =
  mk (upd (upd (st_op s) o (Some (at_pc r PRestoring 1))) o (Some (at_pc (at_pc r PRestoring 1) PLive 1)))
     (st_flock s) (bump (bump (st_fs s))) ((st_log s ++ [EvData o KRestore]) ++ [EvData o KReload]).
Proof.
  intros v s o r K H P. unfold restore_ops. rewrite run_cons. unfold apply_op at 1. rewrite H, P, K.
  rewrite run_cons, apply_step_some, run_nil. reflexivity.
Qed.

Theorem restore_keeps_lock : forall v, restore_keeps_lock_name v = true -> restore_keeps_lock_stmt v.
Proof.
  intros v K ops o r o' p' opts' s H P s1.
  pose proof (inv_reach v K ops) as I. fold s in I.
  assert (F : lock_owner s = Some o) by (eapply (inv_crit v s I); eauto; now rewrite P).
  assert (NA : f_lock (st_fs s) <> LAbsent) by (eapply (inv_lockfile v s I); eauto; now rewrite P).
  assert (EI : o_ino r = f_lock_ino (st_fs s)) by (eapply (inv_ino v s I); eauto; now rewrite P).
  assert (E1 : s1 = mk (upd (upd (st_op s) o (Some (at_pc r PRestoring 1))) o (Some (at_pc (at_pc r PRestoring 1) PLive 1)))
                       (st_flock s) (bump (bump (st_fs s))) ((st_log s ++ [EvData o KRestore]) ++ [EvData o KReload]))
    by (now apply restore_run).
  assert (L1 : is_live s1 o = true) by (rewrite E1; unfold is_live, pc_of; cbn [mk st_op]; now rewrite upd_eq).
  assert (F1 : lock_owner s1 = Some o) by (rewrite E1; exact F).
  split; [exact L1|]. split; [exact F1|].
  split; [rewrite E1; reflexivity|]. split; [rewrite E1; exact NA|]. split; [rewrite E1; reflexivity|].
  split; [rewrite E1; reflexivity|]. split; [rewrite E1; symmetry; exact EI|].
  intros N s2.
  assert (Ne : o <> o').
  { intros ->. unfold is_live, pc_of in L1. rewrite N in L1. discriminate. }
  assert (R : s1 = run v (ops ++ restore_ops o) s0) by (now rewrite run_app).
  pose proof (held_open_refused v (ops ++ restore_ops o) o o' p' opts') as X. cbn zeta in X. rewrite <- R in X.
  destruct (X F1 N) as [X1 X2]. fold s2 in X1, X2. repeat split; auto.
  unfold is_live, pc_of. subst s2. rewrite open_frame by assumption. exact L1.
Qed.

(* a checkpoint (whatever the variant, whatever the state): LOCK, the lock table and every opener are as before *)
Theorem checkpoint_keeps_lock : forall v, checkpoint_keeps_lock_stmt v.
Proof.
  intros v ops o s s1. subst s1. rewrite run_cons, run_nil. unfold apply_op.
  destruct (st_op s o) as [r|]; [destruct (o_pc r)|];
    repeat split; try reflexivity; try apply dirs_eqb_refl.
  cbn [mk st_fs]. unfold dirs_eqb. cbn [bump f_base f_std f_vlog f_ver]. now rewrite !eqb_reflx.
Qed.

(* ---- regression record of the seeded change C19d: a restore that also removes the name LOCK ---- *)
(* opener 1 (process 0) is live; it restores itself from a checkpoint: it stays live and keeps its flock — on an inode
   that has no name any more; opener 2 (process 1) finds no LOCK, creates a new inode, locks it, and is live too *)
Definition wit_two_live : list op := Eval vm_compute in wit_ops ++ [OCommit 1; OCheckpoint 1; OCommit 1] ++ restore_ops 1 ++ open_ops 2 1 plain.
Theorem restore_unlinks_two_live :
  let s := run restore_unlinks (wit_ops ++ [OCommit 1; OCheckpoint 1; OCommit 1]) s0 in
  let s1 := run restore_unlinks (restore_ops 1) s in
  let s2 := run restore_unlinks (open_ops 2 1 plain) s1 in
  is_live s 1 = true /\ lock_owner s = Some 1 /\ f_lock (st_fs s) = LPid 0 /\ f_lock_ino (st_fs s) = 1 /\ lock_identity s 1 = IdSame /\
  is_live s1 1 = true /\ f_lock (st_fs s1) = LAbsent /\ lock_owner s1 = None /\ st_flock s1 = [(1, 1)] /\ lock_identity s1 1 = IdAbsent /\
  is_live s2 1 = true /\ is_live s2 2 = true /\ in_critical s2 1 = true /\ in_critical s2 2 = true /\
  lock_owner s2 = Some 2 /\ st_flock s2 = [(2, 2); (1, 1)] /\ f_lock (st_fs s2) = LPid 1 /\ f_lock_ino (st_fs s2) = 2 /\
  lock_identity s2 1 = IdChanged /\ lock_identity s2 2 = IdSame /\
  s2 = run restore_unlinks wit_two_live s0.
Proof. vm_compute. repeat split; reflexivity. Qed.
Corollary mutual_exclusion_fails_restore_unlinks :
  ~ mutual_exclusion_stmt restore_unlinks /\ ~ restore_keeps_lock_stmt restore_unlinks.
Proof.
  split; intro H.
  - assert (X := H wit_two_live 1 2). vm_compute in X. specialize (X eq_refl eq_refl). discriminate.
  - assert (X := H wit_ops 1 {| o_proc := 0; o_opts := plain; o_pc := PLive; o_fds := 1; o_ino := 1 |} 2 1 plain).
    vm_compute in X. specialize (X eq_refl eq_refl). destruct X as [_ [X _]]. discriminate.
Qed.
(* ... and so for every variant without the property of the restore (all four fields split: 8 closed cases) *)
Theorem mutual_exclusion_refuted_without_keep : forall v, restore_keeps_lock_name v = false -> ~ mutual_exclusion_stmt v.
Proof.
  intros v K H. assert (X := H wit_two_live 1 2).
  destruct v as [[|] [|] [|] [|]]; try discriminate K;
    vm_compute in X; specialize (X eq_refl eq_refl); discriminate.
Qed.
(* the same script on the code as it is: opener 2 is refused, LOCK is the inode opener 1 locked *)
Theorem restore_witness_fixed_drop :
  let s := run fixed_drop (wit_ops ++ [OCommit 1; OCheckpoint 1; OCommit 1]) s0 in
  let s1 := run fixed_drop (restore_ops 1) s in
  let s2 := run fixed_drop (open_ops 2 1 plain) s1 in
  is_live s 1 = true /\ lock_owner s = Some 1 /\
  is_live s1 1 = true /\ f_lock (st_fs s1) = LPid 0 /\ lock_owner s1 = Some 1 /\ st_flock s1 = [(1, 1)] /\ lock_identity s1 1 = IdSame /\
  is_live s2 1 = true /\ st_op s2 2 = None /\ last (st_log s2) (EvGone 0) = EvRefused 2 /\
  lock_owner s2 = Some 1 /\ st_flock s2 = [(1, 1)] /\ st_fs s2 = st_fs s1 /\
  f_data (st_fs s1) = S (S (f_data (st_fs s))).
Proof. vm_compute. repeat split; reflexivity. Qed.
(* a concrete script with a restore on the code as it is: opener 1 (process 7) opens, commits, checkpoints, commits, restores
   itself — between the two halves of the restore and after it opener 2 (process 8) is refused and LOCK is untouched; opener 1
   commits again, closes; then opener 2 gets in *)
Theorem restore_example_fixed_drop :
  let s := run fixed_drop (open_ops 1 7 plain ++ [OCommit 1; OCheckpoint 1; OCommit 1]) s0 in
  let sm := run fixed_drop ([ORestore 1] ++ open_ops 2 8 plain) s in
  let s1 := run fixed_drop [OStep 1] sm in
  let s2 := run fixed_drop (open_ops 2 8 plain ++ [OCommit 1]) s1 in
  let s3 := run fixed_drop (close_ops 1 ++ open_ops 2 8 plain) s2 in
  is_live s 1 = true /\ lock_owner s = Some 1 /\ lock_identity s 1 = IdSame /\
  pc_of sm 1 = Some PRestoring /\ st_op sm 2 = None /\ lock_owner sm = Some 1 /\ last (st_log sm) (EvGone 0) = EvRefused 2 /\
  is_live s1 1 = true /\ lock_owner s1 = Some 1 /\ lock_identity s1 1 = IdSame /\ f_lock (st_fs s1) = LPid 7 /\
  is_live s2 1 = true /\ st_op s2 2 = None /\ lock_owner s2 = Some 1 /\ st_flock s2 = st_flock s /\
  f_lock (st_fs s2) = f_lock (st_fs s) /\ f_lock_ino (st_fs s2) = f_lock_ino (st_fs s) /\
  is_live s3 2 = true /\ lock_owner s3 = Some 2 /\ f_lock (st_fs s3) = LPid 8 /\ f_lock_ino (st_fs s3) = f_lock_ino (st_fs s).
Proof. vm_compute. repeat split; reflexivity. Qed.
