(* Misc/Lock_proofs.v — proofs of the statements of LockSpec.v (and refutations with concrete
   witnesses) for the variants of Misc/Lock.v.  Invariants by induction over arbitrary operation
   sequences. *)
From Coq Require Import List Bool Arith Lia.
From SKV Require Import Misc.Lock Misc.LockSpec.
Import ListNotations.

(* ------------------------------------------------------------------ basics *)
Lemma upd_eq : forall m o x, upd m o x o = x.
Proof. intros. unfold upd. now rewrite Nat.eqb_refl. Qed.
Lemma upd_neq : forall m o x y, y <> o -> upd m o x y = m y.
Proof. intros. unfold upd. destruct (Nat.eqb_spec y o); [contradiction | reflexivity]. Qed.

Lemma run_app : forall v a b s, run v (a ++ b) s = run v b (run v a s).
Proof. intros. unfold run. apply fold_left_app. Qed.
Lemma run_snoc : forall v a x s, run v (a ++ [x]) s = apply_op v (run v a s) x.
Proof. intros. rewrite run_app. reflexivity. Qed.
Lemma run_cons : forall v x a s, run v (x :: a) s = run v a (apply_op v s x).
Proof. reflexivity. Qed.
Lemma run_nil : forall v s, run v [] s = s.
Proof. reflexivity. Qed.

Lemma holds_true : forall h o, holds h o = true <-> h = Some o.
Proof.
  intros [x|] o; simpl; split; intro H; try discriminate.
  - apply Nat.eqb_eq in H. now subst.
  - inversion H. apply Nat.eqb_refl.
Qed.
Lemma unlock_self : forall o, unlock (Some o) o = None.
Proof. intros. simpl. now rewrite Nat.eqb_refl. Qed.
Lemma unlock_other : forall h o x, h = Some x -> x <> o -> unlock h o = h.
Proof. intros. subst. simpl. destruct (Nat.eqb_spec x o); [contradiction | reflexivity]. Qed.

Lemma set_lock_same : forall f, set_lock f (f_lock f) = f.
Proof. now destruct f. Qed.
Lemma mk_base_same : forall f, f_base f = true -> mk_base f = f.
Proof. destruct f; simpl; intros; now subst. Qed.
Lemma mk_sub_same : forall f o, f_std f = true -> (op_vlog o = true -> f_vlog f = true) -> (op_ver o = true -> f_ver f = true) ->
  mk_sub f o = f.
Proof.
  destruct f as [b sd vl vr lk d]; simpl; intros o H1 H2 H3; subst. unfold mk_sub; simpl. f_equal.
  - destruct (op_vlog o); [rewrite H2 by reflexivity|]; now rewrite ?orb_true_r, ?orb_false_r.
  - destruct (op_ver o); [rewrite H3 by reflexivity|]; now rewrite ?orb_true_r, ?orb_false_r.
Qed.
Lemma dirs_eqb_refl : forall f, dirs_eqb f f = true.
Proof. intros. unfold dirs_eqb. now rewrite !eqb_reflx. Qed.
Lemma lcontent_eqb_refl : forall c, lcontent_eqb c c = true.
Proof. destruct c; simpl; auto. apply Nat.eqb_refl. Qed.

(* ------------------------------------------------------------------ invariants *)
Definition past_validated (p : pc) : bool := match p with PStart | PValidated => false | _ => true end.
Definition past_dirs (p : pc) : bool := match p with PStart | PValidated | PDirs => false | _ => true end.

Record Inv (v : variant) (s : state) : Prop := {
  (* an opener between lock and release is the kernel's lock owner *)
  inv_crit : forall o r, st_op s o = Some r -> critical (o_pc r) = true -> st_flock s = Some o;
  (* the kernel's lock owner is an existing opener between lock and release *)
  inv_owner : forall h, st_flock s = Some h -> exists r, st_op s h = Some r /\ critical (o_pc r) = true;
  (* the ghost log brackets agree with the lock table *)
  inv_scan : scan (st_log s) = Some (st_flock s);
  inv_quiet_track : forall a, fold_left quiet_ev (st_log s) (Some None) = Some a -> a = st_flock s;
  (* what an opener has created stays *)
  inv_base : forall o r, st_op s o = Some r -> past_validated (o_pc r) = true -> f_base (st_fs s) = true;
  inv_lockfile : forall o r, st_op s o = Some r -> past_dirs (o_pc r) = true -> f_lock (st_fs s) <> LAbsent;
  inv_sub : forall o r, st_op s o = Some r -> past_validated (o_pc r) = true -> subdirs_before_lock v = true ->
            f_std (st_fs s) = true /\ (op_vlog (o_opts r) = true -> f_vlog (st_fs s) = true)
            /\ (op_ver (o_opts r) = true -> f_ver (st_fs s) = true)
}.

Lemma inv_s0 : forall v, Inv v s0.
Proof.
  intro v. constructor; simpl; intros; try discriminate; auto.
  now inversion H.
Qed.

Lemma critical_past_dirs : forall p, critical p = true -> past_dirs p = true.
Proof. destruct p; simpl; auto. Qed.
Lemma past_dirs_validated : forall p, past_dirs p = true -> past_validated p = true.
Proof. destruct p; simpl; auto. Qed.

Lemma scan_snoc : forall l e, scan (l ++ [e]) = scan_ev (scan l) e.
Proof. intros. unfold scan. now rewrite fold_left_app. Qed.
Lemma scan_app2 : forall l e1 e2, scan (l ++ [e1; e2]) = scan_ev (scan_ev (scan l) e1) e2.
Proof. intros. unfold scan. now rewrite fold_left_app. Qed.
Lemma quiet_snoc : forall l e a, fold_left quiet_ev (l ++ [e]) a = quiet_ev (fold_left quiet_ev l a) e.
Proof. intros. now rewrite fold_left_app. Qed.
Lemma quiet_app2 : forall l e1 e2 a, fold_left quiet_ev (l ++ [e1; e2]) a = quiet_ev (quiet_ev (fold_left quiet_ev l a) e1) e2.
Proof. intros. now rewrite fold_left_app. Qed.

(* fs facts preserved by every fs transformer of the model *)
Lemma fs_mono_base : forall f c o, f_base f = true ->
  f_base (set_lock f c) = true /\ f_base (bump f) = true /\ f_base (mk_base f) = true /\ f_base (mk_sub f o) = true.
Proof. intros; simpl; auto. Qed.

Ltac inv_eq :=
  repeat match goal with
  | H : Some _ = Some _ |- _ => inversion H; clear H; subst
  | H : Some _ = None |- _ => discriminate H
  | H : None = Some _ |- _ => discriminate H
  end.

(* lookup in an updated map, by cases *)
Ltac look o1 o :=
  destruct (Nat.eq_dec o1 o) as [?E|?E];
  [subst o1; rewrite ?upd_eq in * | rewrite ?(upd_neq _ _ _ _ E) in * by assumption].

Section Step.
Variable v : variant.

(* the generic shape of a transition: opener o gets record x (or disappears), the lock table
   becomes h', the fs f', the log grows by evs *)
Lemma inv_upd : forall s o (x : option opener) h' f' evs,
  Inv v s ->
  (* lock table vs the changed opener *)
  (match x with Some r' => critical (o_pc r') = true -> h' = Some o | None => True end) ->
  (forall o1, o1 <> o -> st_flock s = Some o1 -> h' = Some o1) ->
  (forall hh, h' = Some hh -> (hh = o /\ exists r', x = Some r' /\ critical (o_pc r') = true) \/ (hh <> o /\ st_flock s = Some hh)) ->
  scan (st_log s ++ evs) = Some h' ->
  (forall a, fold_left quiet_ev (st_log s ++ evs) (Some None) = Some a -> a = h') ->
  (* fs monotone *)
  (f_base (st_fs s) = true -> f_base f' = true) ->
  (f_lock (st_fs s) <> LAbsent -> f_lock f' <> LAbsent) ->
  (f_std (st_fs s) = true -> f_std f' = true) ->
  (f_vlog (st_fs s) = true -> f_vlog f' = true) ->
  (f_ver (st_fs s) = true -> f_ver f' = true) ->
  (match x with
   | Some r' => (past_validated (o_pc r') = true -> f_base f' = true) /\
                (past_dirs (o_pc r') = true -> f_lock f' <> LAbsent) /\
                (past_validated (o_pc r') = true -> subdirs_before_lock v = true ->
                   f_std f' = true /\ (op_vlog (o_opts r') = true -> f_vlog f' = true) /\ (op_ver (o_opts r') = true -> f_ver f' = true))
   | None => True end) ->
  Inv v (mk (upd (st_op s) o x) h' f' (st_log s ++ evs)).
Proof.
  intros s o x h' f' evs I Hx Hoth Hown Hscan Hq Mb Ml Ms Mv Mr Hnew.
  destruct I as [Ic Io Is Iq Ib Il Isub].
  constructor; simpl.
  - intros o1 r1 H1 C1. look o1 o.
    + subst x. now apply Hx.
    + apply Hoth; auto. eapply Ic; eauto.
  - intros hh Hh. destruct (Hown hh Hh) as [[-> [r' [-> C]]] | [Ne Hf]].
    + exists r'. rewrite upd_eq. auto.
    + destruct (Io hh Hf) as [r [A B]]. exists r. rewrite upd_neq by auto. auto.
  - exact Hscan.
  - exact Hq.
  - intros o1 r1 H1 P1. look o1 o.
    + subst x. now apply Hnew.
    + apply Mb. eapply Ib; eauto.
  - intros o1 r1 H1 P1. look o1 o.
    + subst x. now apply Hnew.
    + apply Ml. eapply Il; eauto.
  - intros o1 r1 H1 P1 SB. look o1 o.
    + subst x. now apply Hnew.
    + destruct (Isub o1 r1 H1 P1 SB) as [A [B C]]. repeat split; auto.
Qed.

(* the same when nothing is logged *)
Lemma inv_upd0 : forall s o (x : option opener) f',
  Inv v s ->
  (match x with Some r' => critical (o_pc r') = true -> st_flock s = Some o | None => True end) ->
  (forall hh, st_flock s = Some hh -> (hh = o /\ exists r', x = Some r' /\ critical (o_pc r') = true) \/ hh <> o) ->
  (f_base (st_fs s) = true -> f_base f' = true) ->
  (f_lock (st_fs s) <> LAbsent -> f_lock f' <> LAbsent) ->
  (f_std (st_fs s) = true -> f_std f' = true) ->
  (f_vlog (st_fs s) = true -> f_vlog f' = true) ->
  (f_ver (st_fs s) = true -> f_ver f' = true) ->
  (match x with
   | Some r' => (past_validated (o_pc r') = true -> f_base f' = true) /\
                (past_dirs (o_pc r') = true -> f_lock f' <> LAbsent) /\
                (past_validated (o_pc r') = true -> subdirs_before_lock v = true ->
                   f_std f' = true /\ (op_vlog (o_opts r') = true -> f_vlog f' = true) /\ (op_ver (o_opts r') = true -> f_ver f' = true))
   | None => True end) ->
  Inv v (mk (upd (st_op s) o x) (st_flock s) f' (st_log s)).
Proof.
  intros s o x f' I Hx Hown Mb Ml Ms Mv Mr Hnew.
  rewrite <- (app_nil_r (st_log s)).
  apply inv_upd; auto; rewrite ?app_nil_r.
  - intros hh Hh. destruct (Hown hh Hh) as [A|A]; auto.
  - apply (inv_scan v s I).
  - apply (inv_quiet_track v s I).
Qed.

Lemma flock_not_o : forall s o r, Inv v s -> st_op s o = Some r -> critical (o_pc r) = false ->
  forall hh, st_flock s = Some hh -> hh <> o.
Proof.
  intros s o r I H C hh Hh ->. destruct (inv_owner v s I o Hh) as [r' [A B]].
  rewrite H in A. inv_eq. congruence.
Qed.
Lemma flock_absent_not_o : forall s o, Inv v s -> st_op s o = None -> forall hh, st_flock s = Some hh -> hh <> o.
Proof.
  intros s o I H hh Hh ->. destruct (inv_owner v s I o Hh) as [r' [A B]]. congruence.
Qed.

Lemma quiet_track_some : forall s, Inv v s ->
  forall e a, quiet_ev (fold_left quiet_ev (st_log s) (Some None)) e = Some a ->
  fold_left quiet_ev (st_log s) (Some None) = Some (st_flock s).
Proof.
  intros s I e a H. destruct (fold_left quiet_ev (st_log s) (Some None)) as [b|] eqn:E; [|discriminate].
  f_equal. now apply (inv_quiet_track v s I).
Qed.

(* side conditions of inv_upd / inv_upd0, solved by shape *)
Ltac old_inv I H P :=
  solve [ eapply (inv_base v _ I); eauto; now rewrite P
        | eapply (inv_lockfile v _ I); eauto; now rewrite P
        | eapply (inv_sub v _ I); eauto; now rewrite P ].
Ltac lock_cases :=
  solve [ intros; simpl; match goal with |- context [f_lock ?f] => destruct (f_lock f) end;
          try discriminate; destruct (trunc_on_open v); discriminate ].
Ltac quiet_goal I F :=
  let a := fresh "a" in let Q := fresh "Q" in let b := fresh "b" in let E := fresh "E" in
  intros a; rewrite ?quiet_snoc, ?quiet_app2; intro Q;
  destruct (fold_left quiet_ev (st_log _) (Some None)) as [b|] eqn:E; [|discriminate Q];
  pose proof (inv_quiet_track v _ I b E); subst b; rewrite ?F in Q; simpl in Q;
  repeat match type of Q with
         | context [negb ?x] => destruct (negb x); simpl in Q
         | context [match st_flock ?s with _ => _ end] => destruct (st_flock s); simpl in Q
         | context [Nat.eqb ?x ?y] => destruct (Nat.eqb x y); simpl in Q
         end;
  inv_eq; rewrite ?F; reflexivity.
Ltac side I H P F :=
  simpl; rewrite ?F, ?unlock_self;
  first
  [ exact I
  | solve [auto]
  | solve [intros; discriminate]
  | solve [intros; simpl; auto]
  | (* owner: o not critical, table unchanged *)
    solve [ let hh := fresh in let Hh := fresh in intros hh Hh; right; first [split; [|exact Hh] |idtac];
            inv_eq; first [ eapply flock_not_o; eauto; now rewrite P | eapply flock_absent_not_o; eauto ] ]
  | (* owner: o is the owner *)
    solve [ let hh := fresh in let Hh := fresh in intros hh Hh; rewrite ?F in Hh; inv_eq; left; split; auto; eexists; split; eauto ]
  | (* others keep the lock *)
    solve [ let o1 := fresh in let Ne := fresh in let E := fresh in intros o1 Ne E; rewrite ?F in E; inv_eq; congruence ]
  | solve [ rewrite ?scan_snoc, ?scan_app2, (inv_scan v _ I), ?F; simpl; rewrite ?Nat.eqb_refl; reflexivity ]
  | solve [ quiet_goal I F ]
  | lock_cases
  | solve [ destruct (subdirs_before_lock v); simpl; auto; intros ->; apply orb_true_l ]
  | solve [ split; [|split]; intros; try discriminate; try old_inv I H P; try lock_cases;
            try (destruct (subdirs_before_lock v); simpl; old_inv I H P) ]
  | idtac ].

Lemma inv_step_opener : forall s o r, Inv v s -> st_op s o = Some r -> Inv v (step_opener v s o r).
Proof.
  intros s o r I H. unfold step_opener, fs_dirs, lock_after_open.
  destruct (o_pc r) eqn:P; try exact I.
  - (* PStart *)
    destruct (op_valid (o_opts r)).
    + apply inv_upd0; side I H P I.
    + apply inv_upd; side I H P I.
  - (* PValidated *)
    apply inv_upd; side I H P I.
    split; [|split]; try discriminate.
    + intros _. destruct (subdirs_before_lock v); reflexivity.
    + intros _ ->. simpl. repeat split; auto; intros ->; apply orb_true_r.
  - (* PDirs *)
    apply inv_upd; side I H P I.
  - (* POpened *)
    destruct (st_flock s) as [hh|] eqn:F.
    + apply inv_upd; side I H P F.
    + apply inv_upd; side I H P F.
  - (* PLocked *)
    assert (F : st_flock s = Some o) by (eapply (inv_crit v s I); eauto; now rewrite P).
    apply inv_upd; side I H P F.
  - (* PCleared *)
    assert (F : st_flock s = Some o) by (eapply (inv_crit v s I); eauto; now rewrite P).
    apply inv_upd0; side I H P F.
  - (* PCloned *)
    assert (F : st_flock s = Some o) by (eapply (inv_crit v s I); eauto; now rewrite P).
    apply inv_upd; side I H P F.
  - (* PWritten *)
    assert (F : st_flock s = Some o) by (eapply (inv_crit v s I); eauto; now rewrite P).
    apply inv_upd; side I H P F.
    split; [|split]; intros.
    + destruct (subdirs_before_lock v); simpl; old_inv I H P.
    + destruct (subdirs_before_lock v); simpl; old_inv I H P.
    + rewrite H1. simpl. old_inv I H P.
  - (* PClosing *)
    assert (F : st_flock s = Some o) by (eapply (inv_crit v s I); eauto; now rewrite P).
    apply inv_upd; side I H P F.
  - (* PDropping *)
    assert (F : st_flock s = Some o) by (eapply (inv_crit v s I); eauto; now rewrite P).
    apply inv_upd; side I H P F.
  - (* PDropClosing *)
    assert (F : st_flock s = Some o) by (eapply (inv_crit v s I); eauto; now rewrite P).
    apply inv_upd; side I H P F.
Qed.

Lemma inv_apply : forall s a, Inv v s -> Inv v (apply_op v s a).
Proof.
  intros s a I.
  destruct a as [o p opts | o | o | o | o | o | o | p]; unfold apply_op.
  - (* OBegin *)
    destruct (st_op s o) eqn:H; [exact I|].
    apply inv_upd0; side I H H I.
  - (* OStep *)
    destruct (st_op s o) eqn:H; [|exact I]. now apply inv_step_opener.
  - (* OClose *)
    destruct (st_op s o) as [r|] eqn:H; [|exact I]. destruct (o_pc r) eqn:P; try exact I.
    assert (F : st_flock s = Some o) by (eapply (inv_crit v s I); eauto; now rewrite P).
    apply inv_upd; side I H P F.
  - (* ODrop *)
    destruct (st_op s o) as [r|] eqn:H; [|exact I]. destruct (o_pc r) eqn:P; try exact I.
    + assert (F : st_flock s = Some o) by (eapply (inv_crit v s I); eauto; now rewrite P).
      apply inv_upd0; side I H P F.
    + apply inv_upd; side I H P I.
  - (* ODropDetached *)
    destruct (st_op s o) as [r|] eqn:H; [|exact I]. destruct (o_pc r) eqn:P; try exact I.
    + assert (F : st_flock s = Some o) by (eapply (inv_crit v s I); eauto; now rewrite P).
      destruct (detached_drop_closes v); apply inv_upd0; side I H P F.
    + apply inv_upd; side I H P I.
  - (* ORuntimeGone *)
    destruct (st_op s o) as [r|] eqn:H; [|exact I]. destruct (o_pc r) eqn:P; try exact I.
    assert (F : st_flock s = Some o) by (eapply (inv_crit v s I); eauto; now rewrite P).
    apply inv_upd; side I H P F.
  - (* OCommit *)
    destruct (st_op s o) as [r|] eqn:H; [|exact I]. destruct (o_pc r) eqn:P; try exact I.
    assert (F : st_flock s = Some o) by (eapply (inv_crit v s I); eauto; now rewrite P).
    pose proof (inv_scan v s I) as Hs.
    destruct I as [Ic Io Is Iq Ib Il Isub].
    constructor; simpl; auto.
    + rewrite scan_snoc, Hs, F. simpl. now rewrite Nat.eqb_refl.
    + intros a. rewrite quiet_snoc. intro Q.
      destruct (fold_left quiet_ev (st_log s) (Some None)) as [b|] eqn:E; [|discriminate].
      simpl in Q. inv_eq. now apply Iq.
  - (* OKill *)
    destruct I as [Ic Io Is Iq Ib Il Isub].
    assert (KM : forall o r, kill_map (st_op s) p o = Some r -> st_op s o = Some r /\ Nat.eqb (o_proc r) p = false).
    { intros o r. unfold kill_map. destruct (st_op s o) as [r0|]; [|discriminate].
      destruct (Nat.eqb (o_proc r0) p) eqn:E; [discriminate|]. intro. inv_eq. auto. }
    constructor; simpl.
    + intros o r H C. destruct (KM o r H) as [A B]. pose proof (Ic o r A C) as F.
      unfold kill_flock. rewrite F, A, B. reflexivity.
    + intros hh. unfold kill_flock. destruct (st_flock s) as [x|] eqn:F; [|discriminate].
      destruct (Io x eq_refl) as [r [A B]]. rewrite A.
      destruct (Nat.eqb (o_proc r) p) eqn:E; [discriminate|]. intro. inv_eq.
      exists r. unfold kill_map. rewrite A, E. auto.
    + unfold kill_log, kill_flock. destruct (st_flock s) as [x|] eqn:F.
      * destruct (Io x eq_refl) as [r [A B]]. rewrite A. destruct (Nat.eqb (o_proc r) p).
        -- rewrite scan_app2, Is. simpl. now rewrite Nat.eqb_refl.
        -- now rewrite app_nil_r.
      * now rewrite app_nil_r.
    + unfold kill_log, kill_flock. destruct (st_flock s) as [x|] eqn:F.
      * destruct (Io x eq_refl) as [r [A B]]. rewrite A. destruct (Nat.eqb (o_proc r) p).
        -- intros a. rewrite quiet_app2.
           destruct (fold_left quiet_ev (st_log s) (Some None)) as [b|] eqn:E; [|discriminate].
           simpl. intro. now inv_eq.
        -- rewrite app_nil_r. exact Iq.
      * rewrite app_nil_r. exact Iq.
    + intros o r H. destruct (KM o r H). eapply Ib; eauto.
    + intros o r H. destruct (KM o r H). eapply Il; eauto.
    + intros o r H. destruct (KM o r H). eapply Isub; eauto.
Qed.

Theorem inv_run : forall ops s, Inv v s -> Inv v (run v ops s).
Proof.
  induction ops as [|a ops IH]; intros s I; [exact I|].
  rewrite run_cons. apply IH. now apply inv_apply.
Qed.
Corollary inv_reach : forall ops, Inv v (run v ops s0).
Proof. intros. apply inv_run. apply inv_s0. Qed.

(* ------------------------------------------------------------------ 1. mutual exclusion *)
Theorem holder_is_flock_owner : holder_is_flock_owner_stmt v.
Proof.
  intros ops o s C. unfold in_critical in C. destruct (st_op s o) as [r|] eqn:H; [|discriminate].
  eapply (inv_crit v s (inv_reach ops)); eauto.
Qed.
Theorem mutual_exclusion : mutual_exclusion_stmt v.
Proof.
  intros ops o1 o2 s C1 C2.
  pose proof (holder_is_flock_owner ops o1 C1) as F1.
  pose proof (holder_is_flock_owner ops o2 C2) as F2.
  fold s in F1, F2. congruence.
Qed.

(* ------------------------------------------------------------------ 3. bracket *)
Theorem data_inside_lock : data_inside_lock_stmt v.
Proof. intros ops s. apply (inv_scan v s (inv_reach ops)). Qed.

End Step.

Lemma scan_none_absorbs : forall l, fold_left scan_ev l None = None.
Proof. induction l; simpl; auto. Qed.
Lemma scan_prefix : forall l1 l2 a, scan (l1 ++ l2) = Some a -> exists b, scan l1 = Some b.
Proof.
  intros l1 l2 a H. unfold scan in *. rewrite fold_left_app in H.
  destruct (fold_left scan_ev l1 (Some None)) as [b|]; [eauto|]. now rewrite scan_none_absorbs in H.
Qed.
Lemma scan_owner_acquired : forall l o, scan l = Some (Some o) ->
  exists la lb, l = la ++ EvAcquire o :: lb /\ ~ In (EvRelease o) lb.
Proof.
  induction l as [|e l IH] using rev_ind; intros o H; [discriminate|].
  rewrite scan_snoc in H. destruct (scan l) as [h|] eqn:E; [|discriminate].
  assert (KEEP : h = Some o -> e <> EvRelease o ->
                 exists la lb, l ++ [e] = la ++ EvAcquire o :: lb /\ ~ In (EvRelease o) lb).
  { intros -> Ne. destruct (IH o eq_refl) as [la [lb [A B]]]. exists la, (lb ++ [e]). split.
    - rewrite A, <- app_assoc. reflexivity.
    - intro X. apply in_app_or in X. destruct X as [X|[X|[]]]; [now apply B | now apply Ne]. }
  destruct e; simpl in H.
  - apply KEEP; [now inv_eq | discriminate].
  - apply KEEP; [now inv_eq | discriminate].
  - apply KEEP; [now inv_eq | discriminate].
  - destruct h; [discriminate|]. inv_eq. exists l, []. split; auto.
  - apply KEEP; [now inv_eq | discriminate].
  - destruct (holds h o0); [|discriminate]. apply KEEP; [now inv_eq | discriminate].
  - destruct (holds h o0); [|discriminate]. apply KEEP; [now inv_eq | discriminate].
  - destruct (holds h o0); discriminate.
  - apply KEEP; [now inv_eq | discriminate].
Qed.

Theorem lock_before_recovery : forall v, lock_before_recovery_stmt v.
Proof.
  intros v ops l1 l2 o k H.
  pose proof (data_inside_lock v ops) as S. simpl in S. rewrite H in S.
  replace (l1 ++ EvData o k :: l2) with ((l1 ++ [EvData o k]) ++ l2) in S by (rewrite <- app_assoc; reflexivity).
  destruct (scan_prefix _ _ _ S) as [b B]. rewrite scan_snoc in B.
  destruct (scan l1) as [h|] eqn:E; [|discriminate]. simpl in B.
  destruct (holds h o) eqn:Hh; [|discriminate]. apply holds_true in Hh. subst h.
  now apply scan_owner_acquired.
Qed.

(* ------------------------------------------------------------------ running a whole open *)
Local Arguments run : simpl never.
Local Arguments apply_op : simpl never.
Local Arguments lock_after_open : simpl never.
Local Arguments fs_dirs : simpl never.
Lemma apply_step_some : forall v m h f l o r,
  apply_op v (mk (upd m o (Some r)) h f l) (OStep o) = step_opener v (mk (upd m o (Some r)) h f l) o r.
Proof. intros. unfold apply_op. simpl. now rewrite upd_eq. Qed.
Lemma apply_step_none : forall v m h f l o,
  apply_op v (mk (upd m o None) h f l) (OStep o) = mk (upd m o None) h f l.
Proof. intros. unfold apply_op. simpl. now rewrite upd_eq. Qed.
Lemma run_steps_none : forall v n m h f l o,
  run v (repeat (OStep o) n) (mk (upd m o None) h f l) = mk (upd m o None) h f l.
Proof. induction n; intros; simpl repeat; [reflexivity|]. rewrite run_cons, apply_step_none. apply IHn. Qed.
Lemma apply_begin : forall v m h f l o p opts, m o = None ->
  apply_op v (mk m h f l) (OBegin o p opts) =
  mk (upd m o (Some {| o_proc := p; o_opts := opts; o_pc := PStart; o_fds := 0 |})) h f l.
Proof. intros. unfold apply_op. simpl. now rewrite H. Qed.
Lemma state_eta : forall s, s = mk (st_op s) (st_flock s) (st_fs s) (st_log s).
Proof. now destruct s. Qed.

(* invalid options: the attempt ends at validate() *)
Lemma open_invalid : forall v s o p opts, st_op s o = None -> op_valid opts = false ->
  run v (open_ops o p opts) s = mk (upd (upd (st_op s) o (Some {| o_proc := p; o_opts := opts; o_pc := PStart; o_fds := 0 |})) o None)
                                  (st_flock s) (st_fs s) (st_log s ++ [EvInvalid o]).
Proof.
  intros v s o p opts N V. rewrite (state_eta s) at 1. unfold open_ops. rewrite run_cons, apply_begin by assumption.
  simpl repeat. rewrite run_cons, apply_step_some. unfold step_opener. simpl. rewrite V.
  apply (run_steps_none v 7).
Qed.

(* the fs after the two steps that precede try_lock *)
Definition fs_lockopen (v : variant) (f : fs) : fs := set_lock f (lock_after_open v (f_lock f)).
Definition ev_dirs (v : variant) (f : fs) (o : oid) (opts : oopts) : event :=
  EvMkdir o (negb (dirs_eqb f (fs_dirs v f opts))).
Definition ev_lockopen (v : variant) (f : fs) (o : oid) : event :=
  EvLockOpen o (negb (lcontent_eqb (f_lock f) (lock_after_open v (f_lock f)))).

Lemma f_lock_fs_dirs : forall v f opts, f_lock (fs_dirs v f opts) = f_lock f.
Proof. intros. unfold fs_dirs. destruct (subdirs_before_lock v); reflexivity. Qed.

(* valid options, lock owned by somebody: refused at try_lock *)
Lemma open_refused : forall v s o p opts hh, st_op s o = None -> op_valid opts = true -> st_flock s = Some hh ->
  exists m', run v (open_ops o p opts) s =
    mk (upd m' o None) (Some hh) (fs_lockopen v (fs_dirs v (st_fs s) opts))
       (((st_log s ++ [ev_dirs v (st_fs s) o opts]) ++ [ev_lockopen v (fs_dirs v (st_fs s) opts) o]) ++ [EvRefused o]).
Proof.
  intros v s o p opts hh N V F. destruct s as [m h f l]. simpl in N, F. subst h. unfold open_ops, st_fs, st_log. change (Build_state m) with (mk m). rewrite run_cons, apply_begin by assumption.
  simpl repeat.
  rewrite run_cons, apply_step_some. unfold step_opener at 1. simpl. rewrite V.
  rewrite run_cons, apply_step_some. unfold step_opener at 1. simpl.
  rewrite run_cons, apply_step_some. unfold step_opener at 1. simpl.
  rewrite run_cons, apply_step_some. unfold step_opener at 1. simpl.
  repeat (rewrite run_cons, apply_step_none). rewrite run_nil. eexists. unfold fs_lockopen, ev_lockopen, ev_dirs, fs_dirs.
  reflexivity.
Qed.

(* valid options, lock free: the open runs to the end *)
Definition fs_after_open (v : variant) (f : fs) (p : proc) (opts : oopts) : fs :=
  let f3 := set_lock (set_lock (fs_lockopen v (fs_dirs v f opts)) LEmpty) (LPid p) in
  bump (if subdirs_before_lock v then f3 else mk_sub f3 opts).
Lemma open_free : forall v s o p opts, st_op s o = None -> op_valid opts = true -> st_flock s = None ->
  exists m' l', run v (open_ops o p opts) s =
    mk (upd m' o (Some {| o_proc := p; o_opts := opts; o_pc := PLive; o_fds := 1 |})) (Some o)
       (fs_after_open v (st_fs s) p opts) l'.
Proof.
  intros v s o p opts N V F. destruct s as [m h f l]. simpl in N, F. subst h. unfold open_ops, st_fs, st_log. change (Build_state m) with (mk m). rewrite run_cons, apply_begin by assumption.
  simpl repeat.
  rewrite run_cons, apply_step_some. unfold step_opener at 1. simpl. rewrite V.
  rewrite run_cons, apply_step_some. unfold step_opener at 1. simpl.
  rewrite run_cons, apply_step_some. unfold step_opener at 1. simpl.
  rewrite run_cons, apply_step_some. unfold step_opener at 1. simpl.
  rewrite run_cons, apply_step_some. unfold step_opener at 1. simpl.
  rewrite run_cons, apply_step_some. unfold step_opener at 1. simpl.
  rewrite run_cons, apply_step_some. unfold step_opener at 1. simpl.
  rewrite run_cons, apply_step_some. unfold step_opener at 1. simpl.
  rewrite run_nil. eexists. eexists. unfold fs_after_open, fs_lockopen, fs_dirs. reflexivity.
Qed.

(* ------------------------------------------------------------------ 2. release / reopen *)
Theorem free_open_succeeds : forall v, free_open_succeeds_stmt v.
Proof.
  intros v ops o' p' opts' s F N V s2.
  destruct (open_free v s o' p' opts' N V F) as [m' [l' E]]. subst s2. rewrite E.
  unfold is_live, pc_of. simpl. rewrite upd_eq. auto.
Qed.

Theorem held_open_refused : forall v, held_open_refused_stmt v.
Proof.
  intros v ops h o' p' opts' s F N s2. subst s2.
  destruct (op_valid opts') eqn:V.
  - destruct (open_refused v s o' p' opts' h N V F) as [m' E]. rewrite E. simpl. rewrite upd_eq. auto.
  - rewrite (open_invalid v s o' p' opts' N V). simpl. rewrite upd_eq. auto.
Qed.

(* each way of letting go frees the kernel's lock *)
Lemma release_frees : forall v s o r rel, Inv v s -> st_op s o = Some r -> o_pc r = PLive ->
  In rel (releases o (o_proc r)) -> st_flock (run v rel s) = None.
Proof.
  intros v s o r rel I H P R.
  assert (F : st_flock s = Some o) by (eapply (inv_crit v s I); eauto; now rewrite P).
  rewrite (state_eta s). destruct R as [<-|[<-|[<-|[]]]].
  - unfold close_ops. rewrite run_cons. unfold apply_op at 1. simpl. rewrite H, P.
    rewrite run_cons, apply_step_some. unfold step_opener. simpl. rewrite F. apply unlock_self.
  - unfold drop_ops. rewrite run_cons. unfold apply_op at 1. simpl. rewrite H, P.
    rewrite run_cons, apply_step_some. unfold step_opener at 1. simpl.
    rewrite run_cons, apply_step_some. unfold step_opener at 1. simpl. rewrite F. apply unlock_self.
  - rewrite run_cons. unfold apply_op. simpl. unfold kill_flock. rewrite F, H, Nat.eqb_refl. reflexivity.
Qed.

Theorem release_reopens : forall v, release_reopens_stmt v.
Proof.
  intros v ops o r rel o' p' opts' s H P R s1 N V s2.
  assert (F1 : st_flock s1 = None) by (eapply release_frees; eauto; apply inv_reach).
  destruct (open_free v s1 o' p' opts' N V F1) as [m' [l' E]]. subst s2. rewrite E.
  unfold is_live, pc_of. simpl. rewrite upd_eq. auto.
Qed.

(* ------------------------------------------------------------------ 4. a failed open touches nothing *)
Lemma filter_data_snoc : forall l e, is_data e = false -> filter is_data (l ++ [e]) = filter is_data l.
Proof. intros. rewrite filter_app. simpl. rewrite H. apply app_nil_r. Qed.

Lemma lock_after_open_same : forall v c, trunc_on_open v = false -> c <> LAbsent -> lock_after_open v c = c.
Proof. intros v c T N. unfold lock_after_open. rewrite T. destruct c; congruence. Qed.
Lemma wanted_present_spec : forall f o, wanted_present f o = true ->
  f_std f = true /\ (op_vlog o = true -> f_vlog f = true) /\ (op_ver o = true -> f_ver f = true).
Proof.
  intros f o H. unfold wanted_present in H. apply andb_prop in H. destruct H as [H H3]. apply andb_prop in H. destruct H as [H1 H2].
  repeat split; auto; intros E; rewrite E in *; simpl in *; auto.
Qed.
Lemma fs_dirs_same : forall v f o, f_base f = true ->
  (subdirs_before_lock v = true -> wanted_present f o = true) -> fs_dirs v f o = f.
Proof.
  intros v f o B W. unfold fs_dirs. rewrite (mk_base_same f B). destruct (subdirs_before_lock v); [|reflexivity].
  destruct (wanted_present_spec f o (W eq_refl)) as [A [C D]]. now apply mk_sub_same.
Qed.

(* the owner of the lock has created the base directory and LOCK *)
Lemma owner_created : forall v s hh, Inv v s -> st_flock s = Some hh ->
  f_base (st_fs s) = true /\ f_lock (st_fs s) <> LAbsent.
Proof.
  intros v s hh I F. destruct (inv_owner v s I hh F) as [r [A C]]. apply critical_past_dirs in C. split.
  - eapply (inv_base v s I); eauto. now apply past_dirs_validated.
  - eapply (inv_lockfile v s I); eauto.
Qed.

Lemma failed_open_touches_nothing : forall v ops o p opts,
  trunc_on_open v = false ->
  let s := run v ops s0 in
  (subdirs_before_lock v = true -> wanted_present (st_fs s) opts = true) ->
  st_op s o = None ->
  let s' := run v (open_ops o p opts) s in
  st_op s' o = None ->
  st_fs s' = st_fs s /\ filter is_data (st_log s') = filter is_data (st_log s).
Proof.
  intros v ops o p opts T s W N s' N'. pose proof (inv_reach v ops) as I. fold s in I. subst s'.
  destruct (op_valid opts) eqn:V.
  - destruct (st_flock s) as [hh|] eqn:F.
    + destruct (open_refused v s o p opts hh N V F) as [m' E]. rewrite E. simpl.
      destruct (owner_created v s hh I F) as [B L]. split.
      * unfold fs_lockopen. rewrite (fs_dirs_same v (st_fs s) opts B W).
        rewrite (lock_after_open_same v _ T L). apply set_lock_same.
      * rewrite !filter_data_snoc; reflexivity.
    + destruct (open_free v s o p opts N V F) as [m' [l' E]]. rewrite E in N'. simpl in N'. rewrite upd_eq in N'. discriminate.
  - rewrite (open_invalid v s o p opts N V). simpl. split; [reflexivity|]. now rewrite filter_data_snoc.
Qed.

(* every variant that neither truncates on open nor creates the sub-directories before the lock *)
Theorem refused_open_touches_nothing_gen : forall v, trunc_on_open v = false -> subdirs_before_lock v = false ->
  refused_open_touches_nothing_stmt v.
Proof. intros v T S ops o p opts s N s' N'. apply failed_open_touches_nothing; auto. rewrite S. discriminate. Qed.
Theorem refused_open_same_layout_touches_nothing_gen : forall v, trunc_on_open v = false ->
  refused_open_same_layout_touches_nothing_stmt v.
Proof. intros v T ops o p opts s N W s' N'. apply failed_open_touches_nothing; auto. Qed.
Theorem refused_open_touches_nothing_fixed_dirs : refused_open_touches_nothing_stmt fixed_dirs.
Proof. intros ops o p opts s N s' N'. apply failed_open_touches_nothing; auto. discriminate. Qed.
Theorem refused_open_same_layout_touches_nothing_fixed : refused_open_same_layout_touches_nothing_stmt fixed.
Proof. intros ops o p opts s N W s' N'. apply failed_open_touches_nothing; auto. Qed.
Theorem refused_open_same_layout_touches_nothing_fixed_dirs : refused_open_same_layout_touches_nothing_stmt fixed_dirs.
Proof. intros ops o p opts s N W s' N'. apply failed_open_touches_nothing; auto. Qed.

(* ---- refutations: the pinned code, and the sub-directories of `fixed` ---- *)
Definition wit_ops : list op := Eval vm_compute in open_ops 1 0 plain.
Definition wit_before_pinned : fs := Eval vm_compute in st_fs (run pinned wit_ops s0).
Definition wit_after_pinned : fs := Eval vm_compute in st_fs (run pinned (open_ops 2 0 plain) (run pinned wit_ops s0)).
(* opener 1 (process 0) holds the store; opener 2 (same options) is refused — and LOCK, which held
   the owner's pid, is empty afterwards *)
Theorem refused_open_touches_nothing_refuted_pinned :
  let s := run pinned wit_ops s0 in
  let s' := run pinned (open_ops 2 0 plain) s in
  is_live s 1 = true /\ st_op s 2 = None /\ wanted_present (st_fs s) plain = true /\ st_op s' 2 = None /\ is_live s' 1 = true /\
  st_fs s = wit_before_pinned /\ st_fs s' = wit_after_pinned /\
  f_lock wit_before_pinned = LPid 0 /\ f_lock wit_after_pinned = LEmpty /\
  last (st_log s') (EvGone 0) = EvRefused 2.
Proof. vm_compute. repeat split; reflexivity. Qed.
Corollary refused_open_touches_nothing_fails_pinned :
  ~ refused_open_touches_nothing_stmt pinned /\ ~ refused_open_same_layout_touches_nothing_stmt pinned.
Proof.
  split; intro H.
  - assert (X := H wit_ops 2 0 plain eq_refl eq_refl). destruct X as [X _]. vm_compute in X. discriminate.
  - assert (X := H wit_ops 2 0 plain eq_refl eq_refl eq_refl). destruct X as [X _]. vm_compute in X. discriminate.
Qed.

Definition opts_vlog : oopts := {| op_valid := true; op_vlog := true; op_ver := false |}.
Definition wit_before_fixed : fs := Eval vm_compute in st_fs (run fixed wit_ops s0).
Definition wit_after_fixed : fs := Eval vm_compute in st_fs (run fixed (open_ops 2 0 opts_vlog) (run fixed wit_ops s0)).
(* with `.truncate(true)` removed, a refused opener that enables the value log still creates vlog/ *)
Theorem refused_open_touches_nothing_refuted_fixed :
  let s := run fixed wit_ops s0 in
  let s' := run fixed (open_ops 2 0 opts_vlog) s in
  is_live s 1 = true /\ st_op s 2 = None /\ st_op s' 2 = None /\
  st_fs s = wit_before_fixed /\ st_fs s' = wit_after_fixed /\
  f_vlog wit_before_fixed = false /\ f_vlog wit_after_fixed = true /\ f_lock wit_after_fixed = f_lock wit_before_fixed /\
  last (st_log s') (EvGone 0) = EvRefused 2.
Proof. vm_compute. repeat split; reflexivity. Qed.
Corollary refused_open_touches_nothing_fails_fixed : ~ refused_open_touches_nothing_stmt fixed.
Proof.
  intro H. assert (X := H wit_ops 2 0 opts_vlog eq_refl eq_refl). destruct X as [X _]. vm_compute in X. discriminate.
Qed.

(* ---- a Tree dropped outside a runtime ---- *)
(* the code before the F28 repair (every variant with detached_drop_closes = false) keeps the lock: the next
   open is refused until the runtime is shut down.  Regression record. *)
Lemma drop_detached_ops_old : forall v s o r, detached_drop_closes v = false ->
  st_op s o = Some r -> o_pc r = PLive ->
  run v (drop_detached_ops o) s = run v [ODropDetached o] s.
Proof.
  intros v s o r D H P.
  assert (E : apply_op v s (ODropDetached o) = mk (upd (st_op s) o (Some (at_pc r PDetached 1))) (st_flock s) (st_fs s) (st_log s)).
  { unfold apply_op. rewrite H, P, D. reflexivity. }
  unfold drop_detached_ops. rewrite !run_cons, !run_nil, E.
  rewrite apply_step_some. unfold step_opener at 1. simpl.
  rewrite apply_step_some. unfold step_opener at 1. simpl. reflexivity.
Qed.
Theorem detached_drop_reopens_old_refuted : forall v, detached_drop_closes v = false -> ~ detached_drop_reopens_old_stmt v.
Proof.
  intros v D H.
  assert (X := H (open_ops 1 0 plain) 1 {| o_proc := 0; o_opts := plain; o_pc := PLive; o_fds := 1 |} 2 0 plain).
  destruct v as [[|] [|] [|]]; try discriminate D;
    vm_compute in X; specialize (X eq_refl eq_refl eq_refl eq_refl); discriminate.
Qed.
Theorem detached_drop_reopens_refuted : forall v, detached_drop_closes v = false -> ~ detached_drop_reopens_stmt v.
Proof.
  intros v D H.
  assert (X := H (open_ops 1 0 plain) 1 {| o_proc := 0; o_opts := plain; o_pc := PLive; o_fds := 1 |} 2 0 plain).
  destruct v as [[|] [|] [|]]; try discriminate D;
    vm_compute in X; specialize (X eq_refl eq_refl eq_refl eq_refl); destruct X as [X _]; discriminate.
Qed.
Theorem detached_drop_keeps_lock : forall v ops o r o' p' opts',
  detached_drop_closes v = false ->
  let s := run v ops s0 in
  st_op s o = Some r -> o_pc r = PLive ->
  let s1 := run v [ODropDetached o] s in
  st_op s1 o' = None ->
  st_flock s1 = Some o /\ st_op (run v (open_ops o' p' opts') s1) o' = None /\
  (op_valid opts' = true -> st_op (run v [ORuntimeGone o] s1) o' = None ->
   is_live (run v (open_ops o' p' opts') (run v [ORuntimeGone o] s1)) o' = true).
Proof.
  intros v ops o r o' p' opts' D s H P s1 N.
  pose proof (inv_reach v ops) as I. fold s in I.
  assert (F : st_flock s = Some o) by (eapply (inv_crit v s I); eauto; now rewrite P).
  assert (E1 : s1 = mk (upd (st_op s) o (Some (at_pc r PDetached 1))) (Some o) (st_fs s) (st_log s)).
  { subst s1. rewrite run_cons, run_nil. unfold apply_op. rewrite H, P, F, D. reflexivity. }
  assert (F1 : st_flock s1 = Some o) by (rewrite E1; reflexivity).
  split; [exact F1|]. split.
  - destruct (op_valid opts') eqn:V.
    + destruct (open_refused v s1 o' p' opts' o N V F1) as [m' E]. rewrite E. simpl. apply upd_eq.
    + rewrite (open_invalid v s1 o' p' opts' N V). simpl. apply upd_eq.
  - intros V N2.
    assert (F2 : st_flock (run v [ORuntimeGone o] s1) = None).
    { rewrite E1, run_cons, run_nil. unfold apply_op. simpl. rewrite upd_eq. simpl. now rewrite Nat.eqb_refl. }
    destruct (open_free v _ o' p' opts' N2 V F2) as [m' [l' E]]. rewrite E.
    unfold is_live, pc_of. simpl. now rewrite upd_eq.
Qed.

(* the record for the code as it was right before the repair (variant fixed_dirs): both forms of the statement fail,
   and concretely: opener 1 live, dropped outside its runtime -> the kernel's lock still names opener 1, opener 2
   is refused; after the runtime is gone opener 2 gets in *)
Corollary detached_drop_reopens_fails_fixed_dirs :
  ~ detached_drop_reopens_stmt fixed_dirs /\ ~ detached_drop_reopens_old_stmt fixed_dirs.
Proof. split; [apply detached_drop_reopens_refuted | apply detached_drop_reopens_old_refuted]; reflexivity. Qed.
Theorem detached_drop_witness_fixed_dirs :
  let s := run fixed_dirs wit_ops s0 in
  let s1 := run fixed_dirs (drop_detached_ops 1) s in
  let s2 := run fixed_dirs (open_ops 2 0 plain) s1 in
  let s3 := run fixed_dirs (open_ops 2 0 plain) (run fixed_dirs [ORuntimeGone 1] s2) in
  is_live s 1 = true /\ pc_of s1 1 = Some PDetached /\ st_flock s1 = Some 1 /\
  st_op s2 2 = None /\ last (st_log s2) (EvGone 0) = EvRefused 2 /\ st_fs s2 = st_fs s /\
  is_live s3 2 = true /\ st_flock s3 = Some 2.
Proof. vm_compute. repeat split; reflexivity. Qed.
(* the same script on the repaired code: opener 2 gets in at once, ORuntimeGone is not needed *)
Theorem detached_drop_witness_fixed_drop :
  let s := run fixed_drop wit_ops s0 in
  let s1 := run fixed_drop (drop_detached_ops 1) s in
  let s2 := run fixed_drop (open_ops 2 0 plain) s1 in
  is_live s 1 = true /\ pc_of s1 1 = None /\ st_flock s1 = None /\
  is_live s2 2 = true /\ st_flock s2 = Some 2 /\
  st_log s1 = st_log s ++ [EvData 1 KShutdown; EvRelease 1; EvGone 1].
Proof. vm_compute. repeat split; reflexivity. Qed.

(* the repaired code (every variant with detached_drop_closes = true): when drop() returns the store is closed,
   the opener gone, the lock free — and the next open succeeds at once *)
Theorem detached_drop_releases : forall v, detached_drop_closes v = true -> detached_drop_releases_stmt v.
Proof.
  intros v D ops o r s H P s1.
  pose proof (inv_reach v ops) as I. fold s in I.
  assert (F : st_flock s = Some o) by (eapply (inv_crit v s I); eauto; now rewrite P).
  assert (E : exists m', s1 = mk (upd m' o None) None (bump (st_fs s))
                              ((st_log s ++ [EvData o KShutdown]) ++ [EvRelease o; EvGone o])).
  { subst s1. rewrite (state_eta s). unfold drop_detached_ops.
    rewrite run_cons. unfold apply_op at 1. simpl. rewrite H, P, D.
    rewrite run_cons, apply_step_some. unfold step_opener at 1. simpl.
    rewrite run_cons, apply_step_some. unfold step_opener at 1. simpl.
    rewrite run_nil, F, unlock_self. eexists. reflexivity. }
  destruct E as [m' E]. rewrite E. simpl. rewrite upd_eq, <- app_assoc. auto.
Qed.
Theorem detached_drop_reopens : forall v, detached_drop_closes v = true -> detached_drop_reopens_stmt v.
Proof.
  intros v D ops o r o' p' opts' s H P s1 N V s2.
  destruct (detached_drop_releases v D ops o r H P) as [_ [F1 _]]. fold s in F1. fold s1 in F1.
  destruct (open_free v s1 o' p' opts' N V F1) as [m' [l' E]]. subst s2. rewrite E.
  unfold is_live, pc_of. simpl. rewrite upd_eq. auto.
Qed.

(* the state "dropped but kept alive by the background tasks" is unreachable for the repaired code *)
Definition NoDet (s : state) : Prop := forall o r, st_op s o = Some r -> o_pc r <> PDetached.
Lemma nodet_step_opener : forall v s o r, NoDet s -> st_op s o = Some r -> NoDet (step_opener v s o r).
Proof.
  intros v s o r L H. pose proof (L o r H) as Lo.
  unfold step_opener. destruct (o_pc r); try exact L;
    repeat match goal with |- context [if ?c then _ else _] => destruct c
                      | |- context [match st_flock s with _ => _ end] => destruct (st_flock s) end;
    intros o1 r1; simpl; intro H1; look o1 o; inv_eq; simpl; eauto; discriminate.
Qed.
Lemma nodet_apply : forall v s a, detached_drop_closes v = true -> NoDet s -> NoDet (apply_op v s a).
Proof.
  intros v s a D L. destruct a as [o p opts | o | o | o | o | o | o | p]; unfold apply_op.
  - destruct (st_op s o) eqn:H; [exact L|]. intros o1 r1; simpl; intro H1; look o1 o; inv_eq; simpl; eauto; discriminate.
  - destruct (st_op s o) eqn:H; [|exact L]. now apply nodet_step_opener.
  - destruct (st_op s o) as [r|] eqn:H; [|exact L]. destruct (o_pc r); try exact L.
    intros o1 r1; simpl; intro H1; look o1 o; inv_eq; simpl; eauto; discriminate.
  - destruct (st_op s o) as [r|] eqn:H; [|exact L]. destruct (o_pc r); try exact L;
    intros o1 r1; simpl; intro H1; look o1 o; inv_eq; simpl; eauto; discriminate.
  - destruct (st_op s o) as [r|] eqn:H; [|exact L]. rewrite D. destruct (o_pc r); try exact L;
    intros o1 r1; simpl; intro H1; look o1 o; inv_eq; simpl; eauto; discriminate.
  - destruct (st_op s o) as [r|] eqn:H; [|exact L]. destruct (o_pc r); try exact L;
    intros o1 r1; simpl; intro H1; look o1 o; inv_eq; simpl; eauto; discriminate.
  - destruct (st_op s o) as [r|] eqn:H; [|exact L]. destruct (o_pc r); exact L.
  - intros o1 r1. simpl. unfold kill_map. destruct (st_op s o1) as [r0|] eqn:H1; [|discriminate].
    destruct (Nat.eqb (o_proc r0) p); [discriminate|]. intro. inv_eq. eauto.
Qed.
Lemma nodet_run : forall v ops s, detached_drop_closes v = true -> NoDet s -> NoDet (run v ops s).
Proof.
  intros v ops. induction ops as [|a ops IH]; intros s D L; [exact L|].
  rewrite run_cons. apply IH; auto. now apply nodet_apply.
Qed.
Theorem never_detached : forall v, detached_drop_closes v = true -> never_detached_stmt v.
Proof.
  intros v D ops o X. unfold pc_of in X. destruct (st_op (run v ops s0) o) as [r|] eqn:H; [|discriminate].
  inv_eq. revert H1. eapply (nodet_run v ops s0 D); eauto. intros o1 r1 H1. discriminate H1.
Qed.
Theorem runtime_gone_changes_nothing : forall v, detached_drop_closes v = true -> runtime_gone_changes_nothing_stmt v.
Proof.
  intros v D ops o s. rewrite run_cons, run_nil. unfold apply_op.
  destruct (st_op s o) as [r|] eqn:H; [|reflexivity]. destruct (o_pc r) eqn:P; try reflexivity.
  exfalso. apply (never_detached v D ops o). unfold pc_of. fold s. now rewrite H, P.
Qed.

(* ------------------------------------------------------------------ 4'. nobody but the owner modifies *)
Definition layout (vl vr : bool) (s : state) : Prop :=
  forall o r, st_op s o = Some r -> op_vlog (o_opts r) = vl /\ op_ver (o_opts r) = vr.

Lemma layout_step_opener : forall v vl vr s o r, layout vl vr s -> st_op s o = Some r -> layout vl vr (step_opener v s o r).
Proof.
  intros v vl vr s o r L H. pose proof (L o r H) as Lo.
  unfold step_opener. destruct (o_pc r); try exact L;
    repeat match goal with |- context [if ?c then _ else _] => destruct c
                      | |- context [match st_flock s with _ => _ end] => destruct (st_flock s) end;
    intros o1 r1; simpl; intro H1; look o1 o; inv_eq; simpl; eauto.
Qed.
Lemma layout_apply : forall v vl vr s a, layout vl vr s ->
  (forall o p opts, a = OBegin o p opts -> op_vlog opts = vl /\ op_ver opts = vr) ->
  layout vl vr (apply_op v s a).
Proof.
  intros v vl vr s a L HB. destruct a as [o p opts | o | o | o | o | o | o | p]; unfold apply_op.
  - destruct (st_op s o) eqn:H; [exact L|]. intros o1 r1; simpl; intro H1; look o1 o; inv_eq; simpl; eauto.
  - destruct (st_op s o) eqn:H; [|exact L]. now apply layout_step_opener.
  - destruct (st_op s o) as [r|] eqn:H; [|exact L]. pose proof (L o r H). destruct (o_pc r); try exact L.
    intros o1 r1; simpl; intro H1; look o1 o; inv_eq; simpl; eauto.
  - destruct (st_op s o) as [r|] eqn:H; [|exact L]. pose proof (L o r H). destruct (o_pc r); try exact L;
    try destruct (detached_drop_closes v);
    intros o1 r1; simpl; intro H1; look o1 o; inv_eq; simpl; eauto.
  - destruct (st_op s o) as [r|] eqn:H; [|exact L]. pose proof (L o r H). destruct (o_pc r); try exact L;
    try destruct (detached_drop_closes v);
    intros o1 r1; simpl; intro H1; look o1 o; inv_eq; simpl; eauto.
  - destruct (st_op s o) as [r|] eqn:H; [|exact L]. pose proof (L o r H). destruct (o_pc r); try exact L;
    try destruct (detached_drop_closes v);
    intros o1 r1; simpl; intro H1; look o1 o; inv_eq; simpl; eauto.
  - destruct (st_op s o) as [r|] eqn:H; [|exact L]. destruct (o_pc r); exact L.
  - intros o1 r1. simpl. unfold kill_map. destruct (st_op s o1) as [r0|] eqn:H1; [|discriminate].
    destruct (Nat.eqb (o_proc r0) p); [discriminate|]. intro. inv_eq. eauto.
Qed.

Definition tracked (s : state) : Prop := fold_left quiet_ev (st_log s) (Some None) = Some (st_flock s).

Lemma tracked_step : forall v vl vr s a,
  trunc_on_open v = false -> Inv v s -> (subdirs_before_lock v = true -> layout vl vr s) -> tracked s ->
  exists b, fold_left quiet_ev (st_log (apply_op v s a)) (Some None) = Some b.
Proof.
  intros v vl vr s a T I L Q. unfold tracked in Q.
  destruct a as [o p opts | o | o | o | o | o | o | p]; unfold apply_op;
    try (destruct (st_op s o) as [r|] eqn:H; [|eauto]).
  - eauto.
  - (* OStep *)
    unfold step_opener. destruct (o_pc r) eqn:P; eauto; simpl; rewrite ?fold_left_app, ?Q; simpl; eauto.
    + destruct (op_valid (o_opts r)); simpl; rewrite ?fold_left_app, ?Q; simpl; eauto.
    + (* create_directory_structure *)
      destruct (st_flock s) as [x|] eqn:F.
      * destruct (owner_created v s x I F) as [B _].
        destruct (inv_owner v s I x F) as [rx [Hx Cx]].
        assert (E : fs_dirs v (st_fs s) (o_opts r) = st_fs s).
        { apply fs_dirs_same; auto. intro SB.
          destruct (inv_sub v s I x rx Hx (past_dirs_validated _ (critical_past_dirs _ Cx)) SB) as [A [C D]].
          destruct (L SB x rx Hx) as [Lx1 Lx2]. destruct (L SB o r H) as [Lo1 Lo2].
          unfold wanted_present. rewrite A. simpl. apply andb_true_intro. split.
          - destruct (op_vlog (o_opts r)) eqn:E1; simpl; auto. apply C. congruence.
          - destruct (op_ver (o_opts r)) eqn:E2; simpl; auto. apply D. congruence. }
        rewrite E, dirs_eqb_refl. simpl. eauto.
      * destruct (negb _); eauto.
    + (* open LOCK *)
      destruct (st_flock s) as [x|] eqn:F.
      * destruct (owner_created v s x I F) as [_ Lk].
        rewrite (lock_after_open_same v _ T Lk), lcontent_eqb_refl. simpl. eauto.
      * destruct (negb _); eauto.
    + destruct (st_flock s); simpl; rewrite ?fold_left_app, ?Q; simpl; eauto.
  - destruct (o_pc r); eauto; try destruct (detached_drop_closes v); simpl; rewrite ?fold_left_app, ?Q; simpl; eauto.
  - destruct (o_pc r); eauto; try destruct (detached_drop_closes v); simpl; rewrite ?fold_left_app, ?Q; simpl; eauto.
  - destruct (o_pc r); eauto; try destruct (detached_drop_closes v); simpl; rewrite ?fold_left_app, ?Q; simpl; eauto.
  - destruct (o_pc r); eauto; try destruct (detached_drop_closes v); simpl; rewrite ?fold_left_app, ?Q; simpl; eauto.
  - destruct (o_pc r); eauto; try destruct (detached_drop_closes v); simpl; rewrite ?fold_left_app, ?Q; simpl; eauto.
  - simpl. unfold kill_log. rewrite fold_left_app, Q.
    destruct (st_flock s) as [x|]; simpl; eauto. destruct (st_op s x) as [rx|]; simpl; eauto.
    destruct (Nat.eqb (o_proc rx) p); simpl; eauto.
Qed.

Lemma no_foreign_modification_gen : forall v vl vr, trunc_on_open v = false ->
  forall ops s, Inv v s -> (subdirs_before_lock v = true -> layout vl vr s) -> tracked s ->
  (subdirs_before_lock v = true -> same_layout vl vr ops) ->
  tracked (run v ops s).
Proof.
  intros v vl vr T. induction ops as [|a ops IH]; intros s I L Q SL; [exact Q|].
  rewrite run_cons. apply IH.
  - now apply inv_apply.
  - intro SB. apply layout_apply; auto. intros o p opts ->. apply (SL SB o p opts). now left.
  - destruct (tracked_step v vl vr s a T I L Q) as [b B]. unfold tracked. rewrite B. f_equal.
    apply (inv_quiet_track v _ (inv_apply v s a I) b B).
  - intros SB o p opts X. apply (SL SB o p opts). now right.
Qed.

Theorem no_foreign_modification_all : forall v, trunc_on_open v = false -> subdirs_before_lock v = false ->
  no_foreign_modification_stmt v.
Proof.
  intros v T S ops. unfold quiet.
  assert (X : tracked (run v ops s0)).
  { apply (no_foreign_modification_gen v false false T); try (intro X; rewrite S in X; discriminate X);
      [apply inv_s0 | reflexivity]. }
  unfold tracked in X. now rewrite X.
Qed.
Theorem no_foreign_modification_fixed_dirs : no_foreign_modification_stmt fixed_dirs.
Proof.
  intros ops. unfold quiet.
  assert (X : tracked (run fixed_dirs ops s0)).
  { apply (no_foreign_modification_gen fixed_dirs false false eq_refl); try discriminate; [apply inv_s0 | reflexivity]. }
  unfold tracked in X. now rewrite X.
Qed.
Theorem no_foreign_modification_same_layout_fixed : no_foreign_modification_same_layout_stmt fixed.
Proof.
  intros vl vr ops SL. unfold quiet.
  assert (X : tracked (run fixed ops s0)).
  { apply (no_foreign_modification_gen fixed vl vr eq_refl); auto; [apply inv_s0 | intros _ o r; discriminate | reflexivity]. }
  unfold tracked in X. now rewrite X.
Qed.
(* the pinned code: opener 2's open() empties LOCK while opener 1 owns the lock *)
Theorem no_foreign_modification_refuted_pinned :
  quiet (st_log (run pinned (wit_ops ++ open_ops 2 0 plain) s0)) = false /\
  same_layout false false (wit_ops ++ open_ops 2 0 plain).
Proof.
  split; [vm_compute; reflexivity|].
  intros o p opts H. vm_compute in H.
  repeat (destruct H as [H|H]; [try discriminate H; inversion H; subst; split; reflexivity|]). destruct H.
Qed.

(* ------------------------------------------------------------------ what a failed open can change at most *)
Lemma dirs_le_refl : forall f, dirs_le f f = true.
Proof. intros [[|] [|] [|] [|] l d]; reflexivity. Qed.
Lemma dirs_le_fs_dirs : forall v f o, dirs_le f (set_lock (fs_dirs v f o) (lock_after_open v (f_lock (fs_dirs v f o)))) = true.
Proof.
  intros v [[|] [|] [|] [|] l d] [va [|] [|]]; unfold fs_dirs; destruct (subdirs_before_lock v); reflexivity.
Qed.
Theorem refused_open_outside_known : forall v, refused_open_outside_known_stmt v.
Proof.
  intros v ops o p opts s N s' N'. pose proof (inv_reach v ops) as I. fold s in I. subst s'.
  destruct (op_valid opts) eqn:V.
  - destruct (st_flock s) as [hh|] eqn:F.
    + destruct (open_refused v s o p opts hh N V F) as [m' E]. rewrite E. simpl.
      destruct (owner_created v s hh I F) as [B L].
      repeat split.
      * unfold fs_lockopen, fs_dirs. destruct (subdirs_before_lock v); reflexivity.
      * rewrite !filter_data_snoc; reflexivity.
      * unfold fs_lockopen. simpl. rewrite f_lock_fs_dirs. unfold lock_after_open.
        destruct (f_lock (st_fs s)); auto. destruct (trunc_on_open v); auto. destruct (trunc_on_open v); auto.
      * unfold fs_lockopen, fs_dirs. destruct (subdirs_before_lock v); simpl; now rewrite B.
      * apply dirs_le_fs_dirs.
      * intro W. unfold fs_lockopen. rewrite (fs_dirs_same v (st_fs s) opts B (fun _ => W)).
        unfold dirs_eqb. simpl. now rewrite !eqb_reflx.
    + destruct (open_free v s o p opts N V F) as [m' [l' E]]. rewrite E in N'. simpl in N'. rewrite upd_eq in N'. discriminate.
  - rewrite (open_invalid v s o p opts N V). simpl. repeat split; auto.
    + now rewrite filter_data_snoc.
    + apply dirs_le_refl.
    + intros _. apply dirs_eqb_refl.
Qed.
