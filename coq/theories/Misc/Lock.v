(* Misc/Lock.v — model of the openers of ONE database directory (property C19).
   Transcribes, step by step and in program order,
     Tree::new            (src/lsm.rs): opts.validate(); create_directory_structure(); Core::new(); sync dirs
     CoreInner::new       (src/lsm.rs): LockFile::acquire() FIRST, then manifest load, WAL open, (Core::new:) WAL
                                        replay, orphan clean-up            = "recovery side effects"
     LockFile::acquire    (src/lockfile.rs): open(read, write, create, truncate) -> try_lock_exclusive (flock
                                        LOCK_EX|LOCK_NB through fs2) -> set_len(0) -> try_clone + write "<pid>\n"
     Core::close          (src/lsm.rs): stop pipeline/tasks, flush, WAL close, WAL clean-up, dir sync
                                        = "shutdown side effects", then lockfile.release() LAST
     Tree::drop           (src/lsm.rs): inside a tokio runtime: spawn(core.close()); outside one, the REPAIRED code
                                        (F28) runs core.close() to completion with block_on on a temporary
                                        current-thread runtime, so the lock is released before drop() returns; the
                                        code before the repair only logged a warning and the background tasks kept
                                        CoreInner (and its LockFile) alive until their runtime was shut down
     Tree::create_checkpoint / Tree::restore_from_checkpoint (src/lsm.rs, src/checkpoint.rs): operations of a LIVE
                                        store that rewrite its directory: the checkpoint flushes the memtables and
                                        copies the store's files to a side directory; the restore removes the data
                                        sub-directories (DatabaseCheckpoint::clear_current_state: sstables, wal,
                                        manifest, vlog), copies the checkpoint's back, then reloads manifest / WAL /
                                        memtables.  Whether clear_current_state touches ONLY those named
                                        sub-directories (and so never the NAME `LOCK` at the top level of the
                                        directory) is the variant field restore_keeps_lock_name
   and the OS side (assumed, not verified): flock(2) — one exclusive advisory lock per open file
   description of an INODE; released when the last descriptor of that description is closed, in
   particular when the process dies.  The lock belongs to the inode, not to the name: `<dir>/LOCK` names
   an inode (fs fields f_lock / f_lock_ino); an opener that finds no such name creates a NEW inode; the
   kernel's lock table (st_flock) is per inode.  A holder whose LOCK name was unlinked keeps its lock on
   the nameless inode — and excludes nobody any more.
   Every step of every opener is a separate transition, so that the theorems quantify over all
   interleavings of all openers in any number of processes.
   Definitions only; statements in LockSpec.v, proofs in Lock_proofs.v. *)
From Coq Require Import List Bool Arith.
Import ListNotations.

Definition oid := nat.    (* an opener = one call of TreeBuilder::build *)
Definition proc := nat.   (* an operating-system process *)

(* the two places where the code touches the directory before it owns the lock, and what a drop outside
   a runtime does *)
Record variant := {
  trunc_on_open : bool;         (* OpenOptions::truncate(true) on LOCK: emptied by open(), before try_lock *)
  subdirs_before_lock : bool;   (* create_directory_structure() makes ALL sub-directories before Core::new *)
  detached_drop_closes : bool;  (* Tree::drop outside a runtime runs Core::close itself (temporary runtime + block_on) *)
  restore_keeps_lock_name : bool (* restore_from_checkpoint on a live store (clear_current_state + copy back) removes and
                                   re-creates only the named data sub-directories: the name `LOCK` is never touched *)
}.
Definition pinned : variant := {| trunc_on_open := true; subdirs_before_lock := true; detached_drop_closes := false; restore_keeps_lock_name := true |}.
(* the first repair (F19): `.truncate(true)` removed (set_len(0) after the lock already empties the file) *)
Definition fixed : variant := {| trunc_on_open := false; subdirs_before_lock := true; detached_drop_closes := false; restore_keeps_lock_name := true |}.
(* a further repair (F27): only the base directory (needed for LOCK) before the lock, the rest after it *)
Definition fixed_dirs : variant := {| trunc_on_open := false; subdirs_before_lock := false; detached_drop_closes := false; restore_keeps_lock_name := true |}.
(* the third repair (F28): a Tree dropped outside a runtime closes the store before drop() returns *)
Definition fixed_drop : variant := {| trunc_on_open := false; subdirs_before_lock := false; detached_drop_closes := true; restore_keeps_lock_name := true |}.
(* NOT a state the sources ever were in: the repaired code plus a restore whose clear_current_state also removes every
   regular file at the top level of the database directory — LOCK among them (seeded change C19d).  Regression record. *)
Definition restore_unlinks : variant := {| trunc_on_open := false; subdirs_before_lock := false; detached_drop_closes := true; restore_keeps_lock_name := false |}.

Record oopts := { op_valid : bool; op_vlog : bool; op_ver : bool }.
Definition plain : oopts := {| op_valid := true; op_vlog := false; op_ver := false |}.

(* content of the inode that <dir>/LOCK names (the owner's pid, for debugging); LAbsent: no such name *)
Inductive lcontent := LAbsent | LEmpty | LPid (p : proc).
Definition lcontent_eqb (a b : lcontent) : bool :=
  match a, b with
  | LAbsent, LAbsent => true | LEmpty, LEmpty => true | LPid p, LPid q => Nat.eqb p q | _, _ => false
  end.

(* the directory tree: which directories exist, LOCK — the content AND the identity (inode number) of the file
   that the name denotes now —, the next unused inode number, and a version counter standing for every
   other file (manifest, WAL segments, tables, value log): bumped by each step that may write them *)
Record fs := { f_base : bool; f_std : bool; f_vlog : bool; f_ver : bool;
               f_lock : lcontent; f_lock_ino : nat; f_ino_next : nat; f_data : nat }.
Definition fs0 : fs := {| f_base := false; f_std := false; f_vlog := false; f_ver := false;
                          f_lock := LAbsent; f_lock_ino := 0; f_ino_next := 1; f_data := 0 |}.
Definition set_lock (f : fs) (c : lcontent) : fs :=
  {| f_base := f_base f; f_std := f_std f; f_vlog := f_vlog f; f_ver := f_ver f;
     f_lock := c; f_lock_ino := f_lock_ino f; f_ino_next := f_ino_next f; f_data := f_data f |}.
Definition bump (f : fs) : fs :=
  {| f_base := f_base f; f_std := f_std f; f_vlog := f_vlog f; f_ver := f_ver f;
     f_lock := f_lock f; f_lock_ino := f_lock_ino f; f_ino_next := f_ino_next f; f_data := S (f_data f) |}.
Definition mk_base (f : fs) : fs :=
  {| f_base := true; f_std := f_std f; f_vlog := f_vlog f; f_ver := f_ver f;
     f_lock := f_lock f; f_lock_ino := f_lock_ino f; f_ino_next := f_ino_next f; f_data := f_data f |}.
(* sstables, wal, manifest; vlog if enable_vlog; versioned_index if enable_versioning *)
Definition mk_sub (f : fs) (o : oopts) : fs :=
  {| f_base := f_base f; f_std := true; f_vlog := f_vlog f || op_vlog o; f_ver := f_ver f || op_ver o;
     f_lock := f_lock f; f_lock_ino := f_lock_ino f; f_ino_next := f_ino_next f; f_data := f_data f |}.
Definition dirs_eqb (a b : fs) : bool :=
  Bool.eqb (f_base a) (f_base b) && Bool.eqb (f_std a) (f_std b) && Bool.eqb (f_vlog a) (f_vlog b) && Bool.eqb (f_ver a) (f_ver b).
(* open(LOCK, O_CREAT) finds no such name: a NEW, empty inode gets the name *)
Definition create_lock (f : fs) : fs :=
  {| f_base := f_base f; f_std := f_std f; f_vlog := f_vlog f; f_ver := f_ver f;
     f_lock := LEmpty; f_lock_ino := f_ino_next f; f_ino_next := S (f_ino_next f); f_data := f_data f |}.
(* unlink(LOCK): the name goes; the inode lives on for as long as somebody has it open *)
Definition unlink_lock (f : fs) : fs :=
  {| f_base := f_base f; f_std := f_std f; f_vlog := f_vlog f; f_ver := f_ver f;
     f_lock := LAbsent; f_lock_ino := 0; f_ino_next := f_ino_next f; f_data := f_data f |}.
(* a write (set_len, write) through a descriptor of inode i: seen under the name LOCK only if the name still
   denotes that inode *)
Definition wr_lock (f : fs) (i : nat) (c : lcontent) : fs :=
  match f_lock f with
  | LAbsent => f
  | _ => if Nat.eqb (f_lock_ino f) i then set_lock f c else f
  end.

Inductive pc :=
| PStart        (* Tree::new entered *)
| PValidated    (* opts.validate() passed *)
| PDirs         (* create_directory_structure() done *)
| POpened       (* LOCK opened: one descriptor, no lock *)
| PLocked       (* try_lock_exclusive succeeded *)
| PCleared      (* set_len(0) *)
| PCloned       (* file.try_clone(): a second descriptor of the same open file description *)
| PWritten      (* pid written, the clone closed; acquire returned Ok *)
| PLive         (* manifest/WAL/recovery/orphan clean-up done: the Tree was returned *)
| PRestoring    (* Tree::restore_from_checkpoint on the live store: DatabaseCheckpoint::restore_from_checkpoint done
                   (clear_current_state + the checkpoint's sub-directories copied back), in-memory state not yet reloaded *)
| PClosing      (* Core::close: shutdown side effects done, lock not yet released *)
| PClosed       (* lock released; the Tree handle still exists *)
| PDropping     (* Tree dropped: Core::close started (spawned on the current runtime, or — repaired code, outside a
                   runtime — entered with block_on on a temporary one), nothing done yet *)
| PDropClosing  (* that close did its shutdown side effects *)
| PDetached.    (* code before the F28 repair only: Tree dropped outside a runtime, no close; CoreInner kept alive
                   by the background tasks.  Unreachable when detached_drop_closes = true *)

(* o_ino: the inode the opener's LOCK descriptor(s) refer to (0 before open(LOCK)); every later lock / set_len / write
   of the opener goes to THAT inode, whatever the name LOCK denotes by then *)
Record opener := { o_proc : proc; o_opts : oopts; o_pc : pc; o_fds : nat; o_ino : nat }.
Definition at_pc (r : opener) (p : pc) (fds : nat) : opener :=
  {| o_proc := o_proc r; o_opts := o_opts r; o_pc := p; o_fds := fds; o_ino := o_ino r |}.
Definition at_ino (r : opener) (p : pc) (fds : nat) (i : nat) : opener :=
  {| o_proc := o_proc r; o_opts := o_opts r; o_pc := p; o_fds := fds; o_ino := i |}.

Inductive dkind := KRecovery | KShutdown | KCommit
                 | KCheckpoint   (* create_checkpoint: memtables flushed (tables + manifest written), files copied out *)
                 | KRestore      (* restore: data sub-directories removed and copied back from the checkpoint *)
                 | KReload.      (* restore: manifest loaded, WAL reopened and replayed *)
(* ghost log of what was done to the directory, oldest first *)
Inductive event :=
| EvInvalid (o : oid)                    (* validate() failed: the attempt ends *)
| EvMkdir (o : oid) (changed : bool)     (* create_dir_all calls; changed = some directory did not exist *)
| EvLockOpen (o : oid) (changed : bool)  (* open(LOCK); changed = created, or content destroyed by O_TRUNC *)
| EvAcquire (o : oid)                    (* flock granted *)
| EvRefused (o : oid)                    (* flock EWOULDBLOCK: descriptor closed, the attempt ends *)
| EvLockSet (o : oid)                    (* set_len(0) / write pid *)
| EvData (o : oid) (k : dkind)           (* manifest / WAL / tables / value log read-modify-write *)
| EvRelease (o : oid)                    (* last descriptor closed: the OS drops the lock *)
| EvGone (o : oid)                       (* the opener's handle or process is gone *)
| EvLockUnlink (o : oid).                (* the name LOCK removed from the directory *)

(* the kernel's lock table: (inode, the opener whose open file description owns the exclusive lock on it) *)
Definition ltable := list (nat * oid).
Fixpoint lk_find (t : ltable) (i : nat) : option oid :=
  match t with
  | [] => None
  | (j, o) :: t' => if Nat.eqb j i then Some o else lk_find t' i
  end.

Record state := {
  st_op : oid -> option opener;
  st_flock : ltable;
  st_fs : fs;
  st_log : list event
}.
Definition s0 : state := {| st_op := fun _ => None; st_flock := []; st_fs := fs0; st_log := [] |}.

(* whose lock a NEW opener runs into: the owner of the lock on the inode that the name LOCK denotes now *)
Definition lock_owner (s : state) : option oid :=
  match f_lock (st_fs s) with
  | LAbsent => None
  | _ => lk_find (st_flock s) (f_lock_ino (st_fs s))
  end.

Definition upd (m : oid -> option opener) (o : oid) (x : option opener) : oid -> option opener :=
  fun y => if Nat.eqb y o then x else m y.
(* closing every descriptor of o's open file description: its lock (on whatever inode) goes *)
Definition unlock (t : ltable) (o : oid) : ltable := filter (fun e => negb (Nat.eqb (snd e) o)) t.
Definition holds (h : option oid) (o : oid) : bool :=
  match h with Some x => Nat.eqb x o | None => false end.

Definition mk (m : oid -> option opener) (t : ltable) (f : fs) (l : list event) : state :=
  {| st_op := m; st_flock := t; st_fs := f; st_log := l |}.

(* open(LOCK) with create (and truncate): what the file holds afterwards *)
Definition lock_after_open (v : variant) (c : lcontent) : lcontent :=
  match c with LAbsent => LEmpty | _ => if trunc_on_open v then LEmpty else c end.
(* ... and which inode that is: the one the name denotes, or a new one *)
Definition open_lock (v : variant) (f : fs) : fs :=
  match f_lock f with
  | LAbsent => create_lock f
  | c => set_lock f (lock_after_open v c)
  end.
(* create_directory_structure() as called before Core::new *)
Definition fs_dirs (v : variant) (f : fs) (opts : oopts) : fs :=
  if subdirs_before_lock v then mk_sub (mk_base f) opts else mk_base f.

(* the next step of opener o (record r) *)
Definition step_opener (v : variant) (s : state) (o : oid) (r : opener) : state :=
  let m := st_op s in let h := st_flock s in let f := st_fs s in let l := st_log s in
  match o_pc r with
  | PStart =>
    if op_valid (o_opts r) then mk (upd m o (Some (at_pc r PValidated 0))) h f l
    else mk (upd m o None) h f (l ++ [EvInvalid o])
  | PValidated =>
    let f' := fs_dirs v f (o_opts r) in
    mk (upd m o (Some (at_pc r PDirs 0))) h f' (l ++ [EvMkdir o (negb (dirs_eqb f f'))])
  | PDirs =>
    let c := f_lock f in
    let c' := lock_after_open v c in
    let f' := open_lock v f in
    mk (upd m o (Some (at_ino r POpened 1 (f_lock_ino f')))) h f' (l ++ [EvLockOpen o (negb (lcontent_eqb c c'))])
  | POpened =>
    match lk_find h (o_ino r) with
    | None => mk (upd m o (Some (at_pc r PLocked 1))) ((o_ino r, o) :: h) f (l ++ [EvAcquire o])
    | Some _ => mk (upd m o None) h f (l ++ [EvRefused o])   (* `?` drops the File: descriptor closed *)
    end
  | PLocked => mk (upd m o (Some (at_pc r PCleared 1))) h (wr_lock f (o_ino r) LEmpty) (l ++ [EvLockSet o])
  | PCleared => mk (upd m o (Some (at_pc r PCloned 2))) h f l
  | PCloned => mk (upd m o (Some (at_pc r PWritten 1))) h (wr_lock f (o_ino r) (LPid (o_proc r))) (l ++ [EvLockSet o])
  | PWritten =>
    let f1 := if subdirs_before_lock v then f else mk_sub f (o_opts r) in
    mk (upd m o (Some (at_pc r PLive 1))) h (bump f1) (l ++ [EvData o KRecovery])
  | PLive => s
  | PRestoring => mk (upd m o (Some (at_pc r PLive 1))) h (bump f) (l ++ [EvData o KReload])
  | PClosing => mk (upd m o (Some (at_pc r PClosed 0))) (unlock h o) f (l ++ [EvRelease o])
  | PClosed => s
  | PDropping => mk (upd m o (Some (at_pc r PDropClosing 1))) h (bump f) (l ++ [EvData o KShutdown])
  | PDropClosing => mk (upd m o None) (unlock h o) f (l ++ [EvRelease o; EvGone o])
  | PDetached => s
  end.

Inductive op :=
| OBegin (o : oid) (p : proc) (opts : oopts)  (* process p calls TreeBuilder::build; ignored if the id is in use *)
| OStep (o : oid)                             (* opener o performs its next step *)
| OClose (o : oid)                            (* tree.close().await on a live store: shutdown side effects *)
| ODrop (o : oid)                             (* the Tree is dropped inside a tokio runtime *)
| ODropDetached (o : oid)                     (* the Tree is dropped on a thread outside any runtime *)
| ORuntimeGone (o : oid)                      (* the runtime of a detached opener shuts down: LockFile dropped (a no-op
                                                 for the repaired code: nothing is left on that runtime) *)
| OCommit (o : oid)                           (* a transaction commits on a live store *)
| OKill (p : proc)                            (* process p dies (SIGKILL, exit, crash): all its descriptors close *)
| OCheckpoint (o : oid)                       (* tree.create_checkpoint(side directory) on a live store: flush + copy out;
                                                 nothing but the store's own files in the data sub-directories is written *)
| ORestore (o : oid).                         (* tree.restore_from_checkpoint(side directory) on a live store, first half:
                                                 DatabaseCheckpoint::restore_from_checkpoint = clear_current_state (remove the
                                                 data sub-directories — and, if restore_keeps_lock_name is false, every
                                                 regular file at the top level: LOCK) + copy the checkpoint's back; the
                                                 reload is the opener's next OStep.  The store stays open throughout. *)

(* death of process p: every opener of p vanishes; the locks of their open file descriptions are dropped *)
Definition kill_map (m : oid -> option opener) (p : proc) : oid -> option opener :=
  fun y => match m y with Some r => if Nat.eqb (o_proc r) p then None else Some r | None => None end.
Definition dies (m : oid -> option opener) (p : proc) (o : oid) : bool :=
  match m o with Some r => Nat.eqb (o_proc r) p | None => false end.
Definition kill_flock (m : oid -> option opener) (t : ltable) (p : proc) : ltable :=
  filter (fun e => negb (dies m p (snd e))) t.
Definition kill_log (m : oid -> option opener) (t : ltable) (p : proc) : list event :=
  flat_map (fun e => if dies m p (snd e) then [EvRelease (snd e); EvGone (snd e)] else []) t.

Definition apply_op (v : variant) (s : state) (a : op) : state :=
  let m := st_op s in let h := st_flock s in let f := st_fs s in let l := st_log s in
  match a with
  | OBegin o p opts =>
    match m o with
    | Some _ => s
    | None => mk (upd m o (Some {| o_proc := p; o_opts := opts; o_pc := PStart; o_fds := 0; o_ino := 0 |})) h f l
    end
  | OStep o => match m o with Some r => step_opener v s o r | None => s end
  | OClose o =>
    match m o with
    | Some r => match o_pc r with
                | PLive => mk (upd m o (Some (at_pc r PClosing 1))) h (bump f) (l ++ [EvData o KShutdown])
                | _ => s     (* a second close of a closed store changes no file *)
                end
    | None => s
    end
  | ODrop o =>
    match m o with
    | Some r => match o_pc r with
                | PLive => mk (upd m o (Some (at_pc r PDropping 1))) h f l
                | PClosed => mk (upd m o None) h f (l ++ [EvGone o])   (* the spawned second close changes no file *)
                | _ => s
                end
    | None => s
    end
  | ODropDetached o =>
    match m o with
    | Some r => match o_pc r with
                | PLive =>
                  (* repaired: Core::close runs from here on exactly as after a drop inside a runtime (its two
                     steps — shutdown side effects; release — are the opener's next OSteps, so they interleave
                     with the steps of every other opener); before the repair: nothing happens *)
                  if detached_drop_closes v then mk (upd m o (Some (at_pc r PDropping 1))) h f l
                  else mk (upd m o (Some (at_pc r PDetached 1))) h f l
                | PClosed => mk (upd m o None) h f (l ++ [EvGone o])
                | _ => s
                end
    | None => s
    end
  | ORuntimeGone o =>
    match m o with
    | Some r => match o_pc r with
                | PDetached => mk (upd m o None) (unlock h o) f (l ++ [EvRelease o; EvGone o])
                | _ => s
                end
    | None => s
    end
  | OCommit o =>
    match m o with
    | Some r => match o_pc r with
                | PLive => mk m h (bump f) (l ++ [EvData o KCommit])
                | _ => s
                end
    | None => s
    end
  | OKill p => mk (kill_map m p) (kill_flock m h p) f (l ++ kill_log m h p)
  | OCheckpoint o =>
    match m o with
    | Some r => match o_pc r with
                | PLive => mk m h (bump f) (l ++ [EvData o KCheckpoint])
                | _ => s
                end
    | None => s
    end
  | ORestore o =>
    match m o with
    | Some r => match o_pc r with
                | PLive =>
                  if restore_keeps_lock_name v
                  then mk (upd m o (Some (at_pc r PRestoring 1))) h (bump f) (l ++ [EvData o KRestore])
                  else mk (upd m o (Some (at_pc r PRestoring 1))) h (bump (unlink_lock f)) (l ++ [EvData o KRestore; EvLockUnlink o])
                | _ => s
                end
    | None => s
    end
  end.

Definition run (v : variant) (ops : list op) (s : state) : state := fold_left (apply_op v) ops s.

(* the script-level operations: a whole call, run without interruption *)
Definition open_ops (o : oid) (p : proc) (opts : oopts) : list op := OBegin o p opts :: repeat (OStep o) 8.
Definition close_ops (o : oid) : list op := [OClose o; OStep o].
Definition drop_ops (o : oid) : list op := [ODrop o; OStep o; OStep o].
(* drop(tree) on a thread outside any runtime, until drop() returns: the repaired code has closed the store by
   then (block_on); for the code before the repair the two steps are no-ops (PDetached does not step) *)
Definition drop_detached_ops (o : oid) : list op := [ODropDetached o; OStep o; OStep o].
(* tree.restore_from_checkpoint(..) until it returns: files, then the reload *)
Definition restore_ops (o : oid) : list op := [ORestore o; OStep o].

Definition pc_of (s : state) (o : oid) : option pc := match st_op s o with Some r => Some (o_pc r) | None => None end.
Definition is_live (s : state) (o : oid) : bool := match pc_of s o with Some PLive => true | _ => false end.

(* ---- what the driver prints ---- *)
Inductive answer := AOk | ARefused | AInvalid | ABusy | ANoop | AErr.

Definition do_open (v : variant) (s : state) (o : oid) (p : proc) (opts : oopts) : state * answer :=
  match st_op s o with
  | Some _ => (s, ABusy)
  | None =>
    let s' := run v (open_ops o p opts) s in
    (s', match pc_of s' o with
         | Some PLive => AOk
         | Some _ => AErr
         | None => match last (st_log s') (EvGone o) with
                   | EvRefused _ => ARefused
                   | EvInvalid _ => AInvalid
                   | _ => AErr
                   end
         end)
  end.
Definition do_close (v : variant) (s : state) (o : oid) : state * answer :=
  match pc_of s o with
  | Some PLive => (run v (close_ops o) s, AOk)
  | Some PClosed => (run v [OClose o] s, AOk)
  | _ => (s, ANoop)
  end.
Definition do_drop (v : variant) (s : state) (o : oid) : state * answer :=
  match pc_of s o with
  | Some PLive => (run v (drop_ops o) s, AOk)
  | Some PClosed => (run v [ODrop o] s, AOk)
  | _ => (s, ANoop)
  end.
Definition do_drop_detached (v : variant) (s : state) (o : oid) : state * answer :=
  match pc_of s o with
  | Some PLive => (run v (drop_detached_ops o) s, AOk)
  | Some PClosed => (run v [ODropDetached o] s, AOk)
  | _ => (s, ANoop)
  end.
Definition do_runtime_gone (v : variant) (s : state) (o : oid) : state * answer :=
  match pc_of s o with
  | Some PDetached => (run v [ORuntimeGone o] s, AOk)
  | _ => (s, ANoop)
  end.
Definition do_commit (v : variant) (s : state) (o : oid) : state * answer :=
  match pc_of s o with
  | Some PLive => (run v [OCommit o] s, AOk)
  | Some PClosed => (s, AErr)
  | _ => (s, ANoop)
  end.
Definition do_kill (v : variant) (s : state) (p : proc) : state := run v [OKill p] s.
(* checkpoint / restore of a live store (the scripts call them on live stores only) *)
Definition do_checkpoint (v : variant) (s : state) (o : oid) : state * answer :=
  match pc_of s o with
  | Some PLive => (run v [OCheckpoint o] s, AOk)
  | _ => (s, ANoop)
  end.
Definition do_restore (v : variant) (s : state) (o : oid) : state * answer :=
  match pc_of s o with
  | Some PLive => (run v (restore_ops o) s, AOk)
  | _ => (s, ANoop)
  end.
(* is the inode that LOCK names now the one opener o opened (and, if it is a holder, locked)? *)
Inductive lockid := IdSame | IdChanged | IdAbsent | IdNoOpener.
Definition lock_identity (s : state) (o : oid) : lockid :=
  match st_op s o with
  | None => IdNoOpener
  | Some r => match f_lock (st_fs s) with
              | LAbsent => IdAbsent
              | _ => if Nat.eqb (f_lock_ino (st_fs s)) (o_ino r) then IdSame else IdChanged
              end
  end.
