(* Misc/PagesSpec.v — statements about the page allocator of Misc/Pages.v (proofs in Pages_proofs.v).

   `live` is the list of pages the B+tree holds (handed out by allocate_page and not yet given back);
   it is a ghost of the statements, the allocator does not store it. *)
From Coq Require Import List NArith Bool.
From SKV Require Import Misc.Pages.
Import ListNotations.
Local Open Scope N_scope.

(* no page is lost and none is in two places: the pages 1 .. total_pages-1 are exactly the live
   pages plus the pages of the free list (trunk pages and their entries), each once;
   free_page_count is the number of entries; no trunk page holds more than MAX entries *)
Definition pages_wf (MAX : N) (st : pstate) (live : list N) : Prop :=
  NoDup (live ++ free_pages st)
  /\ (forall p, In p (live ++ free_pages st) <-> 1 <= p < p_total st)
  /\ 1 <= p_total st
  /\ p_count st = N.of_nat (length (free_entries st))
  /\ Forall (fun t => N.of_nat (length (t_stack t)) <= MAX) (p_chain st).

Definition init_wf_stmt : Prop := forall MAX, pages_wf MAX p_init [1].

(* allocate_page never fails on a well-formed state, returns a page that is not in use, keeps the invariant *)
Definition alloc_ok_stmt : Prop := forall MAX st live, pages_wf MAX st live ->
  exists p st', alloc st = Some (p, st') /\ ~ In p live /\ pages_wf MAX st' (p :: live).
(* while the free list has entries the file does not grow: the page comes from the free list *)
Definition alloc_reuses_stmt : Prop := forall MAX st live, pages_wf MAX st live -> p_count st <> 0 ->
  exists p st', alloc st = Some (p, st') /\ p_total st' = p_total st /\ In p (free_pages st).
(* free_page of a live page never fails and keeps the invariant *)
Definition free_ok_stmt : Prop := forall MAX st live p, pages_wf MAX st live -> In p live ->
  exists st', free MAX p st = Some st' /\ pages_wf MAX st' (remove1 p live).
(* trunk_page_head = 0 exactly when the list is empty *)
Definition head_zero_stmt : Prop := forall MAX st live, pages_wf MAX st live -> (p_head st = 0 <-> p_chain st = []).

(* any script of allocate / free / chain-write / chain-free calls that only frees live pages runs without an
   allocator error and ends in a well-formed state *)
Definition pages_partition_stmt : Prop := forall MAX ops st live, pages_wf MAX st live ->
  match prun MAX ops st live with
  | Done st' live' => pages_wf MAX st' live'
  | Illegal => True
  | AllocErr | FreeErr => False
  end.
(* ... in particular from a fresh file *)
Definition pages_partition_fresh_stmt : Prop := forall MAX ops st live, prun MAX ops p_init [1] = Done st live ->
  NoDup (live ++ free_pages st)
  /\ (forall p, 1 <= p < p_total st <-> In p live \/ In p (free_pages st))
  /\ p_count st = N.of_nat (length (free_entries st)).

(* overflow chains *)
Definition calc_overflow_ok_stmt : Prop := forall CAP MINL MAXL payload, MINL <= MAXL ->
  let (on_page, ov) := calc_overflow CAP MINL MAXL payload in
  on_page <= MAXL /\ on_page <= payload /\ (ov = false -> on_page = payload) /\ (ov = true -> on_page < payload /\ MINL <= on_page).
(* the chain holds the remainder: pages * CAP covers it, and no page is empty (write_overflow_chain rejects empty data) *)
Definition ovf_pages_ok_stmt : Prop := forall CAP MINL MAXL payload, 0 < CAP -> MINL <= MAXL ->
  let (on_page, ov) := calc_overflow CAP MINL MAXL payload in
  let n := ovf_pages CAP MINL MAXL payload in
  (ov = false -> n = 0) /\ (ov = true -> 1 <= n /\ (n - 1) * CAP < payload - on_page <= n * CAP).
