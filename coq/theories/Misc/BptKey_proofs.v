(* Misc/BptKey_proofs.v — proofs of the statements of BptKeySpec.v *)
From Coq Require Import List NArith Arith Bool Sorting.Sorted Lia.
From SKV Require Import Base.Lex Misc.OMap Misc.OMapSpec Misc.OMap_proofs Misc.BptKey Misc.BptKeySpec.
Import ListNotations.

(* ---- building preorders ---- *)
Lemma preorder_proj : forall (A K : Type) (f : K -> A) (c : A -> A -> comparison),
  preorder c -> preorder (fun a b => c (f a) (f b)).
Proof. intros A K f c [S T]. split; intros; [apply S | eapply T; eassumption]. Qed.

Lemma preorder_rev : forall (K : Type) (c : K -> K -> comparison), preorder c -> preorder (fun a b => c b a).
Proof.
  intros K c [S T]. split.
  - intros a b. apply S.
  - intros a b d H1 H2. apply (T d b a); assumption.
Qed.

Lemma preorder_lexprod : forall (K : Type) (c1 c2 : K -> K -> comparison), preorder c1 -> preorder c2 ->
  preorder (fun a b => match c1 a b with Eq => c2 a b | c => c end).
Proof.
  intros K c1 c2 P1 P2. split.
  - intros a b. rewrite (cmp_sym K c1 P1 a b). destruct (c1 a b); simpl; try reflexivity. apply (cmp_sym K c2 P2).
  - intros a b d H1 H2.
    destruct (c1 a b) eqn:E1; try congruence; destruct (c1 b d) eqn:E2; try congruence.
    + rewrite (cmp_eq_l K c1 P1 a b d E1), E2. eapply (cmp_le_trans K c2 P2); eassumption.
    + rewrite (cmp_eq_l K c1 P1 a b d E1), E2. congruence.
    + rewrite <- (cmp_eq_r K c1 P1 b d a E2), E1. congruence.
    + rewrite (cmp_lt_trans K c1 P1 a b d E1 E2). congruence.
Qed.

Lemma N_compare_preorder : preorder N.compare.
Proof.
  split.
  - intros a b. apply N.compare_antisym.
  - intros a b c H1 H2. rewrite N.compare_le_iff in *. rewrite <- N.compare_le_iff in *. fold (N.le a b) in H1.
    change (N.le a c). change (N.le a b) in H1. change (N.le b c) in H2. lia.
Qed.

(* ---- bytewise order ---- *)
Lemma lex_refl : forall a, lex_cmp a a = Eq.
Proof. induction a as [|x a IH]; cbn [lex_cmp]; [reflexivity|]. rewrite N.compare_refl. exact IH. Qed.
Lemma lex_antisym : forall a b, lex_cmp a b = Eq -> a = b.
Proof.
  induction a as [|x a IH]; destruct b as [|y b]; cbn [lex_cmp]; intros H; try discriminate; auto.
  destruct (N.compare x y) eqn:E; try discriminate. apply N.compare_eq in E. subst. f_equal. auto.
Qed.
Lemma lex_sym : forall a b, lex_cmp b a = CompOpp (lex_cmp a b).
Proof.
  induction a as [|x a IH]; destruct b as [|y b]; cbn [lex_cmp]; auto.
  rewrite (N.compare_antisym x y). destruct (N.compare x y); cbn [CompOpp]; auto.
Qed.
Lemma lex_lt_trans : forall a b c, lex_cmp a b = Lt -> lex_cmp b c = Lt -> lex_cmp a c = Lt.
Proof.
  induction a as [|x a IH]; destruct b as [|y b]; destruct c as [|z c]; cbn [lex_cmp]; intros H1 H2; try discriminate; auto.
  destruct (N.compare x y) eqn:E1; try discriminate; destruct (N.compare y z) eqn:E2; try discriminate.
  - apply N.compare_eq in E1. apply N.compare_eq in E2. subst. rewrite N.compare_refl. eauto.
  - apply N.compare_eq in E1. subst. rewrite E2. reflexivity.
  - apply N.compare_eq in E2. subst. rewrite E1. reflexivity.
  - apply N.compare_lt_iff in E1. apply N.compare_lt_iff in E2.
    assert (E3 : N.compare x z = Lt) by (apply N.compare_lt_iff; eapply N.lt_trans; eauto). rewrite E3. reflexivity.
Qed.

Theorem lex_preorder_ok : lex_preorder_stmt.
Proof.
  split; [exact lex_sym|]. intros a b c H1 H2.
  destruct (lex_cmp a b) eqn:E1; try congruence; destruct (lex_cmp b c) eqn:E2; try congruence.
  - apply lex_antisym in E1. subst. congruence.
  - apply lex_antisym in E1. subst. congruence.
  - apply lex_antisym in E2. subst. congruence.
  - rewrite (lex_lt_trans a b c E1 E2). congruence.
Qed.
Theorem lex_antisym_ok : lex_antisym_stmt.
Proof. exact lex_antisym. Qed.

(* ---- timestamp order ---- *)
Theorem ts_preorder_ok : ts_preorder_stmt.
Proof.
  unfold ts_preorder_stmt.
  exact (preorder_lexprod bytes (fun a b => lex_cmp (ikey_user a) (ikey_user b)) (fun a b => N.compare (ikey_ts b) (ikey_ts a))
           (preorder_proj bytes bytes ikey_user lex_cmp lex_preorder_ok)
           (preorder_rev bytes _ (preorder_proj N bytes ikey_ts N.compare N_compare_preorder))).
Qed.

Lemma ikey_user_app : forall u t ts, length t = 8%nat -> length ts = 8%nat -> ikey_user (u ++ t ++ ts) = u.
Proof.
  intros u t ts L1 L2. unfold ikey_user. rewrite !app_length, L1, L2.
  replace (length u + (8 + 8) - 16)%nat with (length u) by lia.
  rewrite firstn_app, firstn_all, Nat.sub_diag. simpl. apply app_nil_r.
Qed.
Lemma ikey_ts_app : forall u t ts, length t = 8%nat -> length ts = 8%nat -> ikey_ts (u ++ t ++ ts) = be_val ts.
Proof.
  intros u t ts L1 L2. unfold ikey_ts. rewrite !app_length, L1, L2.
  replace (length u + (8 + 8) - 16 + 8)%nat with (length (u ++ t)) by (rewrite app_length; lia).
  rewrite app_assoc, skipn_app, skipn_all, Nat.sub_diag. reflexivity.
Qed.
Theorem ts_ignores_trailer_ok : ts_ignores_trailer_stmt.
Proof.
  intros u t1 t2 ts L1 L2 L3. unfold ts_cmp.
  rewrite !ikey_user_app, !ikey_ts_app by assumption. rewrite lex_refl. apply N.compare_refl.
Qed.

(* ---- the range entry point ---- *)
Lemma lex_nil_min : forall k, lex_cmp k [] <> Lt.
Proof. destruct k; simpl; congruence. Qed.
Lemma lex_nil_gt : forall k, k <> [] -> lex_cmp k [] = Gt.
Proof. destruct k; simpl; congruence. Qed.

Lemma range_spec_ext : forall V (cmp : bytes -> bytes -> comparison) lo lo' hi (m : omap bytes V),
  (forall kv, In kv m -> above_lo cmp lo (fst kv) = above_lo cmp lo' (fst kv)) ->
  om_range_spec cmp lo hi m = om_range_spec cmp lo' hi m.
Proof.
  intros. unfold om_range_spec. apply filter_ext_in. intros kv I. unfold in_bounds. rewrite (H kv I). reflexivity.
Qed.

Theorem bpt_range_statement_ok : bpt_range_statement.
Proof.
  intros V m lo hi S. unfold bpt_range.
  rewrite (range_filter bytes V lex_cmp lex_preorder_ok m (bpt_lo lo) hi S).
  apply range_spec_ext. intros kv I.
  destruct lo as [|b|b]; simpl; try reflexivity; destruct b as [|x b]; simpl; try reflexivity.
  (* Included(empty): nothing is below the empty key *)
  pose proof (lex_nil_min (fst kv)). destruct (lex_cmp (fst kv) []); congruence.
Qed.

Theorem bpt_range_old_refuted_ok : bpt_range_old_refuted_stmt.
Proof.
  exists [([], 0%N)], Unb. split.
  - apply sorted_cons. split; constructor.
  - vm_compute. discriminate.
Qed.

Theorem bpt_range_nonempty_start_ok : bpt_range_nonempty_start_stmt.
Proof.
  intros V cmp m lo hi PO S N1. unfold bpt_range.
  replace (bpt_lo lo) with lo.
  - apply range_filter; assumption.
  - destruct lo as [|b|b]; try reflexivity; destruct b; simpl; congruence.
Qed.
