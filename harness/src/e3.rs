//! E3 — controlled interleavings of the commit pipeline (properties C05, C17).
//!
//! One schedule = one `Tree` in a fresh directory, N committer threads (each with its own
//! current-thread tokio runtime), reader threads running probe transactions, a closer thread,
//! and the crate's two background tasks.  The crate is compiled with `--cfg surrealkv_verif`;
//! its yield points (src/verif/yieldp.rs) call `hook`, which records the event and parks the
//! calling thread until the scheduler hands it the token.  Exactly one actor runs between two
//! yield points, so the recorded trace is the real order of the code segments and can be
//! replayed through the extracted LTS (`e3 validate` on the model side).
//!
//! The scheduler is a seeded random walk or a PCT-style priority schedule.  It tracks the
//! blocking primitives from the events (write_mutex, commit_sem, oneshot completion, the stall
//! Notify, the tasks' Notify permits, the active-memtable RwLock) and never hands the token to an
//! actor whose next segment would block in the OS.  A watchdog (the main thread) takes the token
//! back when its holder makes no progress (`steal`: counted, the run is then flagged imprecise)
//! and reports a hang when nothing moves for `hang_ms`.
use std::cell::Cell;
use std::collections::{BTreeMap, HashSet};
use std::sync::atomic::{AtomicBool, Ordering};
use std::sync::{Arc, Condvar, Mutex, OnceLock};
use std::time::{Duration, Instant};
use surrealkv::verif::engine as fe;
use surrealkv::verif::yieldp;
use surrealkv::{Mode, Options, Tree, TreeBuilder};

// ------------------------------------------------------------------------------------------ PRNG
struct Rng(u64);
impl Rng {
    fn next(&mut self) -> u64 {
        // splitmix64
        self.0 = self.0.wrapping_add(0x9E3779B97F4A7C15);
        let mut z = self.0;
        z = (z ^ (z >> 30)).wrapping_mul(0xBF58476D1CE4E5B9);
        z = (z ^ (z >> 27)).wrapping_mul(0x94D049BB133111EB);
        z ^ (z >> 31)
    }
    fn below(&mut self, n: usize) -> usize {
        (self.next() % (n.max(1) as u64)) as usize
    }
}

// ------------------------------------------------------------------------------------- scheduler
#[derive(Clone, Copy, PartialEq, Eq, Debug)]
enum Kind {
    Commit,
    Reader,
    Flush,
    Level,
    Closer,
}

struct Actor {
    kind: Kind,
    label: String, // c<cid> / r<rid> / F / L / X : the model actor of the current activity
    parked: bool,
    finished: bool,
    last: &'static str,
    last_b: u64,
    prio: u64,
    // tracked per-actor facts
    has_permit: bool,
    holds_mutex: bool,
    reg_epoch: u64,
    spin_clears: u64,
    my_seq: u64,
    deq_first: u64,
    failed: bool,
    hold_at: Option<&'static str>, // directed schedules: stay parked at this point while others can run
}

#[derive(Clone)]
struct Ev {
    actor: String,
    name: &'static str,
    a: u64,
    b: u64,
    vis: Option<u64>,
}

struct Inner {
    active: bool,
    aborted: bool,
    rng: Rng,
    mode: u8, // 0 random walk, 1 PCT, 2 sticky random walk
    change_points: Vec<usize>,
    actors: Vec<Actor>,
    current: Option<usize>,
    trace: Vec<Ev>,
    last_progress: Instant,
    // tracked primitives
    permits: usize,
    mutex_held: bool,
    epoch: u64,
    done: HashSet<u64>,
    clears: u64,
    f_permit: bool,
    l_permit: bool,
    f_running: bool,
    l_running: bool,
    f_exit: bool,
    l_exit: bool,
    failwait: bool,
    /// speculative grants: a committer waiting for its completion may be scheduled as soon as its batch has been
    /// DEQUEUED (not only once the scheduler has seen the publisher pass `pub.completed`): on code that
    /// completes the batch later the committer blocks and the watchdog takes the token back (imprecise run);
    /// on code that acknowledges early it returns at once and the trace shows `ret` before the horizon moved
    early: bool,
    dequeued: HashSet<u64>,
    steals: u64,
    forced: u64,
    points: BTreeMap<&'static str, u64>,
    tree: Option<Tree>,
}

struct Sched {
    m: Mutex<Inner>,
    cv: Condvar,
}

static SCHED: OnceLock<Sched> = OnceLock::new();
static HOOK_ON: AtomicBool = AtomicBool::new(false);
thread_local! {
    static ACTOR: Cell<Option<usize>> = const { Cell::new(None) };
}

fn sched() -> &'static Sched {
    SCHED.get_or_init(|| Sched {
        m: Mutex::new(Inner {
            active: false,
            aborted: false,
            rng: Rng(1),
            mode: 0,
            change_points: vec![],
            actors: vec![],
            current: None,
            trace: vec![],
            last_progress: Instant::now(),
            permits: 0,
            mutex_held: false,
            epoch: 0,
            done: HashSet::new(),
            clears: 0,
            f_permit: false,
            l_permit: false,
            f_running: false,
            l_running: false,
            f_exit: false,
            l_exit: false,
            failwait: true,
            early: false,
            dequeued: HashSet::new(),
            steals: 0,
            forced: 0,
            points: BTreeMap::new(),
            tree: None,
        }),
        cv: Condvar::new(),
    })
}

impl Inner {
    fn eligible(&self, i: usize) -> bool {
        let a = &self.actors[i];
        if !a.parked || a.finished {
            return false;
        }
        match a.last {
            "commit.stall_ok" => self.permits > 0,
            "commit.want_lock" => !self.mutex_held,
            "stall.wait" => self.epoch > a.reg_epoch,
            // success and failure alike wait for the oneshot: the batch must have been dequeued and completed
            // (`failwait=0`: do not assume that a failed commit waits — used when the translator could not
            // confirm that shape in the sources)
            "commit.published" => {
                (a.failed && !self.failwait) || self.done.contains(&a.my_seq) || (self.early && self.dequeued.contains(&a.my_seq))
            }
            "enq.spin" => self.clears > a.spin_clears,
            "apply.arena_full" | "close.tasks_stopped" => !self.actors.iter().any(|o| o.parked && !o.finished && o.last == "mem.insert"),
            "task.mem.wait" => self.f_permit,
            "task.level.wait" => self.l_permit,
            "task.stop.poll" => !(self.f_running || self.l_running),
            "task.stop.join" => self.f_exit && self.l_exit,
            "x.wait_end" => self.actors.iter().all(|o| o.finished || !matches!(o.kind, Kind::Commit | Kind::Reader)),
            _ => true,
        }
    }

    /// Picks the next token holder among the parked actors (None: nobody can run).
    fn pick(&mut self) -> Option<usize> {
        let mut el: Vec<usize> = (0..self.actors.len()).filter(|&i| self.eligible(i)).collect();
        if el.is_empty() {
            return None;
        }
        // directed schedules: the actor with a hold point runs first, whenever it can, until it
        // reaches that point; parked there it runs only when nobody else can (then the hold ends)
        if let Some(&lead) = el.iter().find(|&&i| matches!(self.actors[i].hold_at, Some(p) if p != self.actors[i].last)) {
            return Some(lead);
        }
        let free: Vec<usize> = el.iter().copied().filter(|&i| self.actors[i].hold_at.is_none()).collect();
        if !free.is_empty() {
            el = free;
        } else {
            for &i in &el {
                self.actors[i].hold_at = None;
            }
        }
        let n = self.trace.len();
        match self.mode {
            1 => {
                if self.change_points.contains(&n) {
                    if let Some(c) = self.current {
                        self.actors[c].prio = self.rng.next() % 1000; // drops below every initial priority
                    }
                }
                el.into_iter().max_by_key(|&i| self.actors[i].prio)
            }
            2 => {
                if let Some(c) = self.current {
                    if el.contains(&c) && self.rng.below(4) != 0 {
                        return Some(c);
                    }
                }
                let k = self.rng.below(el.len());
                Some(el[k])
            }
            _ => {
                let k = self.rng.below(el.len());
                Some(el[k])
            }
        }
    }

    fn track(&mut self, i: usize, name: &'static str, a: u64, _b: u64) {
        match name {
            "commit.sem_acquired" => {
                self.permits = self.permits.saturating_sub(1);
                self.actors[i].has_permit = true;
            }
            "commit.locked" => {
                self.mutex_held = true;
                self.actors[i].holds_mutex = true;
            }
            "commit.unlocked" => {
                self.mutex_held = false;
                self.actors[i].holds_mutex = false;
            }
            "commit.seq_allocated" => self.actors[i].my_seq = a,
            "commit.enter" => self.actors[i].failed = false,
            "commit.fail_completed" => self.actors[i].failed = true,
            "ret" => {
                if self.actors[i].has_permit {
                    self.permits += 1;
                    self.actors[i].has_permit = false;
                }
                if self.actors[i].holds_mutex {
                    self.mutex_held = false;
                    self.actors[i].holds_mutex = false;
                }
            }
            "stall.registered" => self.actors[i].reg_epoch = self.epoch,
            "stall.signal" => self.epoch += 1,
            "pub.deq" => {
                self.actors[i].deq_first = a + 1 - _b;
                let f = self.actors[i].deq_first;
                self.dequeued.insert(f);
            }
            "pub.completed" => {
                let f = self.actors[i].deq_first;
                self.done.insert(f);
            }
            "enq.spin" => self.actors[i].spin_clears = self.clears,
            "deq.cleared" => self.clears += 1,
            "task.wake_mem" | "task.mem.recheck" => self.f_permit = true,
            "task.mem.woken" => self.f_permit = false,
            "task.mem.running" => self.f_running = true,
            "task.mem.idle" => self.f_running = false,
            "task.mem.exit" => self.f_exit = true,
            "task.mem.notified_level" | "task.wake_level" => self.l_permit = true,
            "task.level.woken" => self.l_permit = false,
            "task.level.running" => self.l_running = true,
            "task.level.idle" => self.l_running = false,
            "task.level.exit" => self.l_exit = true,
            "task.stop.notified" => {
                self.f_permit = true;
                self.l_permit = true;
            }
            _ => {}
        }
    }
}

/// The crate's yield hook.
fn hook(name: &'static str, a: u64, b: u64) {
    if !HOOK_ON.load(Ordering::Acquire) {
        return;
    }
    event(name, a, b);
}

/// Records an event of the calling thread's actor and, while a schedule is running, passes the
/// token on and parks until it comes back.
fn event(name: &'static str, mut a: u64, b: u64) {
    let s = sched();
    let mut g = s.m.lock().unwrap();
    if g.aborted {
        return;
    }
    // which actor?
    let me = match ACTOR.with(|c| c.get()) {
        Some(i) => Some(i),
        None => {
            if name.starts_with("task.mem.") {
                g.actors.iter().position(|x| x.kind == Kind::Flush)
            } else if name.starts_with("task.level.") {
                g.actors.iter().position(|x| x.kind == Kind::Level)
            } else {
                // an event inside a background task's segment (stall.signal, ...) belongs to the token holder
                match g.current {
                    Some(c) if matches!(g.actors[c].kind, Kind::Flush | Kind::Level) && !g.actors[c].parked => Some(c),
                    _ => None,
                }
            }
        }
    };
    let vis = g.tree.as_ref().map(fe::visible_seq);
    if name == "task.level.done" {
        if let Some(t) = g.tree.as_ref() {
            a = yieldp::stall_counts(t).1 as u64;
        }
    }
    *g.points.entry(name).or_insert(0) += 1;
    let Some(me) = me else {
        // the main thread (Tree::new): recorded, never scheduled
        g.trace.push(Ev { actor: "M".into(), name, a, b, vis });
        return;
    };
    let label = g.actors[me].label.clone();
    g.trace.push(Ev { actor: label, name, a, b, vis });
    g.track(me, name, a, b);
    g.last_progress = Instant::now();
    g.actors[me].last = name;
    g.actors[me].last_b = b;
    g.actors[me].parked = true;
    if name == "task.mem.exit" || name == "task.level.exit" {
        // the task ends here: it never comes back to the scheduler
        g.actors[me].parked = false;
        g.actors[me].finished = true;
        if g.active && (g.current == Some(me) || g.current.is_none()) {
            let nx = g.pick();
            g.current = nx;
        }
        s.cv.notify_all();
        return;
    }
    if g.active {
        if g.current == Some(me) || g.current.is_none() {
            let nx = g.pick();
            g.current = nx;
        }
        s.cv.notify_all();
    }
    // park until granted (background tasks reach their first wait point before the schedule starts)
    loop {
        if g.aborted {
            return;
        }
        if g.active && g.current == Some(me) {
            break;
        }
        g = s.cv.wait_timeout(g, Duration::from_millis(50)).unwrap().0;
    }
    g.actors[me].parked = false;
}

fn attach(i: usize) {
    ACTOR.with(|c| c.set(Some(i)));
    event("h.start", 0, 0);
}

fn detach() {
    let s = sched();
    let mut g = s.m.lock().unwrap();
    if let Some(me) = ACTOR.with(|c| c.get()) {
        g.actors[me].finished = true;
        g.actors[me].parked = false;
        if g.active && g.current == Some(me) {
            let nx = g.pick();
            g.current = nx;
        }
        g.last_progress = Instant::now();
        s.cv.notify_all();
    }
    ACTOR.with(|c| c.set(None));
}

fn set_label(l: String) {
    if let Some(me) = ACTOR.with(|c| c.get()) {
        sched().m.lock().unwrap().actors[me].label = l;
    }
}

// ------------------------------------------------------------------------------------- workload
#[derive(Clone)]
struct CommitSpec {
    cid: usize,
    n: usize,
    dup: bool,
    big: bool,
    hot: bool,
    vlen: usize,
}

fn key_of(cid: usize, j: usize) -> Vec<u8> {
    format!("b{:04}k{:03}", cid, j).into_bytes()
}
fn val_of(cid: usize, j: usize, fin: bool, vlen: usize) -> Vec<u8> {
    let mut v = format!("v{:04}.{:03}.{}", cid, j, if fin { "F" } else { "0" }).into_bytes();
    while v.len() < vlen {
        v.push(b'.');
    }
    v
}

struct Shared {
    tree: Tree,
    universe: Vec<CommitSpec>,
    rets: Mutex<BTreeMap<usize, (u64, String)>>,
    obs: Mutex<Vec<String>>,
    mem: usize,
}

fn run_committer(sh: Arc<Shared>, me: usize, specs: Vec<CommitSpec>) {
    let rt = tokio::runtime::Builder::new_current_thread().enable_all().build().unwrap();
    attach(me);
    for c in specs {
        set_label(format!("c{}", c.cid));
        let r = std::panic::catch_unwind(std::panic::AssertUnwindSafe(|| {
            let mut tx = match sh.tree.begin() {
                Ok(t) => t,
                Err(e) => return (1u64, format!("begin:{}", e)),
            };
            for j in 0..c.n {
                if c.dup && j == 0 {
                    let _ = tx.set(key_of(c.cid, j), val_of(c.cid, j, false, c.vlen));
                    let _ = tx.set_savepoint();
                }
                let vl = if c.big && j == 0 { sh.mem } else { c.vlen };
                let _ = tx.set(key_of(c.cid, j), val_of(c.cid, j, true, vl));
            }
            if c.hot {
                let _ = tx.set(b"hot".to_vec(), format!("h{}", c.cid).into_bytes());
            }
            match rt.block_on(tx.commit()) {
                Ok(()) => (0u64, "ok".to_string()),
                Err(e) => (1u64, e.to_string().replace([' ', ',', ';'], "_")),
            }
        }));
        let (code, text) = match r {
            Ok(x) => x,
            Err(p) => {
                let m = p.downcast_ref::<String>().cloned().or_else(|| p.downcast_ref::<&str>().map(|s| s.to_string())).unwrap_or_default();
                (2u64, format!("PANIC:{}", m.replace([' ', ',', ';'], "_")))
            }
        };
        sh.rets.lock().unwrap().insert(c.cid, (code, text));
        event("ret", code, 0);
    }
    detach();
}

fn run_reader(sh: Arc<Shared>, me: usize, rids: Vec<(usize, usize)>) {
    attach(me);
    for (rid, pauses) in rids {
        set_label(format!("r{}", rid));
        for _ in 0..pauses {
            event("h.pause", 0, 0);
        }
        let tx = match sh.tree.begin_with_mode(Mode::ReadOnly) {
            Ok(t) => t,
            Err(_) => continue,
        };
        let h = fe::txn_start_seq(&tx);
        let mut line = format!("r{}@{}", rid, h);
        for c in &sh.universe {
            let mut present = 0;
            let mut fin = 0;
            let mut err = 0;
            for j in 0..c.n {
                match tx.get(key_of(c.cid, j)) {
                    Ok(Some(v)) => {
                        present += 1;
                        if v.starts_with(&val_of(c.cid, j, true, 0)) {
                            fin += 1;
                        }
                    }
                    Ok(None) => {}
                    Err(_) => err += 1,
                }
            }
            let class = if present == 0 {
                1
            } else if present == c.n && fin == c.n {
                0
            } else {
                2
            };
            line.push_str(&format!(":c{}={}/{}/{}/{}", c.cid, class, present, fin, err));
            event("obs", c.cid as u64, class);
        }
        sh.obs.lock().unwrap().push(line);
        drop(tx);
    }
    detach();
}

fn run_closer(sh: Arc<Shared>, me: usize, pauses: Option<usize>, out: Arc<Mutex<String>>) {
    let rt = tokio::runtime::Builder::new_current_thread().enable_all().build().unwrap();
    attach(me);
    match pauses {
        Some(k) => {
            for _ in 0..k {
                event("h.pause", 0, 0);
            }
        }
        None => event("x.wait_end", 0, 0),
    }
    let r = std::panic::catch_unwind(std::panic::AssertUnwindSafe(|| rt.block_on(sh.tree.close())));
    let (code, text) = match r {
        Ok(Ok(())) => (0, "ok".to_string()),
        Ok(Err(e)) => (1, e.to_string().replace([' ', ',', ';'], "_")),
        Err(_) => (2, "PANIC".to_string()),
    };
    *out.lock().unwrap() = text;
    event("ret", code, 0);
    detach();
}

// ---------------------------------------------------------------------------------- the command
fn kvs(s: &str) -> BTreeMap<String, String> {
    s.split(',').filter_map(|kv| kv.split_once('=')).map(|(k, v)| (k.to_string(), v.to_string())).collect()
}

/// `run <params> <threads>`
///   params:  seed=..,mode=rw|pct|sticky,depth=..,mem=<bytes>,memlimit=..,l0limit=..,l0max=..,vlen=..,dir=<path>,
///            steal_ms=..,hang_ms=..,hold=<label>@<point>
///   threads: `|`-separated; `c:<cid>.<n>.<flags>/...` (flags: d duplicate key, b oversized, h hot key, - none),
///            `r:<rid>.<pauses>/...`, `x:<pauses>` or `x:end`
pub fn run(params: &str, threads: &str) -> String {
    let p = kvs(params);
    let geti = |k: &str, d: u64| p.get(k).map(|v| v.parse::<u64>().unwrap()).unwrap_or(d);
    let seed = geti("seed", 1);
    let mem = geti("mem", 4096) as usize;
    let vlen = geti("vlen", 16) as usize;
    let steal_ms = geti("steal_ms", 400);
    let hang_ms = geti("hang_ms", 8000);
    let mode = match p.get("mode").map(|s| s.as_str()) {
        Some("pct") => 1,
        Some("sticky") => 2,
        _ => 0,
    };
    let tmp;
    let dir = match p.get("dir") {
        Some(d) if d != "-" => std::path::PathBuf::from(d),
        _ => {
            tmp = tempfile::tempdir().unwrap();
            tmp.path().join("db")
        }
    };
    let mut o = Options::new();
    o.path = dir.clone();
    o.max_memtable_size = mem;
    o.memtable_stall_threshold = geti("memlimit", 2) as usize;
    o.level0_max_files = geti("l0max", 4) as usize;
    o.l0_stall_threshold = geti("l0limit", 8) as usize;
    o.flush_on_close = geti("foc", 1) != 0;

    // parse the threads
    let mut actors: Vec<Actor> = vec![];
    let mk = |kind: Kind, label: &str, prio: u64| Actor {
        kind,
        label: label.to_string(),
        parked: false,
        finished: false,
        last: "-",
        last_b: 0,
        prio,
        has_permit: false,
        holds_mutex: false,
        reg_epoch: 0,
        spin_clears: 0,
        my_seq: u64::MAX,
        deq_first: 0,
        failed: false,
        hold_at: None,
    };
    let mut rng = Rng(seed.wrapping_mul(0x2545F4914F6CDD1D) ^ 0xabcdef);
    actors.push(mk(Kind::Flush, "F", 1000 + rng.next() % 1000));
    actors.push(mk(Kind::Level, "L", 1000 + rng.next() % 1000));
    enum Job {
        C(Vec<CommitSpec>),
        R(Vec<(usize, usize)>),
        X(Option<usize>),
    }
    let mut jobs: Vec<(usize, Job)> = vec![];
    let mut universe: Vec<CommitSpec> = vec![];
    let mut nrdr = 0;
    for t in threads.split('|').filter(|t| !t.is_empty()) {
        let (k, body) = t.split_once(':').unwrap();
        let idx = actors.len();
        match k {
            "c" => {
                let specs: Vec<CommitSpec> = body
                    .split('/')
                    .map(|s| {
                        let f: Vec<&str> = s.split('.').collect();
                        CommitSpec {
                            cid: f[0].parse().unwrap(),
                            n: f[1].parse().unwrap(),
                            dup: f[2].contains('d'),
                            big: f[2].contains('b'),
                            hot: f[2].contains('h'),
                            vlen,
                        }
                    })
                    .collect();
                universe.extend(specs.iter().cloned());
                actors.push(mk(Kind::Commit, &format!("c{}", specs[0].cid), 1000 + rng.next() % 1000));
                jobs.push((idx, Job::C(specs)));
            }
            "r" => {
                let rids: Vec<(usize, usize)> = body
                    .split('/')
                    .map(|s| {
                        let (a, b) = s.split_once('.').unwrap();
                        (a.parse().unwrap(), b.parse().unwrap())
                    })
                    .collect();
                nrdr += rids.len();
                actors.push(mk(Kind::Reader, &format!("r{}", rids[0].0), 1000 + rng.next() % 1000));
                jobs.push((idx, Job::R(rids)));
            }
            "x" => {
                actors.push(mk(Kind::Closer, "X", 1000 + rng.next() % 1000));
                jobs.push((idx, Job::X(if body == "end" { None } else { Some(body.parse().unwrap()) })));
            }
            _ => return "bad-threads".into(),
        }
    }
    universe.sort_by_key(|c| c.cid);
    if let Some(h) = p.get("hold") {
        if let Some((lab, point)) = h.split_once('@') {
            let point: &'static str = Box::leak(point.to_string().into_boxed_str());
            for a in actors.iter_mut() {
                if a.label == lab {
                    a.hold_at = Some(point);
                }
            }
        }
    }
    let ncommits = universe.len();
    // PCT change points over an estimated trace length
    let est = 40 * ncommits + 20 * nrdr + 60;
    let depth = geti("depth", 3) as usize;
    let change_points: Vec<usize> = (0..depth).map(|_| rng.below(est)).collect();

    // reset the scheduler
    {
        let mut g = sched().m.lock().unwrap();
        g.active = false;
        g.aborted = false;
        g.rng = Rng(seed);
        g.mode = mode;
        g.change_points = change_points;
        g.actors = actors;
        g.current = None;
        g.trace.clear();
        g.permits = 0;
        g.mutex_held = false;
        g.epoch = 0;
        g.done.clear();
        g.clears = 0;
        g.f_permit = false;
        g.l_permit = false;
        g.f_running = false;
        g.l_running = false;
        g.f_exit = false;
        g.l_exit = false;
        g.failwait = geti("failwait", 1) != 0;
        g.early = geti("early", 0) != 0;
        g.dequeued.clear();
        g.steals = 0;
        g.forced = 0;
        g.points.clear();
        g.tree = None;
    }
    // the semaphore's size is the crate's; the model side gets it from Params
    let permits = geti("permits", 7) as usize;
    sched().m.lock().unwrap().permits = permits;
    yieldp::set_hook(Some(hook));
    HOOK_ON.store(true, Ordering::Release);

    let bg_rt = tokio::runtime::Builder::new_multi_thread().worker_threads(4).enable_all().build().unwrap();
    let tree = {
        let _g = bg_rt.enter();
        match TreeBuilder::with_options(o).build() {
            Ok(t) => t,
            Err(e) => {
                HOOK_ON.store(false, Ordering::Release);
                yieldp::set_hook(None);
                return format!("open-failed:{}", e.to_string().replace(' ', "_"));
            }
        }
    };
    sched().m.lock().unwrap().tree = Some(tree.clone());
    let sh = Arc::new(Shared { tree: tree.clone(), universe, rets: Mutex::new(BTreeMap::new()), obs: Mutex::new(vec![]), mem });
    let close_out = Arc::new(Mutex::new(String::from("-")));
    let mut handles = vec![];
    for (idx, job) in jobs {
        let sh = Arc::clone(&sh);
        let co = Arc::clone(&close_out);
        handles.push(std::thread::spawn(move || match job {
            Job::C(s) => run_committer(sh, idx, s),
            Job::R(r) => run_reader(sh, idx, r),
            Job::X(k) => run_closer(sh, idx, k, co),
        }));
    }
    // wait until every actor is parked at its first point, then start the schedule
    let t0 = Instant::now();
    loop {
        let g = sched().m.lock().unwrap();
        if g.actors.iter().all(|a| a.parked) || t0.elapsed() > Duration::from_secs(10) {
            break;
        }
        drop(g);
        std::thread::sleep(Duration::from_millis(1));
    }
    {
        let s = sched();
        let mut g = s.m.lock().unwrap();
        g.active = true;
        g.last_progress = Instant::now();
        let nx = g.pick();
        g.current = nx;
        s.cv.notify_all();
    }
    // watchdog
    let mut hang = false;
    let started = Instant::now();
    let mut tried: HashSet<usize> = HashSet::new();
    let mut seen_events = 0usize;
    loop {
        std::thread::sleep(Duration::from_millis(2));
        let s = sched();
        let mut g = s.m.lock().unwrap();
        if g.actors.iter().filter(|a| !matches!(a.kind, Kind::Flush | Kind::Level)).all(|a| a.finished) {
            break;
        }
        if g.trace.len() != seen_events {
            seen_events = g.trace.len();
            tried.clear();
        }
        let idle = g.last_progress.elapsed();
        let holder_running = matches!(g.current, Some(c) if !g.actors[c].finished);
        if !holder_running {
            // nobody holds the token (the holder finished, or the last pick found nobody)
            let nx = g.pick();
            if nx.is_some() {
                g.current = nx;
                s.cv.notify_all();
                continue;
            }
        }
        if idle > Duration::from_millis(steal_ms) {
            // the holder blocks in the OS (or is very slow), or no parked actor is eligible
            let nx = g.pick();
            if let Some(n) = nx {
                g.steals += 1;
                let who = match g.current { Some(c) => format!("M:{}@{}", g.actors[c].label, g.actors[c].last), None => "M:none".to_string() };
                g.trace.push(Ev { actor: who, name: "h.steal", a: 0, b: 0, vis: None });
                g.current = Some(n);
                g.last_progress = Instant::now();
                s.cv.notify_all();
            } else {
                // nobody is eligible by the tracked primitives: let the parked actors try, one by one
                let cand = (0..g.actors.len()).find(|&i| g.actors[i].parked && !g.actors[i].finished && !tried.contains(&i) && g.actors[i].last != "x.wait_end");
                if let Some(c) = cand {
                    tried.insert(c);
                    g.forced += 1;
                    let who = format!("M:{}@{}", g.actors[c].label, g.actors[c].last);
                    g.trace.push(Ev { actor: who, name: "h.forced", a: 0, b: 0, vis: None });
                    g.current = Some(c);
                    s.cv.notify_all();
                } else if idle > Duration::from_millis(hang_ms) {
                    hang = true;
                }
            }
        }
        if hang || started.elapsed() > Duration::from_secs(120) {
            hang = true;
            g.aborted = true;
            s.cv.notify_all();
            break;
        }
    }
    let (trace, steals, forced, points, stuck) = {
        let g = sched().m.lock().unwrap();
        let stuck: Vec<String> = g
            .actors
            .iter()
            .filter(|a| !a.finished && !matches!(a.kind, Kind::Flush | Kind::Level))
            .map(|a| format!("{}@{}", a.label, a.last))
            .collect();
        (g.trace.clone(), g.steals, g.forced, g.points.clone(), stuck)
    };
    if !hang {
        for h in handles {
            let _ = h.join();
        }
    }
    HOOK_ON.store(false, Ordering::Release);
    yieldp::set_hook(None);
    {
        let s = sched();
        let mut g = s.m.lock().unwrap();
        g.aborted = true;
        g.tree = None;
        s.cv.notify_all();
    }
    let counts = yieldp::stall_counts(&tree);
    let rets = sh.rets.lock().unwrap().iter().map(|(c, (k, t))| format!("c{}={}={}", c, k, t)).collect::<Vec<_>>().join(";");
    let obs = sh.obs.lock().unwrap().join(";");
    let tr = trace
        .iter()
        .map(|e| format!("{},{},{},{},{}", e.actor, e.name, e.a, e.b, e.vis.map(|v| v.to_string()).unwrap_or_default()))
        .collect::<Vec<_>>()
        .join(";");
    let pts = points.iter().map(|(k, v)| format!("{}={}", k, v)).collect::<Vec<_>>().join(";");
    let out = format!(
        "{} seed={} events={} steals={} forced={} close={} imm={} l0={} stuck={} rets={} obs={} points={} trace={}",
        if hang { "HANG" } else { "ok" },
        seed,
        trace.len(),
        steals,
        forced,
        close_out.lock().unwrap(),
        counts.0,
        counts.1,
        if stuck.is_empty() { "-".to_string() } else { stuck.join("+") },
        if rets.is_empty() { "-".to_string() } else { rets },
        if obs.is_empty() { "-".to_string() } else { obs },
        pts,
        tr
    );
    if hang {
        // blocked threads cannot be joined: answer, then leave the process
        use std::io::Write;
        println!("{}", out);
        let _ = std::io::stdout().flush();
        std::process::exit(0);
    }
    drop(sh);
    drop(tree);
    bg_rt.shutdown_timeout(Duration::from_millis(200));
    out
}

pub fn cmd(toks: &[&str]) -> String {
    match toks {
        ["run", params, threads] => run(params, threads),
        _ => "bad-command".into(),
    }
}
