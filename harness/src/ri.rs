//! RI engine — the range cursor of a transaction (`TransactionRangeIterator`) through the PUBLIC
//! API only: a fresh `Tree`, the committed pairs written by one transaction, a second transaction
//! holding the write-set entries, `range_with_options`, then cursor programs.
//! The model side is Txn/RangeIter.v (driver/main.ml `ri_cmd`).
//!
//!   ri run   <committed> <writeset> <lo|~> <hi|~> <program>
//!   ri sweep <committed> <writeset> <lo|~> <hi|~> <alphabet> <depth>
//!
//! committed = hexkey=hexval,... | -      writeset = hexkey=hexval | hexkey=! (tombstone),... | -
//! program / alphabet = first,last,next,prev,seek:<hexkey>,...  (a program may be `-` = empty)
//! `run` prints `valid k=v` / `invalid` after every operation, joined by `;`.
//! `sweep` walks (depth first, alphabet order) every program of length <= depth in which, after
//! an operation that left the cursor invalid, only seeks follow; it prints the number of
//! operations evaluated and a digest of all their answers in visiting order:
//! h := h * 0x100000001b3 + fnv1a64(answer) (mod 2^64), starting from 0.
use crate::util::*;
use surrealkv::{LSMIterator, Mode, Options, ReadOptions, Transaction, Tree, TreeBuilder};

pub struct Ri {
    rt: tokio::runtime::Runtime,
}

#[derive(Clone)]
enum Op {
    First,
    Last,
    Next,
    Prev,
    Seek(Vec<u8>),
}

fn parse_ops(s: &str) -> Vec<Op> {
    if s == "-" || s.is_empty() {
        return vec![];
    }
    s.split(',')
        .map(|t| match t {
            "first" => Op::First,
            "last" => Op::Last,
            "next" => Op::Next,
            "prev" => Op::Prev,
            _ => match t.strip_prefix("seek:") {
                Some(k) => Op::Seek(hex_to_bytes(k)),
                None => panic!("bad cursor op {}", t),
            },
        })
        .collect()
}

fn bopt(tok: &str) -> Option<Vec<u8>> {
    if tok == "~" {
        None
    } else {
        Some(hex_to_bytes(tok))
    }
}

fn pairs(s: &str) -> Vec<(Vec<u8>, Option<Vec<u8>>)> {
    if s == "-" || s.is_empty() {
        return vec![];
    }
    s.split(',')
        .map(|t| {
            let (k, v) = t.split_once('=').unwrap();
            (hex_to_bytes(k), if v == "!" { None } else { Some(hex_to_bytes(v)) })
        })
        .collect()
}

fn apply<C: LSMIterator>(c: &mut C, op: &Op) -> String {
    let r = match op {
        Op::First => c.seek_first(),
        Op::Last => c.seek_last(),
        Op::Next => c.next(),
        Op::Prev => c.prev(),
        Op::Seek(k) => c.seek(k),
    };
    match r {
        Err(e) => format!("err:{}", crate::e2::err_name(&e)),
        Ok(v) => {
            if v != c.valid() {
                return format!("err:valid-mismatch({},{})", v, c.valid());
            }
            if !v {
                "invalid".into()
            } else {
                let k = c.key().user_key().to_vec();
                match c.value() {
                    Ok(val) => format!("valid {}={}", bytes_to_hex(&k), bytes_to_hex(&val)),
                    Err(e) => format!("err:value:{}", crate::e2::err_name(&e)),
                }
            }
        }
    }
}

fn bounds(lo: &str, hi: &str) -> ReadOptions {
    let mut ro = ReadOptions::new();
    ro.set_iterate_lower_bound(bopt(lo));
    ro.set_iterate_upper_bound(bopt(hi));
    ro
}

fn run_program(tx: &Transaction, ro: &ReadOptions, prog: &[Op]) -> Vec<String> {
    match tx.range_with_options(ro) {
        Err(e) => vec![format!("err:range:{}", crate::e2::err_name(&e))],
        Ok(mut c) => prog.iter().map(|o| apply(&mut c, o)).collect(),
    }
}

struct Sweep<'a> {
    tx: &'a Transaction,
    ro: ReadOptions,
    alphabet: Vec<Op>,
    depth: usize,
    count: u64,
    h: u64,
}

impl Sweep<'_> {
    fn walk(&mut self, prefix: &mut Vec<Op>, dead: bool) {
        for i in 0..self.alphabet.len() {
            let op = self.alphabet[i].clone();
            if dead && !matches!(op, Op::First | Op::Last | Op::Seek(_)) {
                continue;
            }
            prefix.push(op);
            // a cursor cannot be cloned: replay the prefix on a fresh one
            let outs = run_program(self.tx, &self.ro, prefix);
            let last = outs.last().cloned().unwrap_or_default();
            let mut hv: u64 = 0xcbf29ce484222325;
            for b in last.bytes() {
                hv = (hv ^ (b as u64)).wrapping_mul(0x100000001b3);
            }
            self.h = self.h.wrapping_mul(0x100000001b3).wrapping_add(hv);
            self.count += 1;
            if prefix.len() < self.depth {
                self.walk(prefix, !last.starts_with("valid "));
            }
            prefix.pop();
        }
    }
}

impl Ri {
    pub fn new() -> Self {
        let rt = tokio::runtime::Builder::new_multi_thread().worker_threads(2).enable_all().build().unwrap();
        Ri { rt }
    }

    /// fresh store + committed pairs + a transaction holding the write-set entries
    fn with_txn<T>(&self, committed: &str, writeset: &str, f: impl FnOnce(&Transaction) -> T) -> Result<T, String> {
        let dir = tempfile::tempdir().unwrap();
        let mut o = Options::new();
        o.path = dir.path().join("db");
        o.max_memtable_size = 64 << 20;
        o.level0_max_files = 1000;
        o.l0_stall_threshold = 100000;
        o.memtable_stall_threshold = 100000;
        o.flush_on_close = false;
        let _g = self.rt.enter();
        let tree: Tree = TreeBuilder::with_options(o).build().map_err(|e| format!("err:open:{}", crate::e2::err_name(&e)))?;
        let res = (|| {
            let cs = pairs(committed);
            if !cs.is_empty() {
                let mut t = tree.begin_with_mode(Mode::ReadWrite).map_err(|e| format!("err:begin:{}", crate::e2::err_name(&e)))?;
                for (k, v) in cs {
                    t.set(k, v.expect("committed pairs carry values")).map_err(|e| format!("err:set:{}", crate::e2::err_name(&e)))?;
                }
                self.rt.block_on(t.commit()).map_err(|e| format!("err:commit:{}", crate::e2::err_name(&e)))?;
            }
            let mut t = tree.begin_with_mode(Mode::ReadWrite).map_err(|e| format!("err:begin:{}", crate::e2::err_name(&e)))?;
            for (k, v) in pairs(writeset) {
                match v {
                    Some(v) => t.set(k, v),
                    None => t.delete(k),
                }
                .map_err(|e| format!("err:write:{}", crate::e2::err_name(&e)))?;
            }
            Ok(f(&t))
        })();
        let _ = self.rt.block_on(tree.close());
        res
    }

    pub fn cmd(&mut self, a: &[&str]) -> String {
        match a {
            ["run", committed, writeset, lo, hi, prog] => {
                let prog = parse_ops(prog);
                let ro = bounds(lo, hi);
                match self.with_txn(committed, writeset, |t| run_program(t, &ro, &prog).join(";")) {
                    Ok(s) => s,
                    Err(e) => e,
                }
            }
            ["sweep", committed, writeset, lo, hi, alphabet, depth] => {
                let alphabet = parse_ops(alphabet);
                let depth: usize = depth.parse().unwrap();
                let ro = bounds(lo, hi);
                match self.with_txn(committed, writeset, |t| {
                    let mut s = Sweep { tx: t, ro, alphabet, depth, count: 0, h: 0 };
                    s.walk(&mut Vec::new(), false);
                    format!("swept n={} digest={:016x}", s.count, s.h)
                }) {
                    Ok(s) => s,
                    Err(e) => e,
                }
            }
            _ => "bad-command".into(),
        }
    }
}
