//! E1 engine for the value-log codecs and the value log itself (C11): scripts over
//! `surrealkv::verif::vlogptr`.  Same command language as `vp_cmd` in driver/main.ml.
use crate::util::*;
use surrealkv::verif::vlogptr as fv;

pub struct Vp {
    dir: tempfile::TempDir,
    n: usize,
    log: Option<fv::Log>,
    logdir: std::path::PathBuf,
    max: u64,
    full: bool,
}

fn show_val(v: &[u8]) -> String {
    if v.len() > 16 {
        format!("#{}/{}", v.len(), fnv(v))
    } else {
        bytes_to_hex(v)
    }
}

fn ptr_of(a: &[&str]) -> fv::Ptr {
    fv::Ptr {
        version: a[0].parse().unwrap(),
        file_id: a[1].parse().unwrap(),
        offset: a[2].parse().unwrap(),
        key_size: a[3].parse().unwrap(),
        value_size: a[4].parse().unwrap(),
        checksum: a[5].parse().unwrap(),
    }
}

pub fn show_ptr(p: &fv::Ptr) -> String {
    format!("{}.{}.{}.{}.{}.{}", p.version, p.file_id, p.offset, p.key_size, p.value_size, p.checksum)
}

/// compact form of a stored value: t (empty), p:<pointer>, i:<value shown>, x:<hex> (undecodable)
pub fn show_stored(s: &[u8], sizes_only: bool) -> String {
    if s.is_empty() {
        return "t".into();
    }
    if let Some(p) = fv::pointer_of(s) {
        return format!("p:{}", show_ptr(&p));
    }
    match fv::location_decode(s) {
        Ok((_, _, v, false)) => {
            if sizes_only {
                format!("i:{}", v.len())
            } else {
                format!("i:{}", show_val(&v))
            }
        }
        _ => format!("x:{}", bytes_to_hex(s)),
    }
}

fn show_files(f: &[(u32, u64)]) -> String {
    f.iter().map(|(i, s)| format!("{}:{}", i, s)).collect::<Vec<_>>().join(",")
}

impl Vp {
    pub fn new() -> Self {
        let dir = tempfile::tempdir().unwrap();
        let logdir = dir.path().join("log0");
        Vp { dir, n: 0, log: None, logdir, max: 0, full: false }
    }
    fn fresh(&mut self) -> std::path::PathBuf {
        self.n += 1;
        self.dir.path().join(format!("d{}", self.n))
    }
    fn state(&self) -> String {
        let l = self.log.as_ref().unwrap();
        let (a, n) = l.ids();
        format!("files={} active={} next={}", show_files(&l.files()), a, n)
    }
    pub fn cmd(&mut self, a: &[&str]) -> String {
        match a {
            ["consts"] => {
                let c = fv::constants();
                format!("consts:{},{},{},{},{},{}", c.0, c.1, c.2, c.3, c.4, c.5)
            }
            ["penc", rest @ ..] => bytes_to_hex(&fv::pointer_encode(&ptr_of(rest))),
            ["pdec", h] => match fv::pointer_decode(&hex_to_bytes(h)) {
                Ok(p) => format!("ptr:{}", show_ptr(&p)),
                Err(_) => "err".into(),
            },
            ["lenc", m, v, val] => bytes_to_hex(&fv::location_encode(m.parse().unwrap(), v.parse().unwrap(), &bytes_tok(val))),
            ["ldec", h] => match fv::location_decode(&hex_to_bytes(h)) {
                Ok((m, v, val, isp)) => format!("loc:{},{},{},{}", m, v, isp as u8, show_val(&val)),
                Err(_) => "err".into(),
            },
            ["lptr", rest @ ..] => bytes_to_hex(&fv::location_with_pointer(&ptr_of(rest))),
            ["linl", val] => {
                let e = fv::location_inline(&bytes_tok(val));
                format!("#{}/{}", e.len(), fnv(&e))
            }
            ["ptrof", h] => match fv::pointer_of(&hex_to_bytes(h)) {
                Some(p) => format!("ptr:{}", show_ptr(&p)),
                None => "none".into(),
            },
            // ---- a value log on its own directory
            ["lognew", max, full] => {
                self.log = None;
                self.logdir = self.fresh();
                self.max = max.parse().unwrap();
                self.full = *full == "1";
                match fv::Log::open(&self.logdir, self.max, self.full) {
                    Ok(l) => {
                        self.log = Some(l);
                        "ok".into()
                    }
                    Err(e) => format!("err:{}", e.replace(' ', "_")),
                }
            }
            ["append", k, v] => match self.log.as_ref().unwrap().append(&bytes_tok(k), &bytes_tok(v)) {
                Ok(p) => format!("ptr:{}", show_ptr(&p)),
                Err(_) => "err".into(),
            },
            ["get", rest @ ..] => {
                let l = self.log.as_ref().unwrap();
                // appended bytes sit in the writer's buffer until a sync (a flush syncs before its table is installed)
                if l.sync().is_err() {
                    return "err:sync".into();
                }
                match l.get(&ptr_of(rest)) {
                    Ok(v) => format!("val:{}", show_val(&v)),
                    Err(_) => "err".into(),
                }
            }
            ["state"] => {
                let _ = self.log.as_ref().unwrap().sync();
                self.state()
            }
            ["file", id] => {
                let l = self.log.as_ref().unwrap();
                let _ = l.sync();
                match l.file_bytes(id.parse().unwrap()) {
                    Ok(mut b) => {
                        // created_at (wall clock) is zeroed
                        for i in 10..18.min(b.len()) {
                            b[i] = 0;
                        }
                        format!("#{}/{}", b.len(), fnv(&b))
                    }
                    Err(_) => "none".into(),
                }
            }
            ["cleanup", m] => match self.log.as_ref().unwrap().cleanup(m.parse().unwrap()) {
                Ok(()) => self.state(),
                Err(_) => "err".into(),
            },
            ["hopen", id, h] => {
                // a directory holding the one value-log file `id` with the given bytes: open it (the file is the
                // one with the highest id, so the writer opens it too), report what the file is afterwards
                let id: u32 = id.parse().unwrap();
                let d = self.fresh();
                let vd = d.join("vlog");
                std::fs::create_dir_all(&vd).unwrap();
                let bytes = if *h == "-" { vec![] } else { hex_to_bytes(h) };
                std::fs::write(vd.join(format!("{:020}.vlog", id)), &bytes).unwrap();
                match fv::Log::open(&d, 4096, true) {
                    Err(_) => "refuse".into(),
                    Ok(l) => match l.file_bytes(id) {
                        Ok(f) => format!("ok:{}:{}", f.len(), bytes_to_hex(&f[..f.len().min(10)])),
                        Err(e) => format!("err:{}", e.replace(' ', "_")),
                    },
                }
            }
            // damage: close the log, cut file `id` to its first `off` bytes, open the directory again (a new VLog with a
            // new block cache, as after a restart); later appends go to the highest-numbered file from its end
            ["cut", id, off] => {
                let id: u32 = id.parse().unwrap();
                let off: u64 = off.parse().unwrap();
                if let Some(l) = self.log.take() {
                    if l.close().is_err() {
                        return "err:close".into();
                    }
                }
                let path = self.logdir.join("vlog").join(format!("{:020}.vlog", id));
                match std::fs::OpenOptions::new().write(true).open(&path) {
                    Err(_) => return "none".into(),
                    Ok(f) => {
                        let len = f.metadata().map(|m| m.len()).unwrap_or(0);
                        if off > len {
                            return "bad-cut".into();
                        }
                        if f.set_len(off).is_err() || f.sync_all().is_err() {
                            return "err:cut".into();
                        }
                    }
                }
                match fv::Log::open(&self.logdir, self.max, self.full) {
                    Ok(l) => {
                        self.log = Some(l);
                        self.state()
                    }
                    Err(_) => "refuse".into(),
                }
            }
            ["reopen"] => {
                if let Some(l) = self.log.take() {
                    if l.close().is_err() {
                        return "err:close".into();
                    }
                }
                match fv::Log::open(&self.logdir, self.max, self.full) {
                    Ok(l) => {
                        self.log = Some(l);
                        self.state()
                    }
                    Err(e) => format!("err:{}", e.replace(' ', "_")),
                }
            }
            // ---- MemTable::flush with value separation on generated entries
            ["flush", th, max, tid, ents] => {
                let entries: Vec<fv::MemEntry> = if *ents == "-" {
                    vec![]
                } else {
                    ents.split(',')
                        .map(|t| {
                            let p: Vec<&str> = t.split('/').collect();
                            let set = p[2] != "d";
                            let raw = match p[2] {
                                "s" => fv::location_inline(&bytes_tok(p[3])),
                                "r" => hex_to_bytes(p[3]),
                                _ => vec![],
                            };
                            fv::MemEntry { user_key: hex_to_bytes(p[0]), seq: p[1].parse().unwrap(), set, raw }
                        })
                        .collect()
                };
                let d = self.fresh();
                match fv::mini_flush(&d, th.parse().unwrap(), max.parse().unwrap(), tid.parse().unwrap(), &entries) {
                    Err(_) => "err".into(),
                    Ok(o) => format!(
                        "flush:{};files={};active={};next={};entries={}",
                        o.oldest_vlog_file_id,
                        show_files(&o.files),
                        o.active,
                        o.next,
                        o.entries.iter().map(|(k, s)| format!("{}={}", bytes_to_hex(k), show_stored(s, false))).collect::<Vec<_>>().join(",")
                    ),
                }
            }
            // the inline-or-pointer decision on ONE raw stored value (any bytes): pass / append:<len> / err
            ["sep", th, raw] => {
                let rawb = hex_to_bytes(raw);
                let d = self.fresh();
                let e = [fv::MemEntry { user_key: vec![0x6b], seq: 1, set: true, raw: rawb.clone() }];
                match fv::mini_flush(&d, th.parse().unwrap(), 1 << 30, 1, &e) {
                    Err(_) => "err".into(),
                    Ok(o) => {
                        let s = &o.entries[0].1;
                        if *s == rawb {
                            "pass".into()
                        } else {
                            match fv::pointer_of(s) {
                                Some(p) => format!("append:{}", p.value_size),
                                None => "other".into(),
                            }
                        }
                    }
                }
            }
            _ => "bad-command".into(),
        }
    }
}
