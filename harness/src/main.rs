//! Implementation-side interpreter of verification scripts (see driver/main.ml for the
//! model side).  One command per stdin line, one result line per command.
mod bpt;
mod ck;
mod dmg;
mod cp;
mod e2;
mod e3;
mod lockeng;
mod orc;
mod ri;
mod tbl;
mod util;
mod vp;
mod wal;
mod wf;

use std::io::{BufRead, Write};

fn main() {
    let argv: Vec<String> = std::env::args().collect();
    if argv.len() >= 4 && argv[1] == "lk-child" {
        return lockeng::child_main(&argv[2], &argv[3]);
    }
    let stdin = std::io::stdin();
    let stdout = std::io::stdout();
    let mut out = std::io::BufWriter::new(stdout.lock());
    let mut wal_engine: Option<wal::WalEngine> = None;
    let mut e2_engine: Option<e2::E2> = None;
    let mut lk_engine: Option<lockeng::Lk> = None;
    let mut tbl_engine: Option<tbl::TblEngine> = None;
    let mut bpt_engine: Option<bpt::Bpt> = None;
    let mut orc_engine: Option<orc::OrcEngine> = None;
    let mut cs_engine: Option<orc::CsEngine> = None;
    let mut ri_engine: Option<ri::Ri> = None;
    let mut wf_engine: Option<wf::Wf> = None;
    let mut dmg_engine: Option<dmg::Dmg> = None;
    let mut vp_engine: Option<vp::Vp> = None;
    std::panic::set_hook(Box::new(|_| {}));
    for line in stdin.lock().lines() {
        let line = line.unwrap();
        if line.is_empty() || line.starts_with('#') {
            continue;
        }
        let toks: Vec<&str> = line.split(' ').collect();
        let res = std::panic::catch_unwind(std::panic::AssertUnwindSafe(|| match toks[0] {
            "wal" => wal_engine.get_or_insert_with(wal::WalEngine::new).cmd(&toks[1..]),
            "ck" => ck::cmd(&toks[1..]),
            "cp" => cp::cmd(&toks[1..]),
            "tbl" => tbl_engine.get_or_insert_with(tbl::TblEngine::new).cmd(&toks[1..]),
            "bpt" => bpt_engine.get_or_insert_with(bpt::Bpt::new).cmd(&toks[1..]),
            "orc" => orc_engine.get_or_insert_with(orc::OrcEngine::new).cmd(&toks[1..]),
            "cs" => {
                if toks.len() > 1 && toks[1] == "new" {
                    cs_engine = None; // closes the previous store and removes its directory
                    cs_engine = Some(orc::CsEngine::new());
                    "ok".to_string()
                } else {
                    cs_engine.get_or_insert_with(orc::CsEngine::new).cmd(&toks[1..])
                }
            }
            "dmg" => dmg_engine.get_or_insert_with(dmg::Dmg::new).cmd(&toks[1..]),
            "ri" => ri_engine.get_or_insert_with(ri::Ri::new).cmd(&toks[1..]),
            "vp" => vp_engine.get_or_insert_with(vp::Vp::new).cmd(&toks[1..]),
            "ar" => ar_cmd(&toks[1..]),
            "wf" => wf_engine.get_or_insert_with(wf::Wf::new).cmd(&toks[1..]),
            "e2" => {
                if toks.len() > 2 && toks[1] == "newat" {
                    e2_engine = None;
                    e2_engine = Some(e2::E2::at(toks[2]));
                    "ok".to_string()
                } else if toks.len() > 1 && toks[1] == "new" {
                    e2_engine = None; // closes the previous store and removes its directory
                    e2_engine = Some(e2::E2::new());
                    "ok".to_string()
                } else {
                    e2_engine.get_or_insert_with(e2::E2::new).cmd(&toks[1..])
                }
            }
            "e3" => e3::cmd(&toks[1..]),
            "lk" => {
                if toks.len() > 1 && toks[1] == "new" {
                    lk_engine = None; // kills the children, closes the openers, removes the directory
                    lk_engine = Some(lockeng::Lk::new());
                    "ok".to_string()
                } else {
                    lk_engine.get_or_insert_with(lockeng::Lk::new).cmd(&toks[1..])
                }
            }
            _ => "bad-command".to_string(),
        }));
        let s = match res {
            Ok(s) => s,
            Err(e) => {
                let m = e.downcast_ref::<String>().cloned().or_else(|| e.downcast_ref::<&str>().map(|s| s.to_string())).unwrap_or_default();
                format!("PANIC:{}", m.replace('\n', " "))
            }
        };
        writeln!(out, "{}", s).unwrap();
        out.flush().unwrap();
    }
    out.flush().unwrap();
}

/// memtable arena accounting (facade surrealkv::verif::arena): entries are klen:vlen,...
fn ar_cmd(a: &[&str]) -> String {
    use surrealkv::verif::arena as fa;
    fn entries(t: &str) -> Vec<(usize, usize)> {
        if t == "-" {
            return vec![];
        }
        t.split(',')
            .map(|x| {
                let mut p = x.split(':');
                (p.next().unwrap().parse().unwrap(), p.next().unwrap().parse().unwrap())
            })
            .collect()
    }
    match a {
        ["consts"] => format!("empty:{}", fa::empty_size(1 << 20)),
        ["bound", t] => match fa::upper_bound(&entries(t)) {
            Ok(b) => format!("bound:{}", b),
            Err(e) => format!("err:{}", e.replace(' ', "_")),
        },
        ["add", cap, reps, t] => match fa::add_on_empty(cap.parse().unwrap(), &entries(t), reps.parse().unwrap()) {
            Ok((sizes, full)) => format!(
                "ok:{} full:{} min:{} max:{}",
                sizes.len(),
                full,
                sizes.iter().min().map(|x| x.to_string()).unwrap_or("-".into()),
                sizes.iter().max().map(|x| x.to_string()).unwrap_or("-".into())
            ),
            Err(e) => format!("err:{}", e.replace(' ', "_")),
        },
        ["seq", cap, ts @ ..] => {
            let bs: Vec<Vec<(usize, usize)>> = ts.iter().map(|t| entries(t)).collect();
            match fa::add_sequence(cap.parse().unwrap(), &bs) {
                Ok(v) => v.iter().map(|(ok, n, rsv)| format!("{}:{}:{}", if *ok { "a" } else { "r" }, n, rsv)).collect::<Vec<_>>().join(" "),
                Err(e) => format!("err:{}", e.replace(' ', "_")),
            }
        }
        _ => "bad-command".to_string(),
    }
}
