//! C18 engine: the public `surrealkv::bplustree` API driven by scripts, plus an independent
//! reader of the B+tree file (header, tree walk, overflow chains, trunk-page free list) and a
//! reconstruction of the page allocator's call sequence from the recorded header/trunk writes.
//!
//! Commands (after the leading `bpt`):
//!   new <bytes|ts>            fresh file in a fresh temp dir
//!   ins <key> <val>           key/val tokens: hex | rep:<len>:<seed> | parts joined by '+'; '-' = empty
//!   del <key>   get <key>
//!   range <lo> <hi>           bound tokens: u | i:<key> | e:<key>
//!   scan f|b                  whole tree through internal_iterator (seek_first/next, seek_last/prev)
//!   seek <key> <n> f|b        seek, then up to n steps forward/backward
//!   reopen                    drop the tree (close) and open the same file again
//!   stats                     page accounting read back from the file
//!   params                    the layout constants this reader assumes
//! Answers of mutating commands carry ` | tr=<allocator calls> st=<allocator state>`.
use crate::util::*;
use std::collections::{BTreeSet, HashMap};
use std::sync::Arc;
use surrealkv::bplustree::tree::BPlusTree;
use surrealkv::verif::bpt::{open_traced, TraceFile, WriteLog};
use surrealkv::{BytewiseComparator, Comparator, LSMIterator, TimestampComparator};

// Layout constants of src/bplustree/tree.rs as assumed by the file reader below (the model side takes
// them from Params.v, generated from the source; `bpt params` lets tools/check compare the two).
const PS: usize = 4096;
const TRUNK_HDR: usize = 13;
const TRUNK_MAX: usize = (PS - TRUNK_HDR) / 4;
const LEAF_HDR: usize = 21;
const INT_HDR: usize = 9;
const OVF_CAP: usize = PS - 13;
const LEAF_MIN_LOCAL: usize = ((PS - LEAF_HDR - 12) * 32 / 255) - 23;
const LEAF_MAX_LOCAL: usize = ((PS - LEAF_HDR - 12) * 64 / 255) - 23;
const INT_MIN_LOCAL: usize = ((PS - INT_HDR - 12) * 32 / 255) - 23;
const INT_MAX_LOCAL: usize = ((PS - INT_HDR - 12) * 64 / 255) - 23;

fn calc_overflow(payload: usize, min_local: usize, max_local: usize) -> (usize, bool) {
    if payload <= max_local {
        (payload, false)
    } else {
        let surplus = min_local + (payload - min_local) % OVF_CAP;
        (if surplus <= max_local { surplus } else { min_local }, true)
    }
}

pub fn tok(t: &str) -> Vec<u8> {
    if t == "-" {
        return Vec::new();
    }
    let mut out = Vec::new();
    for p in t.split('+') {
        out.extend_from_slice(&bytes_tok(p));
    }
    out
}

fn show_key(k: &[u8]) -> String {
    if k.len() <= 24 {
        bytes_to_hex(k)
    } else {
        format!("#{}/{}", k.len(), fnv(k))
    }
}
fn show_val(v: &[u8]) -> String {
    format!("{}/{}", v.len(), fnv(v))
}
fn show_pairs(l: &[(Vec<u8>, Vec<u8>)]) -> String {
    let parts: Vec<String> = l.iter().map(|(k, v)| format!("{}={}", show_key(k), show_val(v))).collect();
    format!("list:{}", parts.join(","))
}

fn be32(b: &[u8], o: usize) -> u32 {
    u32::from_be_bytes(b[o..o + 4].try_into().unwrap())
}
fn be64(b: &[u8], o: usize) -> u64 {
    u64::from_be_bytes(b[o..o + 8].try_into().unwrap())
}

#[derive(Clone, Debug, PartialEq)]
struct Hdr {
    root: u64,
    head: u64,
    total: u64,
    first_leaf: u64,
    count: u32,
}
fn parse_hdr(b: &[u8]) -> Option<Hdr> {
    if b.len() < 48 || &b[0..8] != b"BPTREE01" {
        return None;
    }
    Some(Hdr { root: be64(b, 12), head: be64(b, 20), total: be64(b, 28), first_leaf: be64(b, 36), count: be32(b, 44) })
}
#[derive(Clone, Debug, PartialEq)]
struct Trunk {
    next: u64,
    entries: Vec<u32>,
}
fn parse_trunk(b: &[u8]) -> Option<Trunk> {
    if b.len() != PS || b[0] != 2 {
        return None;
    }
    let n = be32(b, 9) as usize;
    if n > TRUNK_MAX {
        return None;
    }
    Some(Trunk { next: be64(b, 1), entries: (0..n).map(|i| be32(b, TRUNK_HDR + 4 * i)).collect() })
}

fn ranges(s: &BTreeSet<u64>) -> String {
    if s.is_empty() {
        return "-".into();
    }
    let mut out = Vec::new();
    let mut it = s.iter();
    let mut a = *it.next().unwrap();
    let mut b = a;
    for &x in it {
        if x == b + 1 {
            b = x;
        } else {
            out.push(if a == b { format!("{}", a) } else { format!("{}-{}", a, b) });
            a = x;
            b = x;
        }
    }
    out.push(if a == b { format!("{}", a) } else { format!("{}-{}", a, b) });
    out.join(",")
}

/// What the file says, read without the crate.
struct Scan {
    hdr: Option<Hdr>,
    flen: u64,
    nodes: BTreeSet<u64>,
    leaf_ovf: BTreeSet<u64>,
    int_ovf: BTreeSet<u64>,
    chain: Vec<(u64, Trunk)>,
    entries: usize,
    height: usize,
    leaves: usize,
    internals: usize,
    pairs: usize,
    problems: Vec<String>,
    empty_leaves: usize,              // leaves without entries below an internal node
    leaf_order: Vec<(u64, u64, u64)>, // (page, next, prev) in key order
    multi: Vec<u64>,                  // pages referenced more than once
}

fn page(data: &[u8], p: u64) -> Option<&[u8]> {
    let o = (p as usize).checked_mul(PS)?;
    if p == 0 || o + PS > data.len() {
        None
    } else {
        Some(&data[o..o + PS])
    }
}

impl Scan {
    fn claim(&mut self, set: u8, p: u64) {
        let dup = self.nodes.contains(&p) || self.leaf_ovf.contains(&p) || self.int_ovf.contains(&p);
        if dup {
            self.multi.push(p);
        }
        match set {
            0 => self.nodes.insert(p),
            1 => self.leaf_ovf.insert(p),
            _ => self.int_ovf.insert(p),
        };
    }
    /// follow an overflow chain; returns the bytes stored in it
    fn chain_data(&mut self, data: &[u8], first: u64, set: u8, want: usize, owner: &str) -> Vec<u8> {
        let mut out = Vec::new();
        let mut cur = first;
        let mut guard = 0;
        while cur != 0 {
            guard += 1;
            if guard > 1_000_000 {
                self.problems.push("overflow-chain-cycle".into());
                break;
            }
            if cur % PS as u64 != 0 {
                self.problems.push(format!("overflow-ptr-misaligned@{}", cur));
                break;
            }
            let p = cur / PS as u64;
            match page(data, p) {
                Some(b) if b[0] == 3 => {
                    self.claim(set, p);
                    let n = be32(b, 9) as usize;
                    if n > OVF_CAP {
                        self.problems.push(format!("overflow-len@{}", p));
                        break;
                    }
                    out.extend_from_slice(&b[13..13 + n]);
                    cur = be64(b, 1);
                }
                _ => {
                    self.problems.push(format!("overflow-chain-hits-non-overflow-page@{}", p));
                    break;
                }
            }
        }
        if out.len() != want {
            self.problems.push(format!("{}-chain-length@{}:{}!={}", if set == 2 { "ikey" } else { "cell" }, owner, out.len(), want));
        }
        out
    }

    /// returns (height, min key, max key) of the subtree
    fn walk(&mut self, data: &[u8], off: u64, cmp: &dyn Comparator, depth: usize) -> Option<(usize, Option<Vec<u8>>, Option<Vec<u8>>)> {
        if depth > 64 {
            self.problems.push("tree-too-deep-or-cyclic".into());
            return None;
        }
        if off % PS as u64 != 0 {
            self.problems.push(format!("child-ptr-misaligned@{}", off));
            return None;
        }
        let p = off / PS as u64;
        let b = match page(data, p) {
            Some(b) => b,
            None => {
                self.problems.push(format!("child-ptr-outside-file@{}", p));
                return None;
            }
        };
        self.claim(0, p);
        match b[0] {
            1 => {
                self.leaves += 1;
                let n = be32(b, 1) as usize;
                if n == 0 && depth > 0 {
                    self.empty_leaves += 1;
                }
                let next = be64(b, 5);
                let prev = be64(b, 13);
                self.leaf_order.push((p, next / PS as u64, prev / PS as u64));
                let mut pos = LEAF_HDR;
                let mut keys: Vec<Vec<u8>> = Vec::new();
                for _ in 0..n {
                    if pos + 8 > PS {
                        self.problems.push(format!("leaf-truncated@{}", p));
                        return None;
                    }
                    let kl = be32(b, pos) as usize;
                    let vl = be32(b, pos + 4) as usize;
                    pos += 8;
                    let (on, ov) = calc_overflow(kl + vl, LEAF_MIN_LOCAL, LEAF_MAX_LOCAL);
                    if pos + on + if ov { 8 } else { 0 } > PS {
                        self.problems.push(format!("leaf-cell-outside-page@{}", p));
                        return None;
                    }
                    let mut cell = b[pos..pos + on].to_vec();
                    pos += on;
                    if ov {
                        let o = be64(b, pos);
                        pos += 8;
                        if o == 0 {
                            self.problems.push(format!("leaf-cell-missing-overflow@{}", p));
                        }
                        let rest = self.chain_data(data, o, 1, kl + vl - on, &format!("{}#{}", p, keys.len()));
                        cell.extend_from_slice(&rest);
                    }
                    cell.truncate(kl.min(cell.len()));
                    keys.push(cell);
                    self.pairs += 1;
                }
                for w in keys.windows(2) {
                    if cmp.compare(&w[0], &w[1]) != std::cmp::Ordering::Less {
                        self.problems.push(format!("leaf-keys-not-ascending@{}", p));
                        break;
                    }
                }
                Some((1, keys.first().cloned(), keys.last().cloned()))
            }
            0 => {
                self.internals += 1;
                let n = be32(b, 1) as usize;
                let mut pos = 5;
                let mut keys: Vec<Vec<u8>> = Vec::new();
                let mut chained: Vec<bool> = Vec::new();
                for _ in 0..n {
                    if pos + 4 > PS {
                        self.problems.push(format!("internal-truncated@{}", p));
                        return None;
                    }
                    let kl = be32(b, pos) as usize;
                    pos += 4;
                    let (on, ov) = calc_overflow(kl, INT_MIN_LOCAL, INT_MAX_LOCAL);
                    chained.push(ov);
                    if pos + on + if ov { 8 } else { 0 } > PS {
                        self.problems.push(format!("internal-key-outside-page@{}", p));
                        return None;
                    }
                    let mut k = b[pos..pos + on].to_vec();
                    pos += on;
                    if ov {
                        let o = be64(b, pos);
                        pos += 8;
                        if o == 0 {
                            self.problems.push(format!("internal-key-missing-overflow@{}", p));
                        }
                        let rest = self.chain_data(data, o, 2, kl - on, &format!("{}#{}", p, keys.len()));
                        k.extend_from_slice(&rest);
                    }
                    keys.push(k);
                }
                if pos + 4 > PS {
                    self.problems.push(format!("internal-truncated@{}", p));
                    return None;
                }
                let nc = be32(b, pos) as usize;
                pos += 4;
                if nc != n + 1 || pos + 8 * nc > PS {
                    self.problems.push(format!("internal-child-count@{}:{}keys,{}children", p, n, nc));
                    return None;
                }
                let mark = |i: usize| if chained[i] { "*" } else { "" };
                for i in 0..keys.len().saturating_sub(1) {
                    if cmp.compare(&keys[i], &keys[i + 1]) != std::cmp::Ordering::Less {
                        self.problems.push(format!("internal-keys-not-ascending@{}#{}{}", p, i, if chained[i] || chained[i + 1] { "*" } else { "" }));
                        break;
                    }
                }
                let mut h = None;
                let mut lo = None;
                let mut hi = None;
                for i in 0..nc {
                    let c = be64(b, pos + 8 * i);
                    if let Some((ch, cl, chi)) = self.walk(data, c, cmp, depth + 1) {
                        match h {
                            None => h = Some(ch),
                            Some(x) if x != ch => self.problems.push(format!("leaves-at-different-depths-under@{}", p)),
                            _ => {}
                        }
                        // separator i-1 <= every key of child i < separator i
                        if let (Some(l), true) = (&cl, i > 0) {
                            if cmp.compare(&keys[i - 1], l) == std::cmp::Ordering::Greater {
                                self.problems.push(format!("separator-above-right-subtree@{}#{}{}", p, i - 1, mark(i - 1)));
                            }
                        }
                        if let (Some(x), true) = (&chi, i < n) {
                            if cmp.compare(x, &keys[i]) != std::cmp::Ordering::Less {
                                self.problems.push(format!("separator-not-above-left-subtree@{}#{}{}", p, i, mark(i)));
                            }
                        }
                        if lo.is_none() {
                            lo = cl;
                        }
                        if chi.is_some() {
                            hi = chi;
                        }
                    }
                }
                Some((h.unwrap_or(0) + 1, lo, hi))
            }
            t => {
                self.problems.push(format!("tree-reaches-page-of-type-{}@{}", t, p));
                None
            }
        }
    }
}

fn scan_file(path: &std::path::Path, cmp: &dyn Comparator) -> Scan {
    let data = std::fs::read(path).unwrap_or_default();
    let mut s = Scan {
        hdr: None,
        flen: data.len() as u64,
        nodes: BTreeSet::new(),
        leaf_ovf: BTreeSet::new(),
        int_ovf: BTreeSet::new(),
        chain: Vec::new(),
        entries: 0,
        height: 0,
        leaves: 0,
        internals: 0,
        pairs: 0,
        problems: Vec::new(),
        empty_leaves: 0,
        leaf_order: Vec::new(),
        multi: Vec::new(),
    };
    s.hdr = parse_hdr(&data);
    let h = match s.hdr.clone() {
        Some(h) => h,
        None => {
            s.problems.push("bad-header".into());
            return s;
        }
    };
    if let Some((ht, _, _)) = s.walk(&data, h.root, cmp, 0) {
        s.height = ht;
    }
    // leaf chain must be the in-order sequence of leaves
    let lo = s.leaf_order.clone();
    for (i, (p, next, prev)) in lo.iter().enumerate() {
        let want_next = if i + 1 < lo.len() { lo[i + 1].0 } else { 0 };
        let want_prev = if i > 0 { lo[i - 1].0 } else { 0 };
        if *next != want_next {
            s.problems.push(format!("leaf-next-pointer@{}:{}!={}", p, next, want_next));
        }
        if *prev != want_prev {
            s.problems.push(format!("leaf-prev-pointer@{}:{}!={}", p, prev, want_prev));
        }
    }
    if let Some((p, _, _)) = lo.first() {
        if *p != h.first_leaf / PS as u64 {
            s.problems.push(format!("first-leaf-offset:{}!={}", h.first_leaf / PS as u64, p));
        }
    }
    // free list
    let mut cur = h.head;
    let mut seen = BTreeSet::new();
    while cur != 0 {
        let p = cur / PS as u64;
        if cur % PS as u64 != 0 || !seen.insert(p) {
            s.problems.push(format!("trunk-chain-cycle-or-misaligned@{}", cur));
            break;
        }
        match page(&data, p).and_then(parse_trunk) {
            Some(t) => {
                s.entries += t.entries.len();
                cur = t.next;
                s.chain.push((p, t));
            }
            None => {
                s.problems.push(format!("trunk-chain-hits-non-trunk-page@{}", p));
                break;
            }
        }
    }
    s
}

fn chain_str(total: u64, head: u64, count: u32, chain: &[(u64, Vec<u32>)]) -> String {
    let parts: Vec<String> = chain
        .iter()
        .map(|(p, e)| {
            let body: Vec<String> = e.iter().map(|x| x.to_string()).collect();
            format!("{}:{}:{}", p, e.len(), fnv(body.join(".").as_bytes()))
        })
        .collect();
    format!("st={},{},{},[{}]", total, head, count, parts.join(";"))
}

pub struct Bpt {
    dir: Option<tempfile::TempDir>,
    path: std::path::PathBuf,
    cmp: Arc<dyn Comparator>,
    tree: Option<BPlusTree<TraceFile>>,
    log: Option<WriteLog>,
    hdr: Hdr,
    shadow: HashMap<u64, Trunk>, // trunk pages of the chain, keyed by byte offset
}

impl Bpt {
    pub fn new() -> Self {
        Bpt {
            dir: None,
            path: Default::default(),
            cmp: Arc::new(BytewiseComparator {}),
            tree: None,
            log: None,
            hdr: Hdr { root: 0, head: 0, total: 0, first_leaf: 0, count: 0 },
            shadow: HashMap::new(),
        }
    }

    fn open(&mut self) -> Result<(), String> {
        let (t, log) = open_traced(&self.path, Arc::clone(&self.cmp)).map_err(|e| format!("err:{}", e.to_string().replace(' ', "_")))?;
        log.lock().unwrap().clear();
        self.tree = Some(t);
        self.log = Some(log);
        self.reload();
        Ok(())
    }

    /// header and trunk chain as the file has them now
    fn reload(&mut self) {
        let data = std::fs::read(&self.path).unwrap_or_default();
        self.shadow.clear();
        if let Some(h) = parse_hdr(&data) {
            let mut cur = h.head;
            let mut guard = 0;
            while cur != 0 && guard < 100000 {
                guard += 1;
                match page(&data, cur / PS as u64).and_then(parse_trunk) {
                    Some(t) => {
                        let n = t.next;
                        self.shadow.insert(cur, t);
                        cur = n;
                    }
                    None => break,
                }
            }
            self.hdr = h;
        }
    }

    fn state(&self) -> String {
        let mut chain = Vec::new();
        let mut cur = self.hdr.head;
        let mut guard = 0;
        while cur != 0 && guard < 100000 {
            guard += 1;
            match self.shadow.get(&cur) {
                Some(t) => {
                    chain.push((cur / PS as u64, t.entries.clone()));
                    cur = t.next;
                }
                None => {
                    chain.push((cur / PS as u64, vec![u32::MAX]));
                    break;
                }
            }
        }
        chain_str(self.hdr.total, self.hdr.head / PS as u64, self.hdr.count, &chain)
    }

    /// allocator calls reconstructed from the header / trunk-page writes since the last call
    fn trace(&mut self) -> String {
        let evs: Vec<_> = match &self.log {
            Some(l) => std::mem::take(&mut *l.lock().unwrap()),
            None => Vec::new(),
        };
        let mut ops: Vec<String> = Vec::new();
        let mut last_trunk: Option<(u64, Option<Trunk>, Trunk)> = None;
        for ev in evs {
            if ev.offset == 0 {
                let h = match ev.data.as_deref().and_then(parse_hdr) {
                    Some(h) => h,
                    None => {
                        ops.push("?bad-header-write".into());
                        continue;
                    }
                };
                let p = self.hdr.clone();
                if h.total == p.total + 1 && h.head == p.head && h.count == p.count {
                    ops.push(format!("a{}", p.total));
                } else if h.total == p.total && h.head == p.head && h.count + 1 == p.count {
                    match last_trunk.take() {
                        Some((_, Some(before), after)) if !before.entries.is_empty() && after.entries[..] == before.entries[..before.entries.len() - 1] && after.next == before.next => {
                            ops.push(format!("a{}", before.entries[before.entries.len() - 1]));
                        }
                        _ => ops.push("?pop-without-matching-trunk-write".into()),
                    }
                } else if h.total == p.total && h.head == p.head && h.count == p.count + 1 {
                    match last_trunk.take() {
                        Some((_, Some(before), after)) if !after.entries.is_empty() && before.entries[..] == after.entries[..after.entries.len() - 1] && after.next == before.next => {
                            ops.push(format!("f{}", after.entries[after.entries.len() - 1]));
                        }
                        _ => ops.push("?push-without-matching-trunk-write".into()),
                    }
                } else if h.total == p.total && h.count == p.count && h.head != p.head {
                    if p.head == 0 {
                        ops.push(format!("f{}", h.head / PS as u64));
                    } else {
                        // an empty trunk page is unlinked and handed out
                        match self.shadow.remove(&p.head) {
                            Some(t) if t.entries.is_empty() && t.next == h.head => ops.push(format!("a{}", p.head / PS as u64)),
                            _ => ops.push("?head-change-not-an-unlink".into()),
                        }
                    }
                } else if h.total == p.total && h.count == p.count && h.head == p.head && h.first_leaf == p.first_leaf {
                    // root change (or a rewrite of the same header)
                } else {
                    ops.push("?unexplained-header-write".into());
                }
                self.hdr = h;
            } else if ev.first == 2 {
                let t = match ev.data.as_deref().and_then(parse_trunk) {
                    Some(t) => t,
                    None => {
                        ops.push("?bad-trunk-write".into());
                        continue;
                    }
                };
                let before = self.shadow.get(&ev.offset).cloned();
                if before.is_none() {
                    if self.hdr.head == ev.offset && t.entries.is_empty() && t.next == 0 {
                        // trunk page of a free_page() that found an empty list: recorded at the header write
                    } else {
                        match &last_trunk {
                            Some((_, Some(b), a)) if a.next == ev.offset && b.next == 0 && a.entries == b.entries && t.entries.is_empty() && t.next == 0 => {
                                ops.push(format!("f{}", ev.offset / PS as u64));
                            }
                            _ => ops.push("?new-trunk-page-not-linked".into()),
                        }
                    }
                }
                self.shadow.insert(ev.offset, t.clone());
                last_trunk = Some((ev.offset, before, t));
            } else {
                // a node written over a page that the shadow still holds as trunk page
                if self.shadow.contains_key(&ev.offset) {
                    // legal only if the page was unlinked before (then it is no longer in the shadow)
                    ops.push(format!("?node-write-over-chained-trunk@{}", ev.offset / PS as u64));
                }
            }
        }
        if ops.is_empty() {
            "tr=-".into()
        } else {
            format!("tr={}", ops.join(","))
        }
    }

    fn tail(&mut self) -> String {
        let t = self.trace();
        format!(" | {} {}", t, self.state())
    }

    fn bound<'a>(t: &str, store: &'a mut Vec<u8>) -> std::ops::Bound<&'a [u8]> {
        if t == "u" {
            return std::ops::Bound::Unbounded;
        }
        *store = tok(&t[2..]);
        if t.starts_with("i:") {
            std::ops::Bound::Included(&store[..])
        } else {
            std::ops::Bound::Excluded(&store[..])
        }
    }

    pub fn cmd(&mut self, a: &[&str]) -> String {
        match a {
            ["params"] => format!(
                "PAGE_SIZE={} TRUNK_MAX={} OVF_CAP={} LEAF_LOCAL={},{} INT_LOCAL={},{}",
                PS, TRUNK_MAX, OVF_CAP, LEAF_MIN_LOCAL, LEAF_MAX_LOCAL, INT_MIN_LOCAL, INT_MAX_LOCAL
            ),
            ["new", c] => {
                self.tree = None;
                self.dir = None;
                let d = tempfile::tempdir().unwrap();
                self.path = d.path().join("index.bpt");
                self.dir = Some(d);
                self.cmp = if *c == "ts" { Arc::new(TimestampComparator::new(Arc::new(BytewiseComparator {}))) } else { Arc::new(BytewiseComparator {}) };
                match self.open() {
                    Ok(()) => format!("ok | tr=- {}", self.state()),
                    Err(e) => e,
                }
            }
            ["reopen"] => {
                if let Some(t) = self.tree.take() {
                    if let Err(e) = t.close() {
                        return format!("err:close:{}", e.to_string().replace(' ', "_"));
                    }
                    drop(t);
                }
                match self.open() {
                    Ok(()) => format!("ok | tr=- {}", self.state()),
                    Err(e) => e,
                }
            }
            ["ins", k, v] => {
                let (k, v) = (tok(k), tok(v));
                let r = self.tree.as_mut().unwrap().insert(&k, &v);
                let head = match r {
                    Ok(()) => "ok".to_string(),
                    Err(e) => format!("err:{}", e.to_string().replace(' ', "_")),
                };
                head + &self.tail()
            }
            ["del", k] => {
                let k = tok(k);
                let r = self.tree.as_mut().unwrap().delete(&k);
                let head = match r {
                    Ok(None) => "val:none".to_string(),
                    Ok(Some(v)) => format!("val:{}", show_val(&v)),
                    Err(e) => format!("err:{}", e.to_string().replace(' ', "_")),
                };
                head + &self.tail()
            }
            ["get", k] => {
                let k = tok(k);
                match self.tree.as_ref().unwrap().get(&k) {
                    Ok(None) => "val:none".to_string(),
                    Ok(Some(v)) => format!("val:{}", show_val(&v)),
                    Err(e) => format!("err:{}", e.to_string().replace(' ', "_")),
                }
            }
            ["range", lo, hi] => {
                let (mut s1, mut s2) = (Vec::new(), Vec::new());
                let lo = Self::bound(lo, &mut s1);
                let hi = Self::bound(hi, &mut s2);
                let t = self.tree.as_ref().unwrap();
                let it = match t.range((lo, hi)) {
                    Ok(it) => it,
                    Err(e) => return format!("err:{}", e.to_string().replace(' ', "_")),
                };
                let mut out = Vec::new();
                for r in it {
                    match r {
                        Ok((k, v)) => out.push((k.to_vec(), v.to_vec())),
                        Err(e) => return format!("err:{}", e.to_string().replace(' ', "_")),
                    }
                    if out.len() > 2_000_000 {
                        return "err:range-does-not-end".into();
                    }
                }
                show_pairs(&out)
            }
            ["scan", dir] => {
                let t = self.tree.as_ref().unwrap();
                let mut it = t.internal_iterator();
                let mut out = Vec::new();
                let mut ok = if *dir == "f" { it.seek_first() } else { it.seek_last() };
                loop {
                    match ok {
                        Ok(true) => {
                            out.push((it.key().encoded().to_vec(), it.value_encoded().unwrap().to_vec()));
                            if out.len() > 2_000_000 {
                                return "err:scan-does-not-end".into();
                            }
                            ok = if *dir == "f" { it.next() } else { it.prev() };
                        }
                        Ok(false) => break,
                        Err(e) => return format!("err:{}", e.to_string().replace(' ', "_")),
                    }
                }
                show_pairs(&out)
            }
            ["seek", k, n, dir] => {
                let k = tok(k);
                let n: usize = n.parse().unwrap();
                let t = self.tree.as_ref().unwrap();
                let mut it = t.internal_iterator();
                let mut out = Vec::new();
                let mut ok = it.seek(&k);
                let mut steps = 0;
                loop {
                    match ok {
                        Ok(true) => {
                            out.push((it.key().encoded().to_vec(), it.value_encoded().unwrap().to_vec()));
                            if steps == n {
                                break;
                            }
                            steps += 1;
                            ok = if *dir == "f" { it.next() } else { it.prev() };
                        }
                        Ok(false) => break,
                        Err(e) => return format!("err:{}", e.to_string().replace(' ', "_")),
                    }
                }
                if out.is_empty() {
                    "invalid".into()
                } else {
                    show_pairs(&out)
                }
            }
            ["stats"] => {
                let s = scan_file(&self.path, self.cmp.as_ref());
                let h = s.hdr.clone().unwrap_or(Hdr { root: 0, head: 0, total: 0, first_leaf: 0, count: 0 });
                let chain: Vec<(u64, Vec<u32>)> = s.chain.iter().map(|(p, t)| (*p, t.entries.clone())).collect();
                let trunks: BTreeSet<u64> = s.chain.iter().map(|(p, _)| *p).collect();
                let mut free: BTreeSet<u64> = BTreeSet::new();
                let mut dupfree = Vec::new();
                for (_, t) in &s.chain {
                    for e in &t.entries {
                        if !free.insert(*e as u64) {
                            dupfree.push(*e as u64);
                        }
                    }
                }
                let mut live = s.nodes.clone();
                live.extend(s.leaf_ovf.iter());
                live.extend(s.int_ovf.iter());
                let mut problems = s.problems.clone();
                for p in &s.multi {
                    problems.push(format!("page-referenced-twice@{}", p));
                }
                for p in &dupfree {
                    problems.push(format!("page-twice-in-free-list@{}", p));
                }
                format!(
                    "n={} lovf={} | total={} root={} flen={} height={} leaves={} empty={} internals={} iovf={} trunks={} entries={} nodes={} lovfp={} iovfp={} live={} free={} {} problems={}",
                    s.pairs,
                    s.leaf_ovf.len(),
                    h.total,
                    h.root / PS as u64,
                    s.flen,
                    s.height,
                    s.leaves,
                    s.empty_leaves,
                    s.internals,
                    s.int_ovf.len(),
                    ranges(&trunks),
                    s.entries,
                    ranges(&s.nodes),
                    ranges(&s.leaf_ovf),
                    ranges(&s.int_ovf),
                    ranges(&live),
                    ranges(&free),
                    chain_str(h.total, h.head / PS as u64, h.count, &chain),
                    if problems.is_empty() { "-".to_string() } else { problems.join(";") }
                )
            }
            _ => "bad-command".into(),
        }
    }
}
