//! E6 — damage sweeps (C16).  One `dmg case` = copy a closed database directory, alter one file of
//! the copy (one byte, or a truncation), open the copy with the real engine (through the E2 engine
//! of this harness), run the registered read set, close; answer: one line with the outcome of the
//! open, every read answer (tab separated) and the close.  Panics inside any step are caught and
//! reported as `PANIC:` in that step's field; an abort / a hang shows as a dead / silent process to
//! tools/vlib/c16.py, which runs the cases in lock step.
use crate::e2::E2;
use crate::util::*;
use std::path::{Path, PathBuf};
use surrealkv::verif::damage as fd;
use surrealkv::verif::wal as fw;

pub struct Dmg {
    readset: Vec<Vec<String>>,
}

fn copy_dir(src: &Path, dst: &Path) -> std::io::Result<()> {
    std::fs::create_dir_all(dst)?;
    for e in std::fs::read_dir(src)? {
        let e = e?;
        let p = e.path();
        let q = dst.join(e.file_name());
        if p.is_dir() {
            copy_dir(&p, &q)?;
        } else {
            std::fs::copy(&p, &q)?;
        }
    }
    Ok(())
}

fn hl(h: &(u64, u64)) -> String {
    format!("{}:{}", h.0, h.1)
}
fn hls(v: &[(u64, u64)]) -> String {
    if v.is_empty() {
        "-".into()
    } else {
        v.iter().map(hl).collect::<Vec<_>>().join(",")
    }
}

/// apply one alteration to the file; returns a description of what changed (old->new byte)
fn alter(path: &Path, kind: &str, off: usize, val: u8) -> Result<String, String> {
    let mut b = std::fs::read(path).map_err(|e| format!("read:{}", e))?;
    let d = match kind {
        "none" => "none".to_string(),
        "trunc" => {
            if off > b.len() {
                return Err("trunc-beyond-end".into());
            }
            b.truncate(off);
            format!("trunc@{}", off)
        }
        "set" | "xor" | "add" => {
            if off >= b.len() {
                return Err("offset-beyond-end".into());
            }
            let old = b[off];
            let new = match kind {
                "set" => val,
                "xor" => old ^ val,
                _ => old.wrapping_add(val),
            };
            b[off] = new;
            format!("{:02x}->{:02x}@{}", old, new, off)
        }
        _ => return Err("bad-kind".into()),
    };
    std::fs::write(path, &b).map_err(|e| format!("write:{}", e))?;
    Ok(d)
}

fn guarded<F: FnOnce() -> String>(f: F) -> String {
    match std::panic::catch_unwind(std::panic::AssertUnwindSafe(f)) {
        Ok(s) => s,
        Err(e) => {
            let m = e.downcast_ref::<String>().cloned().or_else(|| e.downcast_ref::<&str>().map(|s| s.to_string())).unwrap_or_default();
            format!("PANIC:{}", m.replace(['\n', '\t'], " "))
        }
    }
}

impl Dmg {
    pub fn new() -> Self {
        Dmg { readset: Vec::new() }
    }
    pub fn cmd(&mut self, a: &[&str]) -> String {
        match a {
            ["params"] => {
                let (cl, ck, full, enc, vh, vp) = fd::params();
                format!("BLOCK_COMPRESS_LEN={} BLOCK_CKSUM_LEN={} TABLE_FULL_FOOTER_LENGTH={} footer0={} VLOG_HEADER_SIZE={} VALUE_POINTER_SIZE={}", cl, ck, full, bytes_to_hex(&enc), vh, vp)
            }
            ["layout", path] => match fd::table_layout(Path::new(path)) {
                Err(e) => format!("err:{}", e.replace(' ', "_")),
                Ok(l) => format!(
                    "len={} data={} filter={} parts={} top={} meta={} fhl={} vptrs={}",
                    l.file_len,
                    hls(&l.data),
                    l.filter.as_ref().map(hl).unwrap_or_else(|| "-".into()),
                    hls(&l.partitions),
                    hl(&l.top_index),
                    hl(&l.meta),
                    l.footer_handles_len,
                    if l.value_pointers.is_empty() { "-".to_string() } else { l.value_pointers.iter().map(|p| format!("{}:{}:{}:{}:{}", p.0, p.1, p.2, p.3, p.4)).collect::<Vec<_>>().join(",") }
                ),
            },
            ["walends", path] => match fw::read_segment(Path::new(path)) {
                Err(e) => format!("err:{}", e.replace(' ', "_")),
                Ok((recs, t)) => {
                    let ends: Vec<String> = recs.iter().map(|(r, e)| format!("{}:{}", r.len(), e)).collect();
                    let tail = match t {
                        fw::Tail::Eof => "eof".to_string(),
                        fw::Tail::Corrupt(_, off) => format!("corrupt:{}", off),
                        fw::Tail::Other(m) => format!("other:{}", m.replace(' ', "_")),
                    };
                    format!("n={} recs={} tail={}", recs.len(), if ends.is_empty() { "-".to_string() } else { ends.join(",") }, tail)
                }
            },
            ["rs", "clear"] => {
                self.readset.clear();
                "ok".into()
            }
            ["rs", "add", rest @ ..] => {
                self.readset.push(rest.iter().map(|s| s.to_string()).collect());
                "ok".into()
            }
            ["case", src, dst, opts, rel, kind, off, val, verbose] => {
                let verbose = *verbose != "0";
                let dst = PathBuf::from(dst);
                let _ = std::fs::remove_dir_all(&dst);
                if let Err(e) = copy_dir(Path::new(src), &dst) {
                    return format!("setup-err:copy:{}", e);
                }
                let what = if *kind == "none" {
                    "none".to_string()
                } else {
                    match alter(&dst.join(rel), kind, off.parse().unwrap(), val.parse::<u16>().unwrap() as u8) {
                        Ok(d) => d,
                        Err(e) => return format!("setup-err:{}", e),
                    }
                };
                let mut fields: Vec<String> = vec![format!("alt={}", what)];
                let mut eng = E2::at(dst.to_str().unwrap());
                let o = guarded(|| eng.cmd(&["open", opts]));
                fields.push(format!("open={}", o));
                if o == "ok" {
                    for c in &self.readset {
                        let toks: Vec<&str> = c.iter().map(|s| s.as_str()).collect();
                        let r = guarded(|| eng.cmd(&toks));
                        if verbose || r.len() <= 40 || r.starts_with("PANIC") || r.starts_with("err") {
                            fields.push(r);
                        } else {
                            fields.push(format!("~{}", fnv(r.as_bytes())));
                        }
                    }
                    let c = guarded(|| eng.close_tree());
                    fields.push(format!("close={}", c));
                }
                let d = guarded(|| {
                    drop(eng);
                    "ok".to_string()
                });
                if d != "ok" {
                    fields.push(format!("drop={}", d));
                }
                let _ = std::fs::remove_dir_all(&dst);
                fields.join("\t")
            }
            _ => "bad-command".into(),
        }
    }
}
