//! E1 engine for the commit-log framing (C12): same script language as driver/main.ml.
use crate::util::*;
use std::collections::HashMap;
use std::path::PathBuf;
use surrealkv::verif::wal as fw;

pub struct WalEngine {
    files: HashMap<String, Vec<u8>>,
    dir: tempfile::TempDir,
    n: usize,
}

fn parse_sessions(s: &str) -> Vec<Vec<Vec<u8>>> {
    s.split(';')
        .map(|sess| if sess.is_empty() { vec![] } else { sess.split(',').map(bytes_tok).collect() })
        .collect()
}

fn mutate(f: &[u8], m: &[&str]) -> Vec<u8> {
    let mut v = f.to_vec();
    match m {
        ["full"] => {}
        ["trunc", k] => v.truncate(k.parse().unwrap()),
        ["set", p, b] => {
            let p: usize = p.parse().unwrap();
            if p < v.len() {
                v[p] = b.parse::<u16>().unwrap() as u8;
            }
        }
        ["xor", p, b] => {
            let p: usize = p.parse().unwrap();
            if p < v.len() {
                v[p] ^= b.parse::<u16>().unwrap() as u8;
            }
        }
        _ => panic!("bad mutation"),
    }
    v
}

pub fn why(msg: &str) -> u32 {
    if msg.contains("Invalid Record Type") {
        1
    } else if msg.contains("non-zero byte in padding") {
        2
    } else if msg.contains("Unexpected") || msg.contains("Invalid record type") {
        3
    } else if msg.contains("bad record length") {
        4
    } else if msg.contains("checksum mismatch") {
        5
    } else if msg.contains("truncated compression type record") {
        6
    } else if msg.contains("Invalid Compression Type") {
        7
    } else if msg.contains("decompression failed") {
        8
    } else {
        0
    }
}

impl WalEngine {
    pub fn new() -> Self {
        WalEngine { files: HashMap::new(), dir: tempfile::tempdir().unwrap(), n: 0 }
    }
    fn fresh(&mut self) -> PathBuf {
        self.n += 1;
        let p = self.dir.path().join(format!("w{}", self.n));
        std::fs::create_dir_all(&p).unwrap();
        p
    }
    fn seg(dir: &PathBuf) -> PathBuf {
        dir.join("00000000000000000000.wal")
    }
    fn run_sessions(&mut self, start: Option<&[u8]>, comp: bool, sess: &str) -> Result<Vec<u8>, String> {
        let d = self.fresh();
        if let Some(b) = start {
            if !b.is_empty() {
                std::fs::write(Self::seg(&d), b).unwrap();
            }
        }
        for s in parse_sessions(sess) {
            fw::write_session(&d, &s, comp)?;
        }
        let out = std::fs::read(Self::seg(&d)).unwrap_or_default();
        std::fs::remove_dir_all(&d).ok();
        Ok(out)
    }
    fn read(&mut self, bytes: &[u8]) -> String {
        let d = self.fresh();
        let p = Self::seg(&d);
        std::fs::write(&p, bytes).unwrap();
        let r = fw::read_segment(&p);
        std::fs::remove_dir_all(&d).ok();
        match r {
            Err(e) => format!("error:{}", e),
            Ok((recs, t)) => {
                let parts: Vec<String> =
                    recs.iter().map(|(r, e)| format!("{}/{}@{}", r.len(), fnv(r), e)).collect();
                let tail = match t {
                    fw::Tail::Eof => "eof".to_string(),
                    fw::Tail::Corrupt(m, off) => format!("corrupt:{}:{}", why(&m), off),
                    fw::Tail::Other(m) => format!("other:{}", m),
                };
                format!("n={} [{}] {}", recs.len(), parts.join(","), tail)
            }
        }
    }
    pub fn cmd(&mut self, a: &[&str]) -> String {
        match a {
            ["params"] => {
                let (b, h) = fw::params();
                format!("BLOCK_SIZE={} HEADER_SIZE={} ok=true", b, h)
            }
            ["write", id, comp, sess] => match self.run_sessions(None, *comp != "0", sess) {
                Err(_) => "openfail".into(),
                Ok(f) => {
                    let s = format!("len={} fnv={}", f.len(), fnv(&f));
                    self.files.insert(id.to_string(), f);
                    s
                }
            },
            ["read", id, m @ ..] => {
                let f = mutate(&self.files[*id], m);
                self.read(&f)
            }
            ["repair", id, newid, m @ ..] => {
                let f = mutate(&self.files[*id], m);
                let d = self.fresh();
                std::fs::write(Self::seg(&d), &f).unwrap();
                let r = fw::repair(&d, 0);
                let out = std::fs::read(Self::seg(&d)).ok();
                let left: Vec<String> = std::fs::read_dir(&d)
                    .unwrap()
                    .map(|e| e.unwrap().file_name().to_string_lossy().to_string())
                    .filter(|n| n != "00000000000000000000.wal")
                    .collect();
                std::fs::remove_dir_all(&d).ok();
                match (r, out) {
                    (Err(e), _) => format!("error:{}", e),
                    (Ok(()), _) if !left.is_empty() => format!("leftover:{}", left.join(",")),
                    (Ok(()), None) => {
                        self.files.insert(newid.to_string(), vec![]);
                        "deleted".into()
                    }
                    (Ok(()), Some(g)) => {
                        let s = format!("len={} fnv={}", g.len(), fnv(&g));
                        self.files.insert(newid.to_string(), g);
                        s
                    }
                }
            }
            ["append", id, newid, sess, m @ ..] => {
                let f = mutate(&self.files[*id], m);
                match self.run_sessions(Some(&f), false, sess) {
                    Err(_) => "openfail".into(),
                    Ok(g) => {
                        let s = format!("len={} fnv={}", g.len(), fnv(&g));
                        self.files.insert(newid.to_string(), g);
                        s
                    }
                }
            }
            ["class", ..] => "class n/a".into(),
            ["reopen", id, newid, sess, m @ ..] => {
                let f = mutate(&self.files[*id], m);
                let d = self.fresh();
                let p = Self::seg(&d);
                std::fs::write(&p, &f).unwrap();
                let t = match fw::read_segment(&p) {
                    Ok((_, t)) => t,
                    Err(e) => return format!("error:{}", e),
                };
                if t != fw::Tail::Eof {
                    if let Err(e) = fw::repair(&d, 0) {
                        return format!("error:repair:{}", e);
                    }
                }
                let start = std::fs::read(&p).unwrap_or_default();
                std::fs::remove_dir_all(&d).ok();
                match self.run_sessions(Some(&start), false, sess) {
                    Err(_) => "openfail".into(),
                    Ok(g) => {
                        let s = format!("len={} fnv={}", g.len(), fnv(&g));
                        self.files.insert(newid.to_string(), g);
                        s
                    }
                }
            }
            _ => "bad-command".into(),
        }
    }
}
