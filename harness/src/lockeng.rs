//! LK — lock engine (property C19): several openers of ONE database directory, in this process
//! (`open/close/drop`) and in child processes (`spawn/pclose/pexit/pkill`; the child is this same
//! binary started as `verif-harness lk-child <dir> <opt>`).  The model side is Misc/Lock.v
//! (driver/main.ml `lk_cmd`).  No facade hook is used: only the public API and the file system.
//!
//! Determinism of `drop`: every in-process opener owns a private tokio runtime.  `Tree::drop`
//! spawns `Core::close` on that runtime; `lk drop` drops the Tree inside the runtime context and then
//! polls `runtime.metrics().num_alive_tasks()` until it is 0 (background tasks stopped AND the
//! spawned close finished, hence the lock released) before answering.  `lk holder` observes the
//! lock itself with a read-only descriptor + `flock(LOCK_EX|LOCK_NB)` (no truncation, unlocked at
//! once), which never changes a byte.
//!
//! `lk dropout` drops the Tree on the harness thread, which is NOT inside any runtime context.  With the
//! repaired `Tree::drop` (F28) that drop runs `Core::close` to completion on a temporary current-thread
//! runtime, so NO waiting is done here: the flock probe is taken the instant `drop` returns (kept for
//! `lk dropprobe`) and must already say `free`.  The opener's own runtime is kept until `lk rtgone`; its
//! shutdown must change nothing any more.
//!
//! Operations of a LIVE store that rewrite its directory: `lk ckpt <i>` / `lk pckpt <p>` (create_checkpoint into the
//! side directory `<tmp>/ckpt`, next to — not inside — the database directory; one per script, replaced by each
//! checkpoint) and `lk restore <i>` / `lk prestore <p>` (restore_from_checkpoint from it; `nockpt` without calling the
//! store if there is none).  The lock is an flock on the INODE that the name `<dir>/LOCK` denotes: every successful
//! open records the inode number of LOCK, `lk lockid <i>` / `lk plockid <p>` compare it with what the name denotes
//! now (`same` / `changed` / `absent`).
use crate::util::*;
use std::collections::BTreeMap;
use std::io::{BufRead, BufReader, Read, Write};
use std::path::{Path, PathBuf};
use std::process::{Child, ChildStdin, ChildStdout, Command, Stdio};
use std::time::{Duration, Instant};
use surrealkv::{Options, Tree, TreeBuilder};

struct Opener {
    rt: tokio::runtime::Runtime,
    tree: Tree,
    /// inode number of `<dir>/LOCK` right after the open succeeded
    lock_ino: Option<u64>,
}

struct Kid {
    child: Child,
    stdin: ChildStdin,
    stdout: BufReader<ChildStdout>,
    lock_ino: Option<u64>,
}

fn ino_of(p: &Path) -> Option<u64> {
    use std::os::unix::fs::MetadataExt;
    std::fs::metadata(p).ok().map(|m| m.ino())
}

/// A flush (create_checkpoint flushes the memtables; a restore may flush while it replays the WAL) spawns the removal
/// of the WAL segments it made obsolete as a task of its own on the store's runtime.  The directory is compared byte
/// for byte after every operation, so that task must be over before the operation is answered: wait until the runtime
/// has no more live tasks than before the call (the store's long-running background tasks).
fn settle(rt: &tokio::runtime::Runtime, before: usize) -> bool {
    let t0 = Instant::now();
    while rt.metrics().num_alive_tasks() > before {
        if t0.elapsed() > Duration::from_secs(20) {
            return false;
        }
        std::thread::sleep(Duration::from_micros(200));
    }
    true
}

fn ckpt_on(rt: &tokio::runtime::Runtime, tree: &Tree, dir: &Path) -> String {
    let _ = std::fs::remove_dir_all(dir);
    let before = rt.metrics().num_alive_tasks();
    let r = {
        let _g = rt.enter();
        tree.create_checkpoint(dir)
    };
    if !settle(rt, before) {
        return "err:background-tasks-did-not-settle".into();
    }
    match r {
        Ok(_) => "ok".into(),
        Err(e) => format!("err:{}", crate::e2::err_name(&e)),
    }
}

fn restore_on(rt: &tokio::runtime::Runtime, tree: &Tree, dir: &Path) -> String {
    if !dir.join("CHECKPOINT_METADATA").exists() {
        return "nockpt".into();
    }
    let before = rt.metrics().num_alive_tasks();
    let r = {
        let _g = rt.enter();
        tree.restore_from_checkpoint(dir)
    };
    if !settle(rt, before) {
        return "err:background-tasks-did-not-settle".into();
    }
    match r {
        Ok(_) => "ok".into(),
        Err(e) => format!("err:{}", crate::e2::err_name(&e)),
    }
}

pub struct Lk {
    dir: tempfile::TempDir,
    openers: BTreeMap<u32, Opener>,
    /// runtimes of openers whose Tree was dropped outside the runtime
    zombies: BTreeMap<u32, tokio::runtime::Runtime>,
    /// what the flock probe said the instant the last `dropout` returned from `drop(tree)` (no waiting)
    drop_probe: String,
    kids: BTreeMap<u32, Kid>,
    /// pid -> process label, for every process that ever opened this directory
    pids: BTreeMap<u32, String>,
}

pub fn make_opts(path: PathBuf, s: &str) -> Options {
    let mut o = Options::new();
    o.path = path;
    o.max_memtable_size = 64 << 20;
    o.level0_max_files = 1000;
    o.l0_stall_threshold = 100000;
    o.memtable_stall_threshold = 100000;
    o.flush_on_close = true;
    for kv in s.split(',') {
        match kv {
            "" | "-" | "plain" => {}
            "vlog" => o.enable_vlog = true,
            "ver" => {
                o.enable_vlog = true;
                o.vlog_value_threshold = 0;
                o.enable_versioning = true;
            }
            "nofoc" => o.flush_on_close = false,
            "bad" => o.level_count = 0,
            _ => panic!("unknown option {}", kv),
        }
    }
    o
}

fn classify(e: &surrealkv::Error) -> String {
    let m = e.to_string();
    if m.contains("already locked") {
        "refused".into()
    } else if let surrealkv::Error::InvalidArgument(_) = e {
        "invalid".into()
    } else {
        format!("err:{}", m.replace(' ', "_"))
    }
}

fn new_rt() -> tokio::runtime::Runtime {
    tokio::runtime::Builder::new_multi_thread().worker_threads(2).enable_all().build().unwrap()
}

fn commit_on(rt: &tokio::runtime::Runtime, tree: &Tree, k: &str, v: &str) -> String {
    let _g = rt.enter();
    let mut tx = match tree.begin() {
        Ok(t) => t,
        Err(e) => return format!("err:{}", crate::e2::err_name(&e)),
    };
    if let Err(e) = tx.set(hex_to_bytes(k), hex_to_bytes(v)) {
        return format!("err:{}", crate::e2::err_name(&e));
    }
    match rt.block_on(tx.commit()) {
        Ok(()) => "ok".into(),
        Err(e) => format!("err:{}", crate::e2::err_name(&e)),
    }
}

fn get_on(rt: &tokio::runtime::Runtime, tree: &Tree, k: &str) -> String {
    let _g = rt.enter();
    let tx = match tree.begin() {
        Ok(t) => t,
        Err(e) => return format!("err:{}", crate::e2::err_name(&e)),
    };
    match tx.get(hex_to_bytes(k)) {
        Ok(Some(v)) => format!("val:{}", bytes_to_hex(&v)),
        Ok(None) => "val:none".into(),
        Err(e) => format!("err:{}", crate::e2::err_name(&e)),
    }
}

fn wait_idle(rt: &tokio::runtime::Runtime) -> bool {
    let t0 = Instant::now();
    loop {
        if rt.metrics().num_alive_tasks() == 0 {
            return true;
        }
        if t0.elapsed() > Duration::from_secs(20) {
            return false;
        }
        std::thread::sleep(Duration::from_micros(200));
    }
}

/// every file and directory below `root`: relative name, kind, size, FNV of the content
fn walk(root: &Path, rel: &str, out: &mut Vec<(String, String)>) {
    let mut names: Vec<_> = std::fs::read_dir(root).unwrap().map(|e| e.unwrap().file_name().into_string().unwrap()).collect();
    names.sort();
    for n in names {
        let p = root.join(&n);
        let r = if rel.is_empty() { n.clone() } else { format!("{}/{}", rel, n) };
        let md = std::fs::symlink_metadata(&p).unwrap();
        if md.is_dir() {
            out.push((r.clone(), "dir".into()));
            walk(&p, &r, out);
        } else {
            let mut b = Vec::new();
            std::fs::File::open(&p).unwrap().read_to_end(&mut b).unwrap();
            out.push((r, format!("file:{}:{}", b.len(), fnv(&b))));
        }
    }
}

impl Lk {
    pub fn new() -> Self {
        Lk { dir: tempfile::tempdir().unwrap(), openers: BTreeMap::new(), zombies: BTreeMap::new(), drop_probe: "none".into(), kids: BTreeMap::new(), pids: BTreeMap::new() }
    }
    fn path(&self) -> PathBuf {
        self.dir.path().join("db")
    }
    fn ckpt_dir(&self) -> PathBuf {
        self.dir.path().join("ckpt")
    }
    fn lock_identity(&self, recorded: Option<u64>) -> String {
        match (ino_of(&self.path().join("LOCK")), recorded) {
            (None, _) => "absent".into(),
            (Some(now), Some(then)) if now == then => "same".into(),
            _ => "changed".into(),
        }
    }
    fn lock_label(&self) -> (String, String) {
        match std::fs::read(self.path().join("LOCK")) {
            Err(_) => ("absent".into(), "-".into()),
            Ok(b) => {
                let s = String::from_utf8_lossy(&b).to_string();
                let label = if b.is_empty() {
                    "empty".to_string()
                } else if let Some(l) = s.strip_suffix('\n').and_then(|x| x.parse::<u32>().ok()).and_then(|pid| self.pids.get(&pid)) {
                    l.clone()
                } else {
                    format!("other:{}", bytes_to_hex(&b))
                };
                (label, fnv(&b))
            }
        }
    }
    fn snapshot(&self) -> String {
        let mut all = Vec::new();
        if self.path().exists() {
            walk(&self.path(), "", &mut all);
        }
        let ser = |v: &Vec<&(String, String)>| {
            let mut s = String::new();
            for (a, b) in v.iter() {
                s.push_str(a);
                s.push('=');
                s.push_str(b);
                s.push('\n');
            }
            fnv(s.as_bytes())
        };
        let everything: Vec<&(String, String)> = all.iter().collect();
        let rest: Vec<&(String, String)> =
            all.iter().filter(|(n, k)| n != "LOCK" && !(k == "dir" && !n.contains('/'))).collect();
        let dirs: Vec<&str> = all.iter().filter(|(n, k)| k == "dir" && !n.contains('/')).map(|(n, _)| n.as_str()).collect();
        let (label, lh) = self.lock_label();
        format!("snap all={} lock={} lockhash={} data={} dirs={} base={} entries={}", ser(&everything), label, lh, ser(&rest),
            if dirs.is_empty() { "-".to_string() } else { dirs.join("+") }, self.path().exists(), all.len())
    }
    /// is the advisory lock on LOCK held by anybody?  Read-only descriptor, released at once.
    fn holder(&self) -> String {
        use std::os::unix::io::AsRawFd;
        extern "C" {
            fn flock(fd: i32, op: i32) -> i32;
        }
        let f = match std::fs::File::open(self.path().join("LOCK")) {
            Ok(f) => f,
            Err(_) => return "absent".into(),
        };
        // LOCK_EX = 2, LOCK_NB = 4, LOCK_UN = 8
        let r = unsafe { flock(f.as_raw_fd(), 2 | 4) };
        if r == 0 {
            unsafe { flock(f.as_raw_fd(), 8) };
            "free".into()
        } else {
            "held".into()
        }
    }
    fn kid_cmd(k: &mut Kid, line: &str) -> String {
        if writeln!(k.stdin, "{}", line).is_err() || k.stdin.flush().is_err() {
            return "err:child-gone".into();
        }
        let mut s = String::new();
        match k.stdout.read_line(&mut s) {
            Ok(n) if n > 0 => s.trim_end().to_string(),
            _ => "err:child-gone".into(),
        }
    }
    pub fn teardown(&mut self) {
        for (_, mut k) in std::mem::take(&mut self.kids) {
            let _ = k.child.kill();
            let _ = k.child.wait();
        }
        for (_, rt) in std::mem::take(&mut self.zombies) {
            rt.shutdown_timeout(Duration::from_secs(5));
        }
        for (_, o) in std::mem::take(&mut self.openers) {
            let Opener { rt, tree, .. } = o;
            let _ = rt.block_on(tree.close());
            drop(tree);
            rt.shutdown_timeout(Duration::from_secs(5));
        }
    }
    pub fn cmd(&mut self, a: &[&str]) -> String {
        match a {
            ["open", i] => self.cmd(&["open", i, "-"]),
            ["open", i, opt] => {
                let n: u32 = i.parse().unwrap();
                if self.openers.contains_key(&n) || self.zombies.contains_key(&n) {
                    return "busy".into();
                }
                self.pids.insert(std::process::id(), "P0".into());
                let rt = new_rt();
                let o = make_opts(self.path(), opt);
                let r = {
                    let _g = rt.enter();
                    TreeBuilder::with_options(o).build()
                };
                match r {
                    Ok(tree) => {
                        let lock_ino = ino_of(&self.path().join("LOCK"));
                        self.openers.insert(n, Opener { rt, tree, lock_ino });
                        "ok".into()
                    }
                    Err(e) => {
                        if !wait_idle(&rt) {
                            return "err:refused-opener-left-tasks".into();
                        }
                        classify(&e)
                    }
                }
            }
            ["close", i] => match self.openers.get(&i.parse().unwrap()) {
                None => "noop".into(),
                Some(o) => match o.rt.block_on(o.tree.close()) {
                    Ok(()) => "ok".into(),
                    Err(e) => format!("err:{}", crate::e2::err_name(&e)),
                },
            },
            ["drop", i] => match self.openers.remove(&i.parse().unwrap()) {
                None => "noop".into(),
                Some(Opener { rt, tree, .. }) => {
                    {
                        let _g = rt.enter();
                        drop(tree); // Tree::drop spawns Core::close on rt
                    }
                    if wait_idle(&rt) {
                        rt.shutdown_timeout(Duration::from_secs(5));
                        "ok".into()
                    } else {
                        rt.shutdown_timeout(Duration::from_secs(5));
                        "err:drop-timeout".into()
                    }
                }
            },
            // the Tree is dropped on a thread that is NOT inside a runtime context: the repaired Tree::drop
            // closes the store right there (temporary runtime + block_on), so the lock is free when drop()
            // returns: probed at once, without waiting for anything.  The opener's runtime is kept until
            // `rtgone` (before the repair the store's background tasks on it kept the lock: finding F28).
            ["dropout", i] => match self.openers.remove(&i.parse().unwrap()) {
                None => "noop".into(),
                Some(Opener { rt, tree, .. }) => {
                    drop(tree);
                    self.drop_probe = self.holder();
                    self.zombies.insert(i.parse().unwrap(), rt);
                    "ok".into()
                }
            },
            ["dropprobe"] => self.drop_probe.clone(),
            ["rtgone", i] => match self.zombies.remove(&i.parse().unwrap()) {
                None => "noop".into(),
                Some(rt) => {
                    rt.shutdown_timeout(Duration::from_secs(5));
                    "ok".into()
                }
            },
            // probe only: Tree is Clone; dropping a clone spawns Core::close as well
            ["clonedrop", i] => match self.openers.get(&i.parse().unwrap()) {
                None => "noop".into(),
                Some(o) => {
                    {
                        let _g = o.rt.enter();
                        drop(o.tree.clone());
                    }
                    if wait_idle(&o.rt) { "ok".into() } else { "err:drop-timeout".into() }
                }
            },
            ["commit", i, k, v] => match self.openers.get(&i.parse().unwrap()) {
                None => "noop".into(),
                Some(o) => commit_on(&o.rt, &o.tree, k, v),
            },
            ["get", i, k] => match self.openers.get(&i.parse().unwrap()) {
                None => "noop".into(),
                Some(o) => get_on(&o.rt, &o.tree, k),
            },
            ["spawn", p] => self.cmd(&["spawn", p, "-"]),
            ["spawn", p, opt] => {
                let n: u32 = p.parse().unwrap();
                if self.kids.contains_key(&n) {
                    return "busy".into();
                }
                let exe = std::env::current_exe().unwrap();
                let mut child = Command::new(exe)
                    .arg("lk-child")
                    .arg(self.path())
                    .arg(opt)
                    .stdin(Stdio::piped())
                    .stdout(Stdio::piped())
                    .stderr(Stdio::null())
                    .spawn()
                    .unwrap();
                self.pids.insert(child.id(), format!("P{}", n));
                let stdin = child.stdin.take().unwrap();
                let stdout = BufReader::new(child.stdout.take().unwrap());
                let mut k = Kid { child, stdin, stdout, lock_ino: None };
                let mut s = String::new();
                let _ = k.stdout.read_line(&mut s);
                let s = s.trim_end().to_string();
                if s == "ok" {
                    k.lock_ino = ino_of(&self.path().join("LOCK"));
                    self.kids.insert(n, k);
                } else {
                    // a refused child has already left; reap it
                    let _ = k.child.wait();
                }
                if s.is_empty() {
                    "err:child-silent".into()
                } else {
                    s
                }
            }
            // operations of a live store that rewrite its directory
            ["ckpt", i] => match self.openers.get(&i.parse().unwrap()) {
                None => "noop".into(),
                Some(o) => ckpt_on(&o.rt, &o.tree, &self.ckpt_dir()),
            },
            ["restore", i] => match self.openers.get(&i.parse().unwrap()) {
                None => "noop".into(),
                Some(o) => restore_on(&o.rt, &o.tree, &self.ckpt_dir()),
            },
            ["pckpt", p] => {
                let d = self.ckpt_dir();
                match self.kids.get_mut(&p.parse().unwrap()) {
                    None => "noop".into(),
                    Some(kid) => Self::kid_cmd(kid, &format!("ckpt {}", d.display())),
                }
            }
            ["prestore", p] => {
                let d = self.ckpt_dir();
                match self.kids.get_mut(&p.parse().unwrap()) {
                    None => "noop".into(),
                    Some(kid) => Self::kid_cmd(kid, &format!("restore {}", d.display())),
                }
            }
            // is the inode that the name LOCK denotes now the one this opener found / created when it opened?
            ["lockid", i] => match self.openers.get(&i.parse().unwrap()) {
                None => "noop".into(),
                Some(o) => self.lock_identity(o.lock_ino),
            },
            ["plockid", p] => match self.kids.get(&p.parse().unwrap()) {
                None => "noop".into(),
                Some(k) => self.lock_identity(k.lock_ino),
            },
            ["pcommit", p, k, v] => match self.kids.get_mut(&p.parse().unwrap()) {
                None => "noop".into(),
                Some(kid) => Self::kid_cmd(kid, &format!("commit {} {}", k, v)),
            },
            ["pget", p, k] => match self.kids.get_mut(&p.parse().unwrap()) {
                None => "noop".into(),
                Some(kid) => Self::kid_cmd(kid, &format!("get {}", k)),
            },
            ["pclose", p] | ["pexit", p] | ["pdrop", p] => match self.kids.remove(&p.parse().unwrap()) {
                None => "noop".into(),
                Some(mut kid) => {
                    let r = Self::kid_cmd(&mut kid, &a[0][1..]);
                    let _ = kid.child.wait();
                    r
                }
            },
            ["pkill", p] => match self.kids.remove(&p.parse().unwrap()) {
                None => "noop".into(),
                Some(mut kid) => {
                    let _ = kid.child.kill(); // SIGKILL
                    let _ = kid.child.wait();
                    "ok".into()
                }
            },
            ["snapshot"] => self.snapshot(),
            ["holder"] => self.holder(),
            ["ls"] => {
                let mut all = Vec::new();
                if self.path().exists() {
                    walk(&self.path(), "", &mut all);
                }
                all.iter().map(|(a, b)| format!("{}={}", a, b)).collect::<Vec<_>>().join(" ")
            }
            _ => "bad-command".into(),
        }
    }
}

impl Drop for Lk {
    fn drop(&mut self) {
        self.teardown();
    }
}

/// child mode: `verif-harness lk-child <dir> <opt>`: open the directory, answer on stdout, then
/// serve `commit k v` / `get k` / `ckpt dir` / `restore dir` / `close` (close the store, then leave) / `drop` (drop the Tree inside
/// the runtime, wait until the spawned close has finished, then leave) / `exit` (leave the process
/// with the store open, no close) from stdin.  Killed by the parent for `pkill`.
pub fn child_main(dir: &str, opt: &str) {
    let rt = new_rt();
    let o = make_opts(PathBuf::from(dir), opt);
    let r = {
        let _g = rt.enter();
        TreeBuilder::with_options(o).build()
    };
    let out = std::io::stdout();
    let say = |s: &str| {
        let mut l = out.lock();
        writeln!(l, "{}", s).unwrap();
        l.flush().unwrap();
    };
    let tree = match r {
        Ok(t) => {
            say("ok");
            t
        }
        Err(e) => {
            say(&classify(&e));
            std::process::exit(0);
        }
    };
    let mut tree = Some(tree);
    for line in std::io::stdin().lock().lines() {
        let line = match line {
            Ok(l) => l,
            Err(_) => break,
        };
        let t: Vec<&str> = line.split(' ').collect();
        match t.as_slice() {
            ["commit", k, v] => say(&commit_on(&rt, tree.as_ref().unwrap(), k, v)),
            ["get", k] => say(&get_on(&rt, tree.as_ref().unwrap(), k)),
            ["ckpt", d] => say(&ckpt_on(&rt, tree.as_ref().unwrap(), Path::new(d))),
            ["restore", d] => say(&restore_on(&rt, tree.as_ref().unwrap(), Path::new(d))),
            ["close"] => {
                let r = rt.block_on(tree.as_ref().unwrap().close());
                say(&match r {
                    Ok(()) => "ok".to_string(),
                    Err(e) => format!("err:{}", crate::e2::err_name(&e)),
                });
                std::process::exit(0);
            }
            ["drop"] => {
                {
                    let _g = rt.enter();
                    drop(tree.take());
                }
                say(if wait_idle(&rt) { "ok" } else { "err:drop-timeout" });
                std::process::exit(0);
            }
            ["exit"] => {
                say("ok");
                std::process::exit(0);
            }
            _ => say("bad-command"),
        }
    }
    // stdin closed (parent died): leave without closing
    std::process::exit(0);
}
