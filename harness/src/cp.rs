//! Crash-protocol correspondence: dumps of WAL segments and table files (facade `verif::dump`).
use crate::util::*;
use std::path::Path;
use surrealkv::verif::dump;

pub fn cmd(a: &[&str]) -> String {
    match a {
        // cp walrecs <path>  ->  recs:<start>:<count>:<endoff>,...;tail=<..>
        ["walrecs", path] => match dump::wal_batches(Path::new(path)) {
            Ok((recs, tail)) => {
                let r: Vec<String> = recs.iter().map(|(s, c, o)| format!("{}:{}:{}", s, c, o)).collect();
                format!("recs:{};tail={}", r.join(","), tail)
            }
            Err(e) => format!("err:{}", e.replace(' ', "_")),
        },
        // cp tabdump <path> <id>  ->  entries:<keyhex>:<seq>:<kind>,...
        ["tabdump", path, id] => match dump::table_entries(Path::new(path), id.parse().unwrap()) {
            Ok(es) => {
                let r: Vec<String> = es.iter().map(|(k, s, kd)| format!("{}:{}:{}", bytes_to_hex(k), s, kd)).collect();
                format!("entries:{}", r.join(","))
            }
            Err(e) => format!("err:{}", e.replace(' ', "_")),
        },
        _ => "bad-command".into(),
    }
}
