//! C04 engines.
//! `orc ...`: scripted calls on the crate's CommitOracle through the facade (model side:
//!            Conc/Oracle.v).
//! `cs ...` : the steps of the sequential commit machine (Conc/CommitSeq.v) played on a real
//!            store through the public API: begin / commit of a set of keys / end / checkpoint /
//!            restore.  Failures cannot be injected here (fail flag must be 0).
use crate::e2::err_name;
use crate::util::*;
use std::collections::BTreeMap;
use surrealkv::verif::oracle as fo;
use surrealkv::{Mode, Options, Transaction, Tree, TreeBuilder};

fn keys_of(tok: &str) -> Vec<Vec<u8>> {
    if tok == "-" || tok.is_empty() {
        return vec![];
    }
    tok.split(',').map(hex_to_bytes).collect()
}
fn num(tok: &str) -> u64 {
    tok.parse().unwrap()
}

pub struct OrcEngine {
    o: fo::Oracle,
}

impl OrcEngine {
    pub fn new() -> Self {
        OrcEngine { o: fo::Oracle::new() }
    }
    pub fn cmd(&mut self, a: &[&str]) -> String {
        match a {
            ["new"] => {
                self.o = fo::Oracle::new();
                "ok".into()
            }
            ["params"] => format!("GC_INTERVAL={}", fo::gc_interval()),
            ["check", start, keys] => self.o.check(&keys_of(keys), num(start)).name().into(),
            ["publish", seq, count, oldest, keys] => {
                self.o.publish(&keys_of(keys), num(seq), num(count), num(oldest));
                "ok".into()
            }
            ["rollback", stamp, keys] => {
                self.o.rollback(&keys_of(keys), num(stamp));
                "ok".into()
            }
            ["reset", max] => {
                self.o.reset_for_restore(num(max));
                "ok".into()
            }
            ["dump", keys] => {
                let ks = keys_of(keys);
                let parts: Vec<String> = ks.iter().map(|k| format!("{}:{}", bytes_to_hex(k), self.o.observe_key(k))).collect();
                format!("kept={} obs={}", self.o.observe_kept_since(), if parts.is_empty() { "-".to_string() } else { parts.join(",") })
            }
            _ => "bad-command".into(),
        }
    }
}

pub struct CsEngine {
    rt: tokio::runtime::Runtime,
    dir: tempfile::TempDir,
    tree: Option<Tree>,
    txs: BTreeMap<u64, Box<Transaction>>,
    have_ckpt: bool,
}

impl CsEngine {
    pub fn new() -> Self {
        let rt = tokio::runtime::Builder::new_multi_thread().worker_threads(2).enable_all().build().unwrap();
        let mut e = CsEngine { rt, dir: tempfile::tempdir().unwrap(), tree: None, txs: BTreeMap::new(), have_ckpt: false };
        e.open();
        e
    }
    fn open(&mut self) {
        let mut o = Options::new();
        o.path = self.dir.path().join("db");
        o.max_memtable_size = 64 << 20;
        o.level0_max_files = 1000;
        o.l0_stall_threshold = 100000;
        o.memtable_stall_threshold = 100000;
        o.flush_on_close = false;
        let _g = self.rt.enter();
        self.tree = Some(TreeBuilder::with_options(o).build().unwrap());
    }
    pub fn cmd(&mut self, a: &[&str]) -> String {
        match a {
            ["begin", id, mode] => {
                let n = num(id);
                if self.txs.contains_key(&n) {
                    return "bad".into();
                }
                let m = match *mode {
                    "rw" => Mode::ReadWrite,
                    "wo" => Mode::WriteOnly,
                    _ => return "unsupported".into(),
                };
                match self.tree.as_ref().unwrap().begin_with_mode(m) {
                    Ok(t) => {
                        self.txs.insert(n, Box::new(t));
                        "ok".into()
                    }
                    Err(e) => format!("err:{}", err_name(&e)),
                }
            }
            ["end", id] => match self.txs.get_mut(&num(id)) {
                Some(t) => {
                    // the model keeps the id (closed); Transaction::rollback is what Drop runs
                    t.rollback();
                    "ok".into()
                }
                None => "notx".into(),
            },
            ["commit", id, keys, fail] => {
                if *fail != "0" {
                    return "unsupported".into();
                }
                let ks = keys_of(keys);
                let t = match self.txs.get_mut(&num(id)) {
                    Some(t) => t,
                    None => return "notx".into(),
                };
                for k in &ks {
                    match t.set(k, b"v") {
                        Ok(()) => {}
                        Err(surrealkv::Error::TransactionClosed) => return "closed".into(),
                        Err(e) => return format!("err:set:{}", err_name(&e)),
                    }
                }
                match self.rt.block_on(t.commit()) {
                    Ok(()) => "ok".into(),
                    Err(surrealkv::Error::TransactionWriteConflict) => "conflict".into(),
                    Err(surrealkv::Error::TransactionRetry) => "retry".into(),
                    Err(surrealkv::Error::TransactionClosed) => "closed".into(),
                    Err(e) => format!("err:{}", err_name(&e)),
                }
            }
            ["checkpoint"] => {
                let _g = self.rt.enter();
                let d = self.dir.path().join("ckpt");
                let _ = std::fs::remove_dir_all(&d);
                match self.tree.as_ref().unwrap().create_checkpoint(&d) {
                    Ok(_) => {
                        self.have_ckpt = true;
                        "ok".into()
                    }
                    Err(e) => format!("err:{}", err_name(&e)),
                }
            }
            ["restore"] => {
                if !self.have_ckpt {
                    return "nockpt".into();
                }
                let d = self.dir.path().join("ckpt");
                let _g = self.rt.enter();
                match self.tree.as_ref().unwrap().restore_from_checkpoint(&d) {
                    Ok(_) => "ok".into(),
                    Err(e) => format!("err:{}", err_name(&e)),
                }
            }
            _ => "bad-command".into(),
        }
    }
}

impl Drop for CsEngine {
    fn drop(&mut self) {
        self.txs.clear();
        if let Some(t) = self.tree.take() {
            let _ = self.rt.block_on(t.close());
        }
    }
}
