//! Writer-level engine of C15: the WAL manager driven step by step under the fault-injecting
//! recorder (LD_PRELOAD shim, one fault plan per process); model side: Crash/Fail.v (`wf` in
//! driver/main.ml).
use crate::util::*;
use std::path::PathBuf;
use surrealkv::verif::wal as fw;
use surrealkv::verif::walfail as ff;

pub struct Wf {
    s: Option<ff::Session>,
    dir: PathBuf,
}

fn show(s: ff::Step) -> String {
    match s {
        ff::Step::Ok => "ok".into(),
        ff::Step::Rejected => "rejected".into(),
        ff::Step::Err(_) => "err".into(),
    }
}

impl Wf {
    pub fn new() -> Self {
        Wf { s: None, dir: PathBuf::new() }
    }
    pub fn cmd(&mut self, a: &[&str]) -> String {
        match a {
            ["open", dir] => {
                self.dir = PathBuf::from(dir);
                std::fs::create_dir_all(&self.dir).unwrap();
                match ff::Session::open(&self.dir) {
                    Ok(s) => {
                        self.s = Some(s);
                        "ok".into()
                    }
                    Err(e) => format!("openfail:{}", e.replace(' ', "_")),
                }
            }
            // the fault plan is installed by the environment of this process (VERIF_SHIM_FAIL);
            // the model side reads it from this line
            ["fault", ..] => "ok".into(),
            ["append", tok] => show(self.s.as_mut().unwrap().append(&bytes_tok(tok))),
            ["flush"] => show(self.s.as_mut().unwrap().flush()),
            ["sync"] => show(self.s.as_mut().unwrap().sync()),
            ["rotate"] => show(self.s.as_mut().unwrap().rotate()),
            ["close"] => show(self.s.as_mut().unwrap().close()),
            ["files"] => {
                let segs = self.s.as_ref().unwrap().segments();
                let parts: Vec<String> = segs
                    .iter()
                    .map(|p| {
                        let b = std::fs::read(p).unwrap_or_default();
                        format!("{}/{}", b.len(), fnv(&b))
                    })
                    .collect();
                format!("segs={} {}", segs.len(), parts.join(","))
            }
            ["read"] => {
                let segs = self.s.as_ref().unwrap().segments();
                let parts: Vec<String> = segs
                    .iter()
                    .map(|p| match fw::read_segment(p) {
                        Err(e) => format!("error:{}", e),
                        Ok((recs, t)) => {
                            let rs: Vec<String> = recs.iter().map(|(r, e)| format!("{}/{}@{}", r.len(), fnv(r), e)).collect();
                            let tail = match t {
                                fw::Tail::Eof => "eof".to_string(),
                                fw::Tail::Corrupt(m, off) => format!("corrupt:{}:{}", crate::wal::why(&m), off),
                                fw::Tail::Other(m) => format!("other:{}", m),
                            };
                            format!("n={} [{}] {}", recs.len(), rs.join(","), tail)
                        }
                    })
                    .collect();
                parts.join(" | ")
            }
            ["class"] => "class -".into(),
            ["end"] => {
                if let Some(s) = self.s.as_mut() {
                    s.crash();
                }
                self.s = None;
                "ok".into()
            }
            _ => "bad-command".into(),
        }
    }
}
