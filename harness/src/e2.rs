//! E2 — API-history engine: runs scripts over the public `Tree`/`Transaction` API (plus the
//! facade's physical controls) and prints canonical answers; the model side is Spec/Machine.v.
use crate::util::*;
use std::collections::BTreeMap;
use std::path::PathBuf;
use std::sync::Arc;
use surrealkv::verif::engine as fe;
use surrealkv::{
    CompressionType, Error, HistoryOptions, LSMIterator, Mode, Options, ReadOptions, Transaction, Tree, TreeBuilder,
    WriteOptions,
};

type Cursor = Box<dyn LSMIterator + 'static>;

struct Tx {
    // cursors borrow the transaction; they are declared first so they drop first
    cursors: BTreeMap<u32, Cursor>,
    tx: Box<Transaction>,
}

pub struct E2 {
    rt: tokio::runtime::Runtime,
    dir: tempfile::TempDir,
    fixed: Option<PathBuf>,
    mark: Option<std::fs::File>,
    opts: Option<Options>,
    cache_cap: u64,
    clock: Option<Arc<fe::ManualClock>>,
    tree: Option<Tree>,
    txs: BTreeMap<u32, Tx>,
    cur_owner: BTreeMap<u32, u32>,
}

/// values longer than 16 bytes are printed as #len/fnv
pub fn show_val(v: &[u8]) -> String {
    if v.len() > 16 {
        format!("#{}/{}", v.len(), fnv(v))
    } else {
        bytes_to_hex(v)
    }
}

fn bopt(tok: &str) -> Option<Vec<u8>> {
    if tok == "~" {
        None
    } else {
        Some(hex_to_bytes(tok))
    }
}

pub fn err_name(e: &Error) -> String {
    match e {
        Error::TransactionClosed => "Closed".into(),
        Error::TransactionReadOnly => "ReadOnly".into(),
        Error::TransactionWriteOnly => "WriteOnly".into(),
        Error::EmptyKey => "EmptyKey".into(),
        Error::TransactionWriteConflict => "Conflict".into(),
        Error::TransactionRetry => "Retry".into(),
        Error::TransactionWithoutSavepoint => "NoSavepoint".into(),
        Error::InvalidArgument(m) if m.contains("ersion") => "NoVersioning".into(),
        Error::InvalidArgument(m) => format!("InvalidArgument({})", m.replace(' ', "_")),
        other => format!("Other({})", other.to_string().replace(' ', "_")),
    }
}

fn parse_opts(path: PathBuf, s: &str) -> Options {
    let mut o = Options::new();
    o.path = path;
    // defaults chosen so that nothing physical happens unless the script asks for it
    o.max_memtable_size = 64 << 20;
    o.level0_max_files = 1000;
    o.l0_stall_threshold = 100000;
    o.memtable_stall_threshold = 100000;
    o.flush_on_close = false;
    for kv in s.split(',') {
        if kv.is_empty() || kv == "-" {
            continue;
        }
        let (k, v) = kv.split_once('=').unwrap();
        let n = || v.parse::<u64>().unwrap();
        match k {
            "lc" => o.level_count = n() as u8,
            "mem" => o.max_memtable_size = n() as usize,
            "bs" => o.block_size = n() as usize,
            "ri" => o.block_restart_interval = n() as usize,
            "ips" => o.index_partition_size = n() as usize,
            "bloom" => {
                if n() == 0 {
                    o.filter_policy = None;
                }
            }
            "comp" => {
                let c = |x: &str| match x {
                    "snappy" => CompressionType::SnappyCompression,
                    _ => CompressionType::None,
                };
                o.compression_per_level = v.split('/').map(c).collect();
            }
            "cache" => {
                o = o.with_block_cache_capacity(n());
            }
            "vlog" => o.enable_vlog = n() != 0,
            "vth" => o.vlog_value_threshold = n() as usize,
            "vfs" => o.vlog_max_file_size = n(),
            "vck" => {
                o.vlog_checksum_verification =
                    if n() != 0 { surrealkv::VLogChecksumLevel::Full } else { surrealkv::VLogChecksumLevel::Disabled }
            }
            "ver" => o.enable_versioning = n() != 0,
            "ret" => o.versioned_history_retention_ns = n(),
            "idx" => o.enable_versioned_index = n() != 0,
            "l0" => o.level0_max_files = n() as usize,
            "foc" => o.flush_on_close = n() != 0,
            "abs" => {
                if n() != 0 {
                    o.wal_recovery_mode = surrealkv::WalRecoveryMode::AbsoluteConsistency
                }
            }
            _ => panic!("unknown option {}", k),
        }
    }
    o
}

impl E2 {
    pub fn new() -> Self {
        let rt = tokio::runtime::Builder::new_multi_thread().worker_threads(2).enable_all().build().unwrap();
        E2 { rt, dir: tempfile::tempdir().unwrap(), fixed: None, mark: None, opts: None, cache_cap: 1 << 20, clock: None, tree: None, txs: BTreeMap::new(), cur_owner: BTreeMap::new() }
    }
    pub fn path(&self) -> PathBuf {
        match &self.fixed {
            Some(p) => p.clone(),
            None => self.dir.path().join("db"),
        }
    }
    pub fn at(path: &str) -> Self {
        let mut e = Self::new();
        e.fixed = Some(PathBuf::from(path));
        if let Ok(m) = std::env::var("VERIF_MARK") {
            e.mark = std::fs::OpenOptions::new().create(true).append(true).open(m).ok();
        }
        e
    }
    fn marker(&mut self, text: &str) {
        use std::io::Write;
        if let Some(f) = self.mark.as_mut() {
            let _ = f.write_all(format!("{}\n", text).as_bytes());
        }
    }
    fn open_tree(&mut self) -> String {
        let o = self.opts.clone().unwrap();
        let _g = self.rt.enter();
        match TreeBuilder::with_options(o).build() {
            Ok(t) => {
                self.tree = Some(t);
                "ok".into()
            }
            Err(e) => format!("err:{}", err_name(&e)),
        }
    }
    pub fn close_tree(&mut self) -> String {
        self.cur_owner.clear();
        self.txs.clear();
        if let Some(t) = self.tree.take() {
            let r = self.rt.block_on(t.close());
            drop(t);
            match r {
                Ok(()) => "ok".into(),
                Err(e) => format!("err:{}", err_name(&e)),
            }
        } else {
            "ok".into()
        }
    }
    fn tx(&mut self, id: &str) -> Option<&mut Tx> {
        self.txs.get_mut(&id.parse::<u32>().unwrap())
    }
    // a &mut operation on a transaction ends its cursors (the borrow checker forbids the overlap)
    fn txm(&mut self, id: &str) -> Option<&mut Tx> {
        let n = id.parse::<u32>().unwrap();
        if let Some(t) = self.txs.get_mut(&n) {
            for c in t.cursors.keys() {
                self.cur_owner.remove(c);
            }
            t.cursors.clear();
        }
        self.txs.get_mut(&n)
    }
    fn unit(r: Result<(), Error>) -> String {
        match r {
            Ok(()) => "ok".into(),
            Err(e) => format!("err:{}", err_name(&e)),
        }
    }
    fn show_cur(c: &Cursor, r: Result<bool, Error>) -> String {
        match r {
            Err(e) => format!("err:{}", err_name(&e)),
            Ok(v) => {
                if v != c.valid() {
                    return format!("err:valid-mismatch({},{})", v, c.valid());
                }
                if !v {
                    "cur:invalid".into()
                } else {
                    let k = c.key().user_key().to_vec();
                    match c.value() {
                        Ok(val) => format!("cur:{}={}", bytes_to_hex(&k), show_val(&val)),
                        Err(e) => format!("err:value:{}", err_name(&e)),
                    }
                }
            }
        }
    }
    fn open_cursor(tx: &Transaction, lo: Option<Vec<u8>>, hi: Option<Vec<u8>>) -> Result<Cursor, Error> {
        let mut ro = ReadOptions::new();
        ro.set_iterate_lower_bound(lo);
        ro.set_iterate_upper_bound(hi);
        let it = tx.range_with_options(&ro)?;
        let b: Box<dyn LSMIterator + '_> = Box::new(it);
        // SAFETY: the cursor is stored beside its boxed transaction and dropped before it;
        // the harness never touches the transaction mutably while a cursor is alive.
        Ok(unsafe { std::mem::transmute::<Box<dyn LSMIterator + '_>, Cursor>(b) })
    }
    pub fn with_tree<T>(&self, f: impl FnOnce(&Tree) -> T) -> Option<T> {
        self.tree.as_ref().map(f)
    }
    pub fn cmd(&mut self, a: &[&str]) -> String {
        match a {
            ["open", o] => {
                let p = self.path();
                let mut opts = parse_opts(p, o);
                self.clock = Some(fe::install_manual_clock(&mut opts));
                self.cache_cap = o
                    .split(',')
                    .find_map(|kv| kv.strip_prefix("cache=").map(|v| v.parse::<u64>().unwrap()))
                    .unwrap_or(1 << 20);
                self.opts = Some(opts);
                self.open_tree()
            }
            ["close"] => self.close_tree(),
            ["reopen"] => {
                let r = self.close_tree();
                if r != "ok" {
                    return format!("close-{}", r);
                }
                self.open_tree()
            }
            ["begin", id, m] => {
                let mode = match *m {
                    "ro" => Mode::ReadOnly,
                    "wo" => Mode::WriteOnly,
                    _ => Mode::ReadWrite,
                };
                let n = id.parse::<u32>().unwrap();
                if let Some(t) = self.txs.remove(&n) {
                    for c in t.cursors.keys() {
                        self.cur_owner.remove(c);
                    }
                }
                let _g = self.rt.enter();
                match self.tree.as_ref().unwrap().begin_with_mode(mode) {
                    Ok(tx) => {
                        self.txs.insert(n, Tx { cursors: BTreeMap::new(), tx: Box::new(tx) });
                        "ok".into()
                    }
                    Err(e) => format!("err:{}", err_name(&e)),
                }
            }
            ["set", id, k, v] => match self.txm(id) {
                Some(t) => Self::unit(t.tx.set(hex_to_bytes(k), bytes_tok(v))),
                None => "err:NoTxn".into(),
            },
            ["setat", id, k, v, ts] => match self.txm(id) {
                Some(t) => Self::unit(t.tx.set_at(hex_to_bytes(k), bytes_tok(v), ts.parse().unwrap())),
                None => "err:NoTxn".into(),
            },
            ["clock", t] => {
                self.clock.as_ref().unwrap().set(t.parse().unwrap());
                "ok".into()
            }
            ["delat", id, k, ts] => match self.txm(id) {
                Some(t) => Self::unit(t.tx.delete_with_options(hex_to_bytes(k), &WriteOptions::new().with_timestamp(Some(ts.parse().unwrap())))),
                None => "err:NoTxn".into(),
            },
            ["sdelat", id, k, ts] => match self.txm(id) {
                Some(t) => Self::unit(t.tx.soft_delete_with_options(hex_to_bytes(k), &WriteOptions::new().with_timestamp(Some(ts.parse().unwrap())))),
                None => "err:NoTxn".into(),
            },
            ["getat", id, k, ts] => match self.tx(id) {
                Some(t) => match t.tx.get_at(hex_to_bytes(k), ts.parse().unwrap()) {
                    Ok(Some(v)) => format!("val:{}", show_val(&v)),
                    Ok(None) => "val:none".into(),
                    Err(e) => format!("err:{}", err_name(&e)),
                },
                None => "err:NoTxn".into(),
            },
            ["history", id, lo, hi, tomb, tsr, limit, dir] => match self.tx(id) {
                Some(t) => {
                    let mut ho = HistoryOptions::new().with_tombstones(*tomb == "1");
                    if *tsr != "~" {
                        let (a, b) = tsr.split_once('-').unwrap();
                        ho = ho.with_ts_range(a.parse().unwrap(), b.parse().unwrap());
                    }
                    if *limit != "~" {
                        ho = ho.with_limit(limit.parse().unwrap());
                    }
                    match t.tx.history_with_options(hex_to_bytes(lo), hex_to_bytes(hi), &ho) {
                        Err(e) => format!("err:{}", err_name(&e)),
                        Ok(mut it) => {
                            let back = *dir == "b";
                            let mut out = Vec::new();
                            let mut r = if back { it.seek_last() } else { it.seek_first() };
                            loop {
                                match r {
                                    Err(e) => return format!("err:{}", err_name(&e)),
                                    Ok(false) => break,
                                    Ok(true) => {
                                        let kr = it.key();
                                        let k = kr.user_key().to_vec();
                                        let ts = kr.timestamp();
                                        let tombstone = kr.is_tombstone();
                                        let v = if tombstone { Ok(vec![]) } else { it.value() };
                                        match v {
                                            Ok(v) => out.push(format!("{}@{}{}={}", bytes_to_hex(&k), ts, if tombstone { "!" } else { "" }, show_val(&v))),
                                            Err(e) => return format!("err:value:{}", err_name(&e)),
                                        }
                                        if out.len() > 100000 {
                                            return "err:runaway".into();
                                        }
                                        r = if back { it.prev() } else { it.next() };
                                    }
                                }
                            }
                            format!("hist:{}", out.join(","))
                        }
                    }
                }
                None => "err:NoTxn".into(),
            },
            ["del", id, k] => match self.txm(id) {
                Some(t) => Self::unit(t.tx.delete(hex_to_bytes(k))),
                None => "err:NoTxn".into(),
            },
            ["sdel", id, k] => match self.txm(id) {
                Some(t) => Self::unit(t.tx.soft_delete(hex_to_bytes(k))),
                None => "err:NoTxn".into(),
            },
            ["repl", id, k, v] => match self.txm(id) {
                Some(t) => Self::unit(t.tx.replace(hex_to_bytes(k), bytes_tok(v))),
                None => "err:NoTxn".into(),
            },
            ["get", id, k] => match self.tx(id) {
                Some(t) => match t.tx.get(hex_to_bytes(k)) {
                    Ok(Some(v)) => format!("val:{}", show_val(&v)),
                    Ok(None) => "val:none".into(),
                    Err(e) => format!("err:{}", err_name(&e)),
                },
                None => "err:NoTxn".into(),
            },
            ["sp", id] => match self.txm(id) {
                Some(t) => Self::unit(t.tx.set_savepoint()),
                None => "err:NoTxn".into(),
            },
            ["rbsp", id] => match self.txm(id) {
                Some(t) => Self::unit(t.tx.rollback_to_savepoint()),
                None => "err:NoTxn".into(),
            },
            ["commit", id] => {
                let n = id.parse::<u32>().unwrap();
                if self.txm(id).is_none() {
                    return "err:NoTxn".into();
                }
                let t = self.txs.get_mut(&n).unwrap();
                let r = self.rt.block_on(t.tx.commit());
                if r.is_ok() {
                    self.marker(&format!("ack {} 0", n));
                }
                Self::unit(r)
            }
            ["commitsync", id] => {
                let n = id.parse::<u32>().unwrap();
                if self.txm(id).is_none() {
                    return "err:NoTxn".into();
                }
                let t = self.txs.get_mut(&n).unwrap();
                t.tx.set_durability(surrealkv::Durability::Immediate);
                let r = self.rt.block_on(t.tx.commit());
                if r.is_ok() {
                    self.marker(&format!("ack {} 1", n));
                }
                Self::unit(r)
            }
            ["flushwal", sync] => {
                let r = self.tree.as_ref().unwrap().flush_wal(*sync == "1");
                if r.is_ok() && *sync == "1" {
                    self.marker("synced");
                }
                Self::unit(r)
            }
            ["mark", text] => {
                self.marker(text);
                "ok".into()
            }
            ["abort"] => {
                // process crash: no close, no destructors
                use std::io::Write;
                let _ = std::io::stdout().flush();
                unsafe { libc_exit() }
            }
            ["rollback", id] => match self.txm(id) {
                Some(t) => {
                    t.tx.rollback();
                    "ok".into()
                }
                None => "err:NoTxn".into(),
            },
            ["drop", id] => {
                let n = id.parse::<u32>().unwrap();
                if self.txm(id).is_none() {
                    return "err:NoTxn".into();
                }
                self.txs.remove(&n);
                "ok".into()
            }
            ["range", id, cid, lo, hi] => {
                let c = cid.parse::<u32>().unwrap();
                if let Some(owner) = self.cur_owner.remove(&c) {
                    if let Some(t) = self.txs.get_mut(&owner) {
                        t.cursors.remove(&c);
                    }
                }
                let n = id.parse::<u32>().unwrap();
                match self.txs.get_mut(&n) {
                    Some(t) => match Self::open_cursor(&t.tx, bopt(lo), bopt(hi)) {
                        Ok(cur) => {
                            t.cursors.insert(c, cur);
                            self.cur_owner.insert(c, n);
                            "ok".into()
                        }
                        Err(e) => format!("err:{}", err_name(&e)),
                    },
                    None => "err:NoTxn".into(),
                }
            }
            ["cur", cid, op, rest @ ..] => {
                let c = cid.parse::<u32>().unwrap();
                let owner = match self.cur_owner.get(&c) {
                    Some(o) => *o,
                    None => return "err:NoTxn".into(),
                };
                let cur = self.txs.get_mut(&owner).unwrap().cursors.get_mut(&c).unwrap();
                let r = match *op {
                    "first" => cur.seek_first(),
                    "last" => cur.seek_last(),
                    "next" => cur.next(),
                    "prev" => cur.prev(),
                    "seek" => cur.seek(&hex_to_bytes(rest[0])),
                    _ => panic!("bad cursor op"),
                };
                Self::show_cur(cur, r)
            }
            ["curclose", cid] => {
                let c = cid.parse::<u32>().unwrap();
                if let Some(owner) = self.cur_owner.remove(&c) {
                    if let Some(t) = self.txs.get_mut(&owner) {
                        t.cursors.remove(&c);
                    }
                }
                "ok".into()
            }
            ["scan", id, lo, hi, dir] => match self.tx(id) {
                Some(t) => match Self::open_cursor(&t.tx, bopt(lo), bopt(hi)) {
                    Err(e) => format!("err:{}", err_name(&e)),
                    Ok(mut cur) => {
                        let mut out = Vec::new();
                        let back = *dir == "b";
                        let mut r = if back { cur.seek_last() } else { cur.seek_first() };
                        loop {
                            match r {
                                Err(e) => return format!("err:{}", err_name(&e)),
                                Ok(false) => break,
                                Ok(true) => {
                                    let k = cur.key().user_key().to_vec();
                                    match cur.value() {
                                        Ok(v) => out.push(format!("{}={}", bytes_to_hex(&k), show_val(&v))),
                                        Err(e) => return format!("err:value:{}", err_name(&e)),
                                    }
                                    if out.len() > 100000 {
                                        return "err:runaway".into();
                                    }
                                    r = if back { cur.prev() } else { cur.next() };
                                }
                            }
                        }
                        format!("list:{}", out.join(","))
                    }
                },
                None => "err:NoTxn".into(),
            },
            ["checkpoint", c] => {
                let d = self.dir.path().join(format!("ckpt{}", c));
                let _ = std::fs::remove_dir_all(&d);
                let _g = self.rt.enter();
                match self.tree.as_ref().unwrap().create_checkpoint(&d) {
                    Ok(_) => "ok".into(),
                    Err(e) => format!("err:{}", err_name(&e)),
                }
            }
            ["restore", c] => {
                // open transactions and cursors end (the generator starts fresh ones)
                self.cur_owner.clear();
                self.txs.clear();
                let d = self.dir.path().join(format!("ckpt{}", c));
                if !d.exists() {
                    return "err:NoTxn".into();
                }
                let _g = self.rt.enter();
                match self.tree.as_ref().unwrap().restore_from_checkpoint(&d) {
                    Ok(_) => "ok".into(),
                    Err(e) => format!("err:{}", err_name(&e)),
                }
            }
            ["ckptscan", c] => {
                // the checkpoint directory (a copy of it) opened as a database of its own
                let src = self.dir.path().join(format!("ckpt{}", c));
                let dst = self.dir.path().join(format!("ckptopen{}", c));
                if !src.exists() {
                    return "err:NoTxn".into();
                }
                let _ = std::fs::remove_dir_all(&dst);
                if let Err(e) = copy_dir(&src, &dst) {
                    return format!("err:copy:{}", e);
                }
                // a cloned Options shares its block cache (keyed by table id and offset only) with the
                // running store: the second store gets a cache of its own
                let mut o = self.opts.clone().unwrap().with_block_cache_capacity(self.cache_cap);
                o.path = dst.clone();
                let _g = self.rt.enter();
                let t = match TreeBuilder::with_options(o).build() {
                    Ok(t) => t,
                    Err(e) => return format!("err:open:{}", err_name(&e)),
                };
                let res = {
                    let tx = match t.begin_with_mode(Mode::ReadOnly) {
                        Ok(tx) => tx,
                        Err(e) => return format!("err:{}", err_name(&e)),
                    };
                    let mut out = Vec::new();
                    let r = (|| -> Result<(), Error> {
                        let mut ro = ReadOptions::new();
                        ro.set_iterate_lower_bound(None);
                        ro.set_iterate_upper_bound(None);
                        let mut it = tx.range_with_options(&ro)?;
                        let mut v = it.seek_first()?;
                        while v {
                            out.push(format!("{}={}", bytes_to_hex(it.key().user_key()), show_val(&it.value()?)));
                            v = it.next()?;
                        }
                        Ok(())
                    })();
                    match r {
                        Ok(()) => format!("list:{}", out.join(",")),
                        Err(e) => format!("err:{}", err_name(&e)),
                    }
                };
                let _ = self.rt.block_on(t.close());
                drop(t);
                let _ = std::fs::remove_dir_all(&dst);
                res
            }
            // C15 (regression of C15-N9 / F43): one commit is held inside apply (active-memtable lock taken by the
            // facade) while `n` oversized commits fail with BatchTooLarge and one more small commit is attempted.
            // Every commit runs as a task; the lock is released after all of them have been started, then all are
            // joined.  Reports how many failing commits had already returned while the slow commit was still
            // applying (0 when a failing commit waits for its queue entry to be drained) and every outcome.
            ["qoverflow", n, big] => {
                let n: usize = n.parse().unwrap();
                let big: usize = big.parse().unwrap();
                let tree = self.tree.as_ref().unwrap();
                let _g = self.rt.enter();
                let mut slow = tree.begin_with_mode(Mode::ReadWrite).unwrap();
                slow.set(b"slow".to_vec(), b"1".to_vec()).unwrap();
                let rt = &self.rt;
                let pause = || std::thread::sleep(std::time::Duration::from_millis(300));
                let (h, fails, hl, early, returned) = surrealkv::verif::pipefail::with_active_memtable_locked(tree, || {
                    let h = rt.spawn(async move { slow.commit().await.map_err(|e| err_name(&e)) });
                    pause();
                    let early = h.is_finished();
                    let mut fails = Vec::new();
                    for i in 0..n {
                        let mut tx = tree.begin_with_mode(Mode::ReadWrite).unwrap();
                        tx.set(format!("big{}", i).into_bytes(), vec![7u8; big]).unwrap();
                        fails.push(rt.spawn(async move { tx.commit().await.map_err(|e| err_name(&e)) }));
                    }
                    pause();
                    let returned = fails.iter().filter(|f| f.is_finished()).count();
                    let mut tx = tree.begin_with_mode(Mode::ReadWrite).unwrap();
                    tx.set(b"last".to_vec(), b"2".to_vec()).unwrap();
                    let hl = rt.spawn(async move { tx.commit().await.map_err(|e| err_name(&e)) });
                    pause();
                    (h, fails, hl, early, returned)
                });
                let show = |r: Result<Result<(), String>, tokio::task::JoinError>| match r {
                    Ok(Ok(())) => "ok".to_string(),
                    Ok(Err(e)) => format!("err:{}", e),
                    Err(j) => {
                        if j.is_panic() {
                            let p = j.into_panic();
                            format!("PANIC:{}", p.downcast_ref::<String>().cloned().or_else(|| p.downcast_ref::<&str>().map(|s| s.to_string())).unwrap_or_default().replace(' ', "_"))
                        } else {
                            "cancelled".to_string()
                        }
                    }
                };
                let join = |h: tokio::task::JoinHandle<Result<(), String>>| {
                    match self.rt.block_on(async { tokio::time::timeout(std::time::Duration::from_secs(20), h).await }) {
                        Ok(r) => show(r),
                        Err(_) => "STUCK".to_string(),
                    }
                };
                let last = join(hl);
                let slow_r = join(h);
                let outs: Vec<String> = fails.into_iter().map(join).collect();
                format!("slow_finished_early={} returned_while_blocked={} fails={} last={} slow={}", early, returned, outs.join(","), last, slow_r)
            }
            // C03 (finding F56): the window between a memtable rotation inside `apply` and the re-log of the rotating
            // committer's batch.  Committer A (values of `size` bytes, `n` keys: more than the active memtable has left)
            // is parked at the yield point `apply.woke` (after rotate_memtable + wake_up_memtable, before relog_if_rotated);
            // the rotated memtable is flushed as the woken background task would do it (level 0 gains a table, the manifest switches); committer B commits one
            // small key with immediate durability (its record goes to the NEW segment); the directory is copied to `dst`
            // (a process-crash image); A is released and both are joined.
            ["relogwin", n, size, dst] => {
                use std::sync::atomic::{AtomicBool, Ordering as AO};
                static PARKED: AtomicBool = AtomicBool::new(false);
                static RELEASE: AtomicBool = AtomicBool::new(false);
                fn hook(name: &'static str, _a: u64, _b: u64) {
                    if name == "apply.woke" && !PARKED.swap(true, AO::SeqCst) {
                        let t0 = std::time::Instant::now();
                        while !RELEASE.load(AO::SeqCst) && t0.elapsed().as_secs() < 20 {
                            std::thread::sleep(std::time::Duration::from_millis(2));
                        }
                    }
                }
                PARKED.store(false, AO::SeqCst);
                RELEASE.store(false, AO::SeqCst);
                let n: usize = n.parse().unwrap();
                let size: usize = size.parse().unwrap();
                let src = self.path();
                let tree = self.tree.as_ref().unwrap();
                let _g = self.rt.enter();
                let l0_before = fe::levels(tree).first().map_or(0, |l| l.len());
                let mut a = tree.begin_with_mode(Mode::ReadWrite).unwrap();
                for i in 0..n {
                    a.set(format!("a{:02}", i).into_bytes(), vec![0x41u8; size]).unwrap();
                }
                surrealkv::verif::yieldp::set_hook(Some(hook));
                let ha = self.rt.spawn(async move { a.commit().await.map_err(|e| err_name(&e)) });
                let wait = |f: &dyn Fn() -> bool| {
                    let t0 = std::time::Instant::now();
                    while !f() && t0.elapsed().as_secs() < 10 {
                        std::thread::sleep(std::time::Duration::from_millis(5));
                    }
                    f()
                };
                let parked = wait(&|| PARKED.load(AO::SeqCst));
                // the harness stores run without the background task manager: do what the woken flush task does
                // (flush the oldest immutable memtable and switch the manifest), on this thread
                let flushed = parked && fe::flush_oldest(tree).unwrap_or(false) && fe::levels(tree).first().map_or(0, |l| l.len()) > l0_before;
                let mut b = tree.begin_with_mode(Mode::ReadWrite).unwrap();
                b.set(b"b00".to_vec(), b"B".to_vec()).unwrap();
                b.set_durability(surrealkv::Durability::Immediate);
                let hb = self.rt.spawn(async move { b.commit().await.map_err(|e| err_name(&e)) });
                std::thread::sleep(std::time::Duration::from_millis(400));
                let b_returned_early = hb.is_finished();
                let copied = copy_dir(&src, std::path::Path::new(dst)).is_ok();
                let _ = std::fs::remove_file(std::path::Path::new(dst).join("LOCK"));
                RELEASE.store(true, AO::SeqCst);
                let ra = self.rt.block_on(ha).map_or("join-error".to_string(), |r| r.map_or_else(|e| format!("err:{}", e), |_| "ok".into()));
                let rb = self.rt.block_on(hb).map_or("join-error".to_string(), |r| r.map_or_else(|e| format!("err:{}", e), |_| "ok".into()));
                surrealkv::verif::yieldp::set_hook(None);
                format!("parked={} flushed={} b_returned_before_image={} image={} a={} b={}", parked, flushed, b_returned_early, copied, ra, rb)
            }
            ["rotate"] => self.phys(|t| fe::rotate(t)),
            ["flush"] => self.phys(|t| fe::flush_all(t)),
            ["flush1"] => self.phys(|t| fe::flush_oldest(t).map(|_| ())),
            ["compact", l] => {
                let l: u8 = l.parse().unwrap();
                self.phys(|t| fe::compact_level(t, l))
            }
            ["compactauto"] => self.phys(|t| fe::compact_auto(t)),
            ["levels"] => {
                let lv = self.with_tree(|t| fe::levels(t)).unwrap();
                let s: Vec<String> = lv
                    .iter()
                    .map(|l| l.iter().map(|t| format!("{}[{}..{}]@{}-{}", t.0, bytes_to_hex(&t.1), bytes_to_hex(&t.2), t.3, t.4)).collect::<Vec<_>>().join(" "))
                    .collect();
                format!("levels:{}", s.join(" | "))
            }
            ["snapshots"] => format!("snapshots:{:?}", self.with_tree(|t| fe::snapshots(t)).unwrap()),
            // C01 / C06: where every version sits (active memtable, immutable memtables in the order get searches them,
            // per level every table with its key range) and what Snapshot::get answers for every stored key at every
            // registered horizon and at the visibility horizon.  One line:
            //   lv:lc=..;ver=..;ret=..;now=..;vis=..;snaps=a,b;act=V;imm=id:V+id:V;lev=T+T/T/..;reads=key.horizon.seq|n,..
            //   V = key.seq.kind.ts,..   T = id:lo:hi:V   ("-" = empty)
            ["lvdump"] => {
                let d = match self.with_tree(|t| surrealkv::verif::levels::dump(t)) {
                    Some(Ok(d)) => d,
                    Some(Err(e)) => return format!("err:{}", e.replace(' ', "_")),
                    None => return "err:closed".into(),
                };
                let vers = |vs: &Vec<(Vec<u8>, u64, u8, u64)>| {
                    if vs.is_empty() {
                        "-".to_string()
                    } else {
                        vs.iter().map(|v| format!("{}.{}.{}.{}", bytes_to_hex(&v.0), v.1, v.2, v.3)).collect::<Vec<_>>().join(",")
                    }
                };
                let dash = |s: String| if s.is_empty() { "-".to_string() } else { s };
                let imm = dash(d.immutables.iter().map(|(id, vs)| format!("{}:{}", id, vers(vs))).collect::<Vec<_>>().join("+"));
                let lev = d
                    .levels
                    .iter()
                    .map(|l| dash(l.iter().map(|t| format!("{}:{}:{}:{}", t.id, bytes_to_hex(&t.smallest), bytes_to_hex(&t.largest), vers(&t.versions))).collect::<Vec<_>>().join("+")))
                    .collect::<Vec<_>>()
                    .join("/");
                let reads = dash(
                    d.reads
                        .iter()
                        .map(|(k, h, r)| format!("{}.{}.{}", bytes_to_hex(k), h, r.map(|s| s.to_string()).unwrap_or_else(|| "n".into())))
                        .collect::<Vec<_>>()
                        .join(","),
                );
                format!(
                    "lv:lc={};ver={};ret={};now={};vis={};snaps={};act={};imm={};lev={};reads={}",
                    d.level_count,
                    d.versioning as u8,
                    d.retention_ns,
                    d.now,
                    d.visible_seq,
                    dash(d.snapshots.iter().map(|s| s.to_string()).collect::<Vec<_>>().join(",")),
                    vers(&d.active),
                    imm,
                    lev,
                    reads
                )
            }
            // C11: the value-log bookkeeping of the running store (directory listing, writer ids, every live table's
            // oldest_vlog_file_id and stored values, the version index); stored values in the compact form of vp.rs
            ["vlogdump"] => {
                let d = match self.with_tree(|t| surrealkv::verif::vlogptr::vlog_state(t)) {
                    Some(Ok(d)) => d,
                    Some(Err(e)) => return format!("err:{}", e.replace(' ', "_")),
                    None => return "err:closed".into(),
                };
                if !d.enabled {
                    return "vlog:off".into();
                }
                let ents = |es: &Vec<(Vec<u8>, Vec<u8>)>| {
                    es.iter().map(|(k, s)| format!("{}={}", bytes_to_hex(k), crate::vp::show_stored(s, true))).collect::<Vec<_>>().join(",")
                };
                let tables: Vec<String> = d.tables.iter().map(|t| format!("{}@{}/{}[{}]", t.id, t.level, t.oldest_vlog_file_id, ents(&t.entries))).collect();
                format!(
                    "vlog:files={};active={};next={};min={};tables={};index={}",
                    d.files.iter().map(|(i, s)| format!("{}:{}", i, s)).collect::<Vec<_>>().join(","),
                    d.active,
                    d.next,
                    d.min_oldest,
                    tables.join("|"),
                    match &d.index {
                        None => "off".to_string(),
                        Some(ix) => format!("[{}]", ents(ix)),
                    }
                )
            }
            // C14: the live tables of the running store — id and every entry `user key @ sequence number = value`
            // (`!` = tombstone, `p` = a value-log pointer) — and the visible sequence number (read-only facade dumps)
            ["tabledump"] => {
                let d = match self.with_tree(|t| surrealkv::verif::vlogptr::vlog_state(t)) {
                    Some(Ok(d)) => d,
                    Some(Err(e)) => return format!("err:{}", e.replace(' ', "_")),
                    None => return "err:closed".into(),
                };
                let vis = self.with_tree(|t| fe::visible_seq(t)).unwrap();
                let tables: Vec<String> = d
                    .tables
                    .iter()
                    .map(|t| {
                        let mut es: Vec<String> = t
                            .entries
                            .iter()
                            .map(|(k, s)| {
                                let n = k.len() - 16;
                                let mut tr = [0u8; 8];
                                tr.copy_from_slice(&k[n..n + 8]);
                                let trailer = u64::from_be_bytes(tr);
                                let kind = trailer & 0xff;
                                let v = if kind == 0 || kind == 1 {
                                    "!".to_string()
                                } else {
                                    let sh = crate::vp::show_stored(s, false);
                                    match sh.strip_prefix("i:") {
                                        Some(x) => x.to_string(),
                                        None => if sh.starts_with("p:") { "p".to_string() } else { format!("?{}", sh) },
                                    }
                                };
                                format!("{}@{}={}", bytes_to_hex(&k[..n]), trailer >> 8, v)
                            })
                            .collect();
                        es.sort();
                        format!("{}[{}]", t.id, es.join(","))
                    })
                    .collect();
                format!("tabs:vis={};tables={}", vis, tables.join("|"))
            }
            // C11: a history cursor that STAYS OPEN (driven by `cur <cid> first|next|..`, closed by `curclose`): it keeps
            // the table set it was opened on
            ["histopen", id, cid, lo, hi, tomb] => {
                let c = cid.parse::<u32>().unwrap();
                if let Some(owner) = self.cur_owner.remove(&c) {
                    if let Some(t) = self.txs.get_mut(&owner) {
                        t.cursors.remove(&c);
                    }
                }
                let n = id.parse::<u32>().unwrap();
                match self.txs.get_mut(&n) {
                    Some(t) => {
                        let ho = HistoryOptions::new().with_tombstones(*tomb == "1");
                        match t.tx.history_with_options(hex_to_bytes(lo), hex_to_bytes(hi), &ho) {
                            Ok(it) => {
                                let b: Box<dyn LSMIterator + '_> = Box::new(it);
                                // SAFETY: as in open_cursor
                                let cur = unsafe { std::mem::transmute::<Box<dyn LSMIterator + '_>, Cursor>(b) };
                                t.cursors.insert(c, cur);
                                self.cur_owner.insert(c, n);
                                "ok".into()
                            }
                            Err(e) => format!("err:{}", err_name(&e)),
                        }
                    }
                    None => "err:NoTxn".into(),
                }
            }
            _ => "bad-command".into(),
        }
    }
    fn phys(&mut self, f: impl FnOnce(&Tree) -> Result<(), String>) -> String {
        let _g = self.rt.enter();
        match f(self.tree.as_ref().unwrap()) {
            Ok(()) => "ok".into(),
            Err(e) => format!("err:phys:{}", e.replace(' ', "_")),
        }
    }
}

impl Drop for E2 {
    fn drop(&mut self) {
        self.close_tree();
    }
}
#[allow(dead_code)]
fn _unused(_: Arc<()>) {}

fn copy_dir(src: &std::path::Path, dst: &std::path::Path) -> std::io::Result<()> {
    std::fs::create_dir_all(dst)?;
    for e in std::fs::read_dir(src)? {
        let e = e?;
        let p = e.path();
        let q = dst.join(e.file_name());
        if p.is_dir() {
            copy_dir(&p, &q)?;
        } else {
            std::fs::copy(&p, &q)?;
        }
    }
    Ok(())
}

extern "C" {
    fn _exit(code: i32) -> !;
}
unsafe fn libc_exit() -> ! {
    _exit(0)
}
