//! E1 engine for sorted tables (C13): scripts over `surrealkv::verif::table`.
//! Same command language as `tbl_cmd` in driver/main.ml.
use crate::util::*;
use std::collections::HashMap;
use surrealkv::verif::table as ft;

pub struct TblEngine {
    dir: tempfile::TempDir,
    tables: HashMap<String, (ft::TableH, usize)>, // table, filter bits (0 = none)
    cursors: HashMap<(String, String), ft::Cursor>,
    next_id: u64,
}

fn parse_opts(s: &str) -> ft::TableOpts {
    let mut o = ft::TableOpts { block_size: 4096, restart_interval: 16, index_partition_size: 16384, snappy: false, filter_bits: None, level: 0 };
    for kv in s.split(',') {
        let p: Vec<&str> = kv.split('=').collect();
        let v: usize = p[1].parse().unwrap();
        match p[0] {
            "bs" => o.block_size = v,
            "ri" => o.restart_interval = v,
            "ips" => o.index_partition_size = v,
            "z" => o.snappy = v != 0,
            "f" => o.filter_bits = if v == 0 { None } else { Some(v) },
            "lvl" => o.level = v as u8,
            _ => panic!("bad option"),
        }
    }
    o
}

fn parse_entries(s: &str) -> Vec<ft::Entry> {
    if s == "-" {
        return vec![];
    }
    s.split(',')
        .map(|tok| {
            let p: Vec<&str> = tok.split(':').collect();
            let val = if p.len() == 7 { rep(p[5].parse().unwrap(), p[6].parse().unwrap()) } else { hex_to_bytes(p[4]) };
            (hex_to_bytes(p[0]), p[1].parse().unwrap(), p[2].parse().unwrap(), p[3].parse().unwrap(), val)
        })
        .collect()
}

fn show_val(v: &[u8]) -> String {
    if v.len() <= 32 {
        bytes_to_hex(v)
    } else {
        format!("#{}/{}", v.len(), fnv(v))
    }
}

fn show_key(k: &ft::KeyParts) -> String {
    format!("{}:{}:{}:{}", bytes_to_hex(&k.0), k.1, k.2, k.3)
}

fn show_pos(r: bool, p: &ft::CurPos) -> String {
    match p {
        None => format!("r={} invalid", r as u8),
        Some((k, v)) => format!("r={} {}={}", r as u8, show_key(k), show_val(v)),
    }
}

fn parse_bound(s: &str) -> ft::UBound {
    if s == "~" {
        ft::UBound::Unbounded
    } else if let Some(h) = s.strip_prefix('i') {
        ft::UBound::Included(hex_to_bytes(h))
    } else if let Some(h) = s.strip_prefix('x') {
        ft::UBound::Excluded(hex_to_bytes(h))
    } else {
        panic!("bad bound")
    }
}

fn fnv_keys(keys: &[&Vec<u8>]) -> String {
    let mut all = Vec::new();
    for k in keys {
        all.extend_from_slice(&(k.len() as u32).to_be_bytes());
        all.extend_from_slice(k);
    }
    fnv(&all)
}

impl TblEngine {
    pub fn new() -> Self {
        TblEngine { dir: tempfile::tempdir().unwrap(), tables: HashMap::new(), cursors: HashMap::new(), next_id: 1 }
    }

    pub fn cmd(&mut self, a: &[&str]) -> String {
        match a {
            ["params"] => {
                let (k, sm, tm, ck, cl) = ft::params();
                format!("kinds={} seqmax={} tsmax={} cksum={} ctype={}", k.iter().map(|x| x.to_string()).collect::<Vec<_>>().join("."), sm, tm, ck, cl)
            }
            ["build", id, opts, entries, ..] => {
                let o = parse_opts(opts);
                let es = parse_entries(entries);
                let tid = self.next_id;
                self.next_id += 1;
                let path = self.dir.path().join(format!("{}.sst", tid));
                // drop cursors and the old table of that name first
                self.cursors.retain(|k, _| k.0 != *id);
                self.tables.remove(*id);
                if es.is_empty() {
                    return "err:empty".into();
                }
                if let Err(e) = ft::build(&path, tid, &o, &es) {
                    return format!("err:{}", e.replace(' ', "_"));
                }
                let t = match ft::open(&path, tid, &o) {
                    Ok(t) => t,
                    Err(e) => return format!("err:open:{}", e.replace(' ', "_")),
                };
                let lay = match t.layout() {
                    Ok(l) => l,
                    Err(e) => return format!("err:layout:{}", e.replace(' ', "_")),
                };
                let blocks: Vec<String> = lay.iter().flat_map(|p| p.blocks.iter().map(|b| b.entries.to_string())).collect();
                let parts: Vec<String> = lay.iter().map(|p| p.blocks.len().to_string()).collect();
                let idx: Vec<&Vec<u8>> = lay.iter().flat_map(|p| p.blocks.iter().map(|b| &b.index_key)).collect();
                let top: Vec<&Vec<u8>> = lay.iter().map(|p| &p.top_key).collect();
                let firsts: Vec<&Vec<u8>> = lay.iter().flat_map(|p| p.blocks.iter().map(|b| &b.first_key)).collect();
                let lasts: Vec<&Vec<u8>> = lay.iter().flat_map(|p| p.blocks.iter().map(|b| &b.last_key)).collect();
                let (sm, lg) = t.key_range();
                let r = format!(
                    "ok n={} blocks={} parts={} idx={} top={} firsts={} lasts={} range={}..{} filter={}",
                    t.num_entries(),
                    blocks.join("."),
                    parts.join("."),
                    fnv_keys(&idx),
                    fnv_keys(&top),
                    fnv_keys(&firsts),
                    fnv_keys(&lasts),
                    sm.as_ref().map(show_key).unwrap_or("none".into()),
                    lg.as_ref().map(show_key).unwrap_or("none".into()),
                    t.filter_may_contain(b"").is_some() as u8
                );
                self.tables.insert(id.to_string(), (t, o.filter_bits.unwrap_or(0)));
                r
            }
            ["index", id] => {
                let lay = self.tables[*id].0.layout().unwrap();
                let parts: Vec<String> = lay
                    .iter()
                    .map(|p| format!("{}>{}", bytes_to_hex(&p.top_key), p.blocks.iter().map(|b| bytes_to_hex(&b.index_key)).collect::<Vec<_>>().join(",")))
                    .collect();
                parts.join(";")
            }
            ["get", id, key, snap] => match self.tables[*id].0.get(&hex_to_bytes(key), snap.parse().unwrap()) {
                Err(e) => format!("err:{}", e.replace(' ', "_")),
                Ok(None) => "none".into(),
                Ok(Some((k, v))) => format!("some:{}={}", show_key(&k), show_val(&v)),
            },
            ["filt", id, key] => match self.tables[*id].0.filter_may_contain(&hex_to_bytes(key)) {
                None => "nofilter".into(),
                Some(b) => (b as u8).to_string(),
            },
            ["cur", id, cid, "open", lo, hi] => {
                let range = if *lo == "~" && *hi == "~" { None } else { Some((parse_bound(lo), parse_bound(hi))) };
                match self.tables[*id].0.cursor(range) {
                    Err(e) => format!("err:{}", e.replace(' ', "_")),
                    Ok(c) => {
                        self.cursors.insert((id.to_string(), cid.to_string()), c);
                        "ok".into()
                    }
                }
            }
            ["cur", id, cid, op, rest @ ..] => {
                let c = self.cursors.get_mut(&(id.to_string(), cid.to_string())).unwrap();
                let r = match (*op, rest) {
                    ("first", []) => c.seek_first(),
                    ("last", []) => c.seek_last(),
                    ("next", []) => c.next(),
                    ("prev", []) => c.prev(),
                    ("seek", [k, seq]) => c.seek(&hex_to_bytes(k), seq.parse().unwrap(), 2, 0),
                    _ => return "bad-command".into(),
                };
                match r {
                    Err(e) => format!("err:{}", e.replace(' ', "_")),
                    Ok((r, p)) => show_pos(r, &p),
                }
            }
            ["pred", id, "inrange", key] => (self.tables[*id].0.is_key_in_key_range(&hex_to_bytes(key), 0) as u8).to_string(),
            ["pred", id, which, lo, hi] => {
                let t = &self.tables[*id].0;
                let (lo, hi) = (parse_bound(lo), parse_bound(hi));
                let b = match *which {
                    "before" => t.is_before_range(&lo, &hi),
                    "after" => t.is_after_range(&lo, &hi),
                    "overlaps" => t.overlaps_with_range(&lo, &hi),
                    _ => return "bad-command".into(),
                };
                (b as u8).to_string()
            }
            ["sep", "bytewise", x, y] => bytes_to_hex(&ft::bytewise_separator(&hex_to_bytes(x), &hex_to_bytes(y))),
            ["succ", "bytewise", x] => bytes_to_hex(&ft::bytewise_successor(&hex_to_bytes(x))),
            ["sep", "internal", x, y] => bytes_to_hex(&ft::internal_separator(&hex_to_bytes(x), &hex_to_bytes(y))),
            ["succ", "internal", x] => bytes_to_hex(&ft::internal_successor(&hex_to_bytes(x))),
            ["cmp", x, y] => ft::compare_internal(&hex_to_bytes(x), &hex_to_bytes(y)).to_string(),
            ["enc", k, seq, kind, ts] => bytes_to_hex(&ft::encode_key(&hex_to_bytes(k), seq.parse().unwrap(), kind.parse().unwrap(), ts.parse().unwrap())),
            ["dec", x] => match ft::decode_key(&hex_to_bytes(x)) {
                None => "short".into(),
                Some(k) => show_key(&k),
            },
            ["hash", x, seed] => ft::bloom_hash(&hex_to_bytes(x), seed.parse().unwrap()).to_string(),
            ["bloom", bpk, keys, probes] => {
                let bpk: usize = bpk.parse().unwrap();
                let keys: Vec<Vec<u8>> = if *keys == "~" { vec![] } else { keys.split(',').map(hex_to_bytes).collect() };
                let f = ft::bloom_create(bpk, &keys);
                let ans: String = probes.split(',').map(|p| if ft::bloom_may_contain(bpk, &f, &hex_to_bytes(p)) { '1' } else { '0' }).collect();
                format!("filter={}/{} probes={}", f.len(), fnv(&f), ans)
            }
            _ => "bad-command".into(),
        }
    }
}
