//! E1 engine for the compaction iterator (per-key retention logic).
use crate::util::*;
use surrealkv::verif::compaction as fc;

pub fn cmd(a: &[&str]) -> String {
    match a {
        ["run", bottom, versioning, ret, now, snaps, runs] => {
            let snaps: Vec<u64> = if *snaps == "-" { vec![] } else { snaps.split(',').map(|x| x.parse().unwrap()).collect() };
            let runs: Vec<Vec<fc::Version>> = runs
                .split('|')
                .map(|run| {
                    if run.is_empty() {
                        return vec![];
                    }
                    run.split(',')
                        .map(|tok| {
                            let p: Vec<&str> = tok.split(':').collect();
                            (hex_to_bytes(p[0]), p[1].parse().unwrap(), p[2].parse().unwrap(), p[3].parse().unwrap(), vec![1u8])
                        })
                        .collect()
                })
                .collect();
            match fc::run_iterator(runs, snaps, *bottom == "1", *versioning == "1", ret.parse().unwrap(), now.parse().unwrap()) {
                Err(e) => format!("err:{}", e.replace(' ', "_")),
                Ok(out) => {
                    let parts: Vec<String> = out.iter().map(|(k, s, kd, ts)| format!("{}:{}:{}:{}", bytes_to_hex(k), s, kd, ts)).collect();
                    format!("out:{}", parts.join(","))
                }
            }
        }
        _ => "bad-command".into(),
    }
}
