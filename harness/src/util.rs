//! shared helpers: hex, FNV-1a, deterministic record generator (identical to driver/main.ml)
pub fn hex_to_bytes(s: &str) -> Vec<u8> {
    if s == "-" {
        return Vec::new();
    }
    (0..s.len() / 2).map(|i| u8::from_str_radix(&s[2 * i..2 * i + 2], 16).unwrap()).collect()
}
pub fn bytes_to_hex(b: &[u8]) -> String {
    if b.is_empty() {
        return "-".to_string();
    }
    let mut s = String::with_capacity(b.len() * 2);
    for x in b {
        s.push_str(&format!("{:02x}", x));
    }
    s
}
pub fn fnv(b: &[u8]) -> String {
    let mut h: u64 = 0xcbf29ce484222325;
    for x in b {
        h = (h ^ (*x as u64)).wrapping_mul(0x100000001b3);
    }
    format!("{:016x}", h)
}
pub fn rep(len: usize, seed: usize) -> Vec<u8> {
    (0..len).map(|i| ((seed * 31 + i * 7 + (i / 251)) & 255) as u8).collect()
}
pub fn bytes_tok(tok: &str) -> Vec<u8> {
    let p: Vec<&str> = tok.split(':').collect();
    if p.len() == 3 && p[0] == "rep" {
        rep(p[1].parse().unwrap(), p[2].parse().unwrap())
    } else {
        hex_to_bytes(tok)
    }
}
