#!/usr/bin/env python3
"""Regenerates the tables of DESIGN.md section 0 (between the BEGIN/END markers) from known_findings.json,
seeded/*/meta.json, MANIFEST.json and the evidence files."""
import json, os, re, glob
V = os.path.dirname(os.path.dirname(os.path.abspath(__file__)))
def cut(s, n):
    s = " ".join((s or "").split())
    return s if len(s) <= n else s[:n - 1] + "…"
out = []
m = json.load(open(V + "/MANIFEST.json"))
out.append("#### Checks registered (MANIFEST.json)\n")
out.append("| property | engine | theorems in Props/<id>.v | last quick run: evaluations / non-trivial |")
out.append("|---|---|---|---|")
for c in m["checks"]:
    pid = c["property_id"]
    ev = {}
    try:
        ev = json.load(open(V + "/evidence/%s.json" % pid))
    except Exception:
        pass
    cov = ev.get("coverage", ev)
    out.append("| %s | %s | %s | %s / %s |" % (pid, c.get("engine", ""), cov.get("obligations", "?"), cov.get("evaluations", "?"), cov.get("distinct_nontrivial", "?")))
na = m.get("not_applicable", [])
if na:
    out.append("\nNot claimed at the moment: " + "; ".join("%s (%s)" % (x["property_id"], cut(x["reason"], 120)) for x in na))
kf = json.load(open(V + "/known_findings.json"))["findings"]
out.append("\n#### Genuine defects found (known_findings.json)\n")
out.append("| id | property | status | what fails | repair commit in /repo |")
out.append("|---|---|---|---|---|")
for f in kf:
    out.append("| %s | %s | %s | %s | %s |" % (f["id"], f["property"], f["status"], cut(f["what"], 260).replace("|", "/"), f.get("commit", "—")))
out.append("\n#### Seeded changes (seeded/<id>/)\n")
out.append("| seed | change | detected by | how |")
out.append("|---|---|---|---|")
for d in sorted(glob.glob(V + "/seeded/*/meta.json")):
    x = json.load(open(d))
    out.append("| %s | %s | %s | %s |" % (os.path.basename(os.path.dirname(d)), cut(x.get("breaks"), 240).replace("|", "/"), x.get("detected_by"), cut(x.get("how"), 260).replace("|", "/")))
text = "\n".join(out) + "\n"
p = V + "/DESIGN.md"
s = open(p).read()
b, e = "<!-- BEGIN GENERATED TABLES -->", "<!-- END GENERATED TABLES -->"
if b in s and e in s:
    s = s[:s.index(b) + len(b)] + "\n" + text + s[s.index(e):]
    open(p, "w").write(s)
    print("DESIGN.md tables regenerated (%d lines)" % len(out))
else:
    print(text)
