"""C07 — the store can always reopen what it wrote (E2 reopen profiles + E4 crash images)."""
from . import crashwl as W

PARAM_SECTIONS = ["wal"]
from . import e2gen as G
from . import crashproto as P

MODEL_TARGETS = ["theories/Spec/Machine.vo", "theories/Crash/Proto.vo"]
TRUSTED = __import__("vlib.c02", fromlist=["TRUSTED"]).TRUSTED + [
    "clean-reopen part: API histories with reopen placed anywhere, compared with the specification machine (reopen = identity on committed data)"]
ASSUMPTIONS = __import__("vlib.c02", fromlist=["ASSUMPTIONS"]).ASSUMPTIONS

OPTS = ["lc=1", "lc=2", "lc=3,bs=64,ips=32", "lc=4", "lc=2,vlog=1,vth=4,vfs=128", "lc=2,foc=1", "lc=3,mem=16384"]
W_ = dict(begin=6, write=40, get=8, scan=4, range=0, cur=0, sp=0, rbsp=0, commit=14, rollback=1, drop=1,
          rotate=6, flush=10, flush1=4, compact=16, compactauto=2, reopen=8)
PROFILES = [
    dict(name="reopen-shapes", opts=OPTS, weights=W_, length=(60, 160)),
    dict(name="tombstone-levels", opts=OPTS, weights=dict(W_, write=50), keys=["61", "62", "63", "6162"], length=(60, 160)),
]


def nontrivial(lines, exp):
    ops = [l.split()[1] for l in lines]
    return ops.count("reopen") >= 1 and "compact" in ops and ops.count("commit") >= 2


def explore(ctx):
    r = G.explore_profiles(ctx, "C07", PROFILES, nontrivial, n_quick=150, n_thorough=2000)
    c = W.explore(dict(ctx, seed=ctx["seed"] + 2000), "C07", {"open-failed"}, n_quick=8, n_thorough=60, proto=P, proto_gen2=2 if ctx["tier"] == "quick" else 6)
    from . import multigen as MG
    c = MG.directed("C07", c)
    c = P.merge(c, ctx, "C07")
    r["disagreements"] = r.get("disagreements", []) + c["disagreements"]
    r["violations"] += [(d, t) for (d, t, _) in c["violations"]][:3]
    cov, cc = r["coverage"], c["coverage"]
    cov["evaluations"] += cc["evaluations"]
    cov["distinct_nontrivial"] += cc["distinct_nontrivial"]
    cov["crash_images"] = cc["images"]
    cov["crash_verdicts"] = cc["verdicts"]
    cov["protocol_model"] = cc.get("protocol_model", {})
    cov["rule"] = ("(1) API histories with clean reopen anywhere over level shapes produced by flush and per-level compaction (several tables on "
                   "deep levels, levels emptied by tombstone compaction), compared with the specification machine; (2) " + cc["rule"] +
                   " — here the verdict is that every image opens (twice) without error")
    cov["samples"] = cov.get("samples", []) + cc["samples"][:1]
    return r


def replay(ctx):
    t = open(ctx["replay"]).read()
    if "# image kept at" in t:
        print(t)
        return 0
    return G.replay(ctx)
