"""C07 — the store can always reopen what it wrote (E2 reopen profiles + E4 crash images)."""
from . import crashwl as W

PARAM_SECTIONS = ["wal", "vlog"]
from . import e2gen as G
from . import crashproto as P

MODEL_TARGETS = ["theories/Spec/Machine.vo", "theories/Crash/Proto.vo", "theories/Lsm/VlogOpen.vo"]
TRUSTED = __import__("vlib.c02", fromlist=["TRUSTED"]).TRUSTED + [
    "clean-reopen part: API histories with reopen placed anywhere, compared with the specification machine (reopen = identity on committed data)"]
ASSUMPTIONS = __import__("vlib.c02", fromlist=["ASSUMPTIONS"]).ASSUMPTIONS

OPTS = ["lc=1", "lc=2", "lc=3,bs=64,ips=32", "lc=4", "lc=2,vlog=1,vth=4,vfs=128", "lc=2,foc=1", "lc=3,mem=16384"]
W_ = dict(begin=6, write=40, get=8, scan=4, range=0, cur=0, sp=0, rbsp=0, commit=14, rollback=1, drop=1,
          rotate=6, flush=10, flush1=4, compact=16, compactauto=2, reopen=8)
PROFILES = [
    dict(name="reopen-shapes", opts=OPTS, weights=W_, length=(60, 160)),
    dict(name="tombstone-levels", opts=OPTS, weights=dict(W_, write=50), keys=["61", "62", "63", "6162"], length=(60, 160)),
]


def nontrivial(lines, exp):
    ops = [l.split()[1] for l in lines]
    return ops.count("reopen") >= 1 and "compact" in ops and ops.count("commit") >= 2


def header_sweep(ctx, r):
    """value-log file header: every prefix of a header (what a crash or a failed write leaves of a new file), whole
    headers with one field altered, headers followed by bytes — model (Lsm/VlogOpen.v vopen_file + vwriter_open) vs
    VLog::new on a directory holding that one file.  A prefix of a good header that refuses the directory is a violation
    whatever the model says (class torn_vlog_file_blocks_reopen)."""
    import random
    from . import common as C
    rng = random.Random(ctx["seed"] * 31 + 7)
    cases = []
    ids = [1, 2, 7, 300, 65536 + 5] + [rng.randrange(1, 2 ** 32) for _ in range(3 if ctx["tier"] == "quick" else 40)]
    for fid in ids:
        good = bytes.fromhex("564c4f47") + (1).to_bytes(2, "big") + fid.to_bytes(4, "big") + rng.randrange(2 ** 40).to_bytes(8, "big") + (4096).to_bytes(8, "big") + b"\0" + b"\0" * 4
        for n in range(0, 32):
            cases.append((fid, good[:n], "prefix"))
        cases.append((fid, good + bytes(rng.randrange(256) for _ in range(rng.randrange(1, 40))), "header+bytes"))
        for _ in range(6 if ctx["tier"] == "quick" else 40):
            b = bytearray(good + bytes(rng.randrange(256) for _ in range(rng.choice([0, 0, 5, 20]))))
            i = rng.randrange(0, 12)
            b[i] ^= 1 << rng.randrange(8)
            cases.append((fid, bytes(b[:rng.choice([len(b), len(b), rng.randrange(1, len(b) + 1)])]), "altered"))
    script = ["vp hopen %d %s" % (fid, b.hex() or "-") for fid, b, _ in cases]
    sides = ("impl", "model") if ctx["have_model"] else ("impl",)
    out = C.run_pairs([script], sides=sides)[0]
    impl = out["impl"][0]
    model = out["model"][0] if "model" in out else [None] * len(script)
    kinds = {}
    for (fid, b, kind), cmd, a, m in zip(cases, script, impl + ["no-answer"] * len(script), model + [None] * len(script)):
        key = "%s:%s" % (kind, a.split(":")[0])
        kinds[key] = kinds.get(key, 0) + 1
        if kind == "prefix" and a == "refuse":
            r["violations"].append(("a value-log file holding the first %d bytes of its header makes the open refuse the directory (class torn_vlog_file_blocks_reopen)" % len(b),
                                    "# property=C07\n# value-log header sweep (tools/vlib/c07.py header_sweep); replay: feed the line to harness/target/release/skv_harness and to driver/skv_driver\n%s\n# IMPL %s\n# MODEL %s\n" % (cmd, a, m)))
        elif m is not None and a != m:
            r["disagreements"].append("value-log header open: `%s` IMPL %s MODEL %s" % (cmd, a, m))
    r["coverage"]["vlog_header_open"] = dict(cases=len(cases), outcomes=kinds)
    r["coverage"]["evaluations"] += len(cases) * len(sides)
    return r


def explore(ctx):
    r = G.explore_profiles(ctx, "C07", PROFILES, nontrivial, n_quick=150, n_thorough=2000)
    c = W.explore(dict(ctx, seed=ctx["seed"] + 2000), "C07", {"open-failed"}, n_quick=8, n_thorough=60, proto=P, proto_gen2=2 if ctx["tier"] == "quick" else 6)
    from . import multigen as MG
    c = MG.directed("C07", c)
    c = P.merge(c, ctx, "C07")
    r["disagreements"] = r.get("disagreements", []) + c["disagreements"]
    r["violations"] += [(d, t) for (d, t, _) in c["violations"]][:3]
    cov, cc = r["coverage"], c["coverage"]
    cov["evaluations"] += cc["evaluations"]
    cov["distinct_nontrivial"] += cc["distinct_nontrivial"]
    cov["crash_images"] = cc["images"]
    cov["crash_verdicts"] = cc["verdicts"]
    cov["protocol_model"] = cc.get("protocol_model", {})
    cov["rule"] = ("(1) API histories with clean reopen anywhere over level shapes produced by flush and per-level compaction (several tables on "
                   "deep levels, levels emptied by tombstone compaction), compared with the specification machine; (2) " + cc["rule"] +
                   " — here the verdict is that every image opens (twice) without error")
    cov["samples"] = cov.get("samples", []) + cc["samples"][:1]
    r = header_sweep(ctx, r)
    return r


def replay(ctx):
    t = open(ctx["replay"]).read()
    if "# image kept at" in t:
        print(t)
        return 0
    return G.replay(ctx)
