"""C07 — the store can always reopen what it wrote (E2 reopen profiles + E4 crash images)."""
from . import crashwl as W

PARAM_SECTIONS = ["wal", "vlog", "arena"]
from . import e2gen as G
from . import crashproto as P

MODEL_TARGETS = ["theories/Spec/Machine.vo", "theories/Crash/Proto.vo", "theories/Lsm/VlogOpen.vo", "theories/Lsm/Arena.vo"]
TRUSTED = __import__("vlib.c02", fromlist=["TRUSTED"]).TRUSTED + [
    "clean-reopen part: API histories with reopen placed anywhere, compared with the specification machine (reopen = identity on committed data)"]
ASSUMPTIONS = __import__("vlib.c02", fromlist=["ASSUMPTIONS"]).ASSUMPTIONS

OPTS = ["lc=1", "lc=2", "lc=3,bs=64,ips=32", "lc=4", "lc=2,vlog=1,vth=4,vfs=128", "lc=2,foc=1", "lc=3,mem=16384"]
W_ = dict(begin=6, write=40, get=8, scan=4, range=0, cur=0, sp=0, rbsp=0, commit=14, rollback=1, drop=1,
          rotate=6, flush=10, flush1=4, compact=16, compactauto=2, reopen=8)
PROFILES = [
    dict(name="reopen-shapes", opts=OPTS, weights=W_, length=(60, 160)),
    dict(name="tombstone-levels", opts=OPTS, weights=dict(W_, write=50), keys=["61", "62", "63", "6162"], length=(60, 160)),
]


def nontrivial(lines, exp):
    ops = [l.split()[1] for l in lines]
    return ops.count("reopen") >= 1 and "compact" in ops and ops.count("commit") >= 2


def header_sweep(ctx, r):
    """value-log file header: every prefix of a header (what a crash or a failed write leaves of a new file), whole
    headers with one field altered, headers followed by bytes — model (Lsm/VlogOpen.v vopen_file + vwriter_open) vs
    VLog::new on a directory holding that one file.  A prefix of a good header that refuses the directory is a violation
    whatever the model says (class torn_vlog_file_blocks_reopen)."""
    import random
    from . import common as C
    rng = random.Random(ctx["seed"] * 31 + 7)
    cases = []
    ids = [1, 2, 7, 300, 65536 + 5] + [rng.randrange(1, 2 ** 32) for _ in range(3 if ctx["tier"] == "quick" else 40)]
    for fid in ids:
        good = bytes.fromhex("564c4f47") + (1).to_bytes(2, "big") + fid.to_bytes(4, "big") + rng.randrange(2 ** 40).to_bytes(8, "big") + (4096).to_bytes(8, "big") + b"\0" + b"\0" * 4
        for n in range(0, 32):
            cases.append((fid, good[:n], "prefix"))
        cases.append((fid, good + bytes(rng.randrange(256) for _ in range(rng.randrange(1, 40))), "header+bytes"))
        for _ in range(6 if ctx["tier"] == "quick" else 40):
            b = bytearray(good + bytes(rng.randrange(256) for _ in range(rng.choice([0, 0, 5, 20]))))
            i = rng.randrange(0, 12)
            b[i] ^= 1 << rng.randrange(8)
            cases.append((fid, bytes(b[:rng.choice([len(b), len(b), rng.randrange(1, len(b) + 1)])]), "altered"))
    script = ["vp hopen %d %s" % (fid, b.hex() or "-") for fid, b, _ in cases]
    sides = ("impl", "model") if ctx["have_model"] else ("impl",)
    out = C.run_pairs([script], sides=sides)[0]
    impl = out["impl"][0]
    model = out["model"][0] if "model" in out else [None] * len(script)
    kinds = {}
    for (fid, b, kind), cmd, a, m in zip(cases, script, impl + ["no-answer"] * len(script), model + [None] * len(script)):
        key = "%s:%s" % (kind, a.split(":")[0])
        kinds[key] = kinds.get(key, 0) + 1
        if kind == "prefix" and a == "refuse":
            r["violations"].append(("a value-log file holding the first %d bytes of its header makes the open refuse the directory (class torn_vlog_file_blocks_reopen)" % len(b),
                                    "# property=C07\n# value-log header sweep (tools/vlib/c07.py header_sweep); replay: feed the line to harness/target/release/skv_harness and to driver/skv_driver\n%s\n# IMPL %s\n# MODEL %s\n" % (cmd, a, m)))
        elif m is not None and a != m:
            r["disagreements"].append("value-log header open: `%s` IMPL %s MODEL %s" % (cmd, a, m))
    r["coverage"]["vlog_header_open"] = dict(cases=len(cases), outcomes=kinds)
    r["coverage"]["evaluations"] += len(cases) * len(sides)
    return r


def arena_seq_sweep(ctx, r):
    """sequences of batches added to ONE memtable (Lsm/Arena.v ar_step / ar_run; C07_arena_reachable_counter): the crate adds each
    batch of a generated sequence to one memtable and reports accepted/refused and the arena size after every call; for every call the
    model is asked at the ACTUAL size before it (heights all minimal / all maximal).  Accepted: the minimal-height run must fit and the
    new size lies between the two model answers and leaves room for an unused tower; refused: the maximal-height run must not fit
    (otherwise every drawing fits) and the size is unchanged."""
    import random
    from . import common as C
    if not ctx["have_model"]:
        return r
    rng = random.Random(ctx["seed"] * 977 + 11)
    quick = ctx["tier"] == "quick"
    seqs = []
    for cap in ([2048, 4096, 16384] if quick else [1024, 2048, 4096, 16384, 65536]):
        for _ in range(60 if quick else 600):
            bs = []
            for _ in range(rng.randint(3, 14)):
                n = rng.randint(1, 4)
                big = rng.random() < 0.25
                bs.append([(rng.choice([1, 4, 30]), rng.randint(0, cap // 2 if big else cap // 12)) for _ in range(n)])
            seqs.append((cap, bs))
    tok = lambda es: ",".join("%d:%d" % e for e in es)
    script = ["ar consts"] + ["ar seq %d %s" % (cap, " ".join(tok(b) for b in bs)) for cap, bs in seqs]
    impl = C.run_pairs([script], sides=("impl",))[0]["impl"][0]
    if len(impl) != len(script):
        r["disagreements"].append("arena sequences: %d answers for %d commands" % (len(impl), len(script)))
        return r
    try:
        n_empty = int(impl[0].split(":")[1])
    except Exception:
        r["disagreements"].append("arena sequences: consts answer %s" % impl[0])
        return r
    q, idx = [], []
    parsed = []
    for i, (cap, bs) in enumerate(seqs):
        try:
            steps = [(x.split(":")[0], int(x.split(":")[1])) for x in impl[1 + i].split()]
            assert len(steps) == len(bs)
            left = [int(x.split(":")[2]) for x in impl[1 + i].split()]
            if any(left):
                # the model's ar_mem_add at counter n has no reservation outstanding between calls
                r["disagreements"].append("arena sequences: bytes stay reserved after MemTable::add returned: `%s` IMPL %s" % (script[1 + i], impl[1 + i]))
        except Exception:
            r["disagreements"].append("arena sequences: `%s` IMPL %s" % (script[1 + i], impl[1 + i]))
            parsed.append(None)
            continue
        parsed.append(steps)
        n = n_empty
        for j, (kind, after) in enumerate(steps):
            q.append("ar at %d %d %s" % (cap, n, tok(bs[j])))
            idx.append((i, j, n))
            n = after
    model = C.run_pairs([q], sides=("model",))[0]["model"][0] if q else []
    st = dict(sequences=len(seqs), calls=len(q), accepted=0, refused=0, decided_by_heights=0)
    if len(model) != len(q):
        r["disagreements"].append("arena sequences: model gave %d answers for %d queries" % (len(model), len(q)))
        return r
    for (i, j, n), line, ans in zip(idx, q, model):
        cap, bs = seqs[i]
        kind, after = parsed[i][j]
        try:
            f = dict(x.split(":") for x in ans.split())
            lo, hi, mu = f["lo"], f["hi"], int(f["mu"])
        except Exception:
            r["disagreements"].append("arena sequences: `%s` MODEL %s" % (line, ans))
            continue
        where = "`%s` call %d (size before %d): IMPL %s:%d MODEL %s" % (script[1 + i], j, n, kind, after, ans)
        if lo != "full" and hi == "full":
            st["decided_by_heights"] += 1
        if kind == "a":
            st["accepted"] += 1
            if lo == "full" or after < int(lo) or (hi != "full" and after > int(hi)) or after + mu > cap:
                r["disagreements"].append("arena sequences: accepted outside the model's range: " + where)
        else:
            st["refused"] += 1
            if hi != "full" or after != n:
                r["disagreements"].append("arena sequences: refused although every drawing fits, or size changed: " + where)
    r["coverage"]["arena_sequences"] = st
    r["coverage"]["evaluations"] += len(q) + len(seqs)
    return r


def arena_sweep(ctx, r):
    """memtable arena accounting: batches whose size sweeps the band below the memtable size — the pre-WAL bound of the crate equals
    the model's (Lsm/Arena.v ar_bound), the size of an empty memtable equals ar_empty_n, a batch the bound admits is accepted by an
    EMPTY memtable in every one of `reps` applications (the tower heights are drawn at random inside MemTable::add), and the arena
    sizes after accepted applications lie between the model's answers for all-minimal and all-maximal heights.  An admitted batch
    that an empty memtable refuses is a violation (class oversized_batch_logged_blocks_reopen: its record would be in the WAL)."""
    import random
    from . import common as C
    rng = random.Random(ctx["seed"] * 131 + 5)
    quick = ctx["tier"] == "quick"
    reps = 40 if quick else 400
    cases = []
    for cap in ([4096, 8192, 65536] if quick else [2048, 4096, 8192, 16384, 65536, 262144]):
        for total in range(cap - 1000, cap - 280, 8 if quick else 2):
            k = rng.choice([1, 4, 16, 100])
            cases.append((cap, [(k, total - k)]))
        for _ in range(40 if quick else 400):
            n = rng.randint(2, 6)
            room = cap - 399 - n * 200 - rng.randint(0, 400)
            if room < n * 8:
                continue
            cuts = sorted(rng.randint(0, room) for _ in range(n - 1))
            parts = [b - a for a, b in zip([0] + cuts, cuts + [room])]
            cases.append((cap, [(rng.choice([1, 4, 30]), max(0, p_)) for p_ in parts]))
    script = ["ar consts"]
    for cap, es in cases:
        t = ",".join("%d:%d" % e for e in es)
        script += ["ar bound " + t, "ar add %d %d %s" % (cap, reps, t)]
    sides = ("impl", "model") if ctx["have_model"] else ("impl",)
    out = C.run_pairs([script], sides=sides)[0]
    impl = out["impl"][0]
    model = out["model"][0] if "model" in out else None
    st = dict(cases=len(cases), admitted=0, admitted_refused=0, not_admitted_accepted_sometimes=0, applications=0)
    if model is not None and (len(model) != len(script) or len(impl) != len(script)):
        r["disagreements"].append("arena sweep: answer counts differ (impl %d, model %d, script %d)" % (len(impl), len(model), len(script)))
        model = None
    if model is not None:
        if impl[0] != model[0]:
            r["disagreements"].append("arena: empty memtable size IMPL %s MODEL %s" % (impl[0], model[0]))
        for i, (cap, es) in enumerate(cases):
            bi, bm = impl[1 + 2 * i], model[1 + 2 * i]
            ai, am = impl[2 + 2 * i], model[2 + 2 * i]
            cmd = script[2 + 2 * i]
            if bi != bm:
                r["disagreements"].append("arena: `%s` IMPL %s MODEL %s" % (script[1 + 2 * i], bi, bm))
                continue
            try:
                fi = dict(x.split(":") for x in ai.split())
                fm = dict(x.split(":") for x in am.split())
                ok, full = int(fi["ok"]), int(fi["full"])
            except Exception:
                r["disagreements"].append("arena: `%s` IMPL %s MODEL %s" % (cmd, ai, am))
                continue
            st["applications"] += ok + full
            if fm["admit"] == "1":
                st["admitted"] += 1
                if full:
                    st["admitted_refused"] += 1
                    r["violations"].append(("a batch admitted by the pre-WAL size check (bound %s <= %d) is refused by an EMPTY memtable in %d of %d applications (class oversized_batch_logged_blocks_reopen)" % (bi.split(":")[1], cap, full, ok + full),
                                            "# property=C07\n# arena sweep (tools/vlib/c07.py arena_sweep); replay: feed the lines to the harness (repeat: heights are random) and to driver/skv_driver\n%s\n%s\n# IMPL %s / %s\n# MODEL %s / %s\n" % (script[1 + 2 * i], cmd, bi, ai, bm, am)))
            elif ok:
                st["not_admitted_accepted_sometimes"] += 1
            if ok and fm["lo"] != "full" and int(fi["min"]) < int(fm["lo"]):
                r["disagreements"].append("arena: `%s` smallest arena size IMPL %s below MODEL lo %s" % (cmd, fi["min"], fm["lo"]))
            if ok and fm["hi"] != "full" and int(fi["max"]) > int(fm["hi"]):
                r["disagreements"].append("arena: `%s` largest arena size IMPL %s above MODEL hi %s" % (cmd, fi["max"], fm["hi"]))
    r["coverage"]["arena_accounting"] = st
    r["coverage"]["evaluations"] += len(script) * len(sides)
    return r


def explore(ctx):
    r = G.explore_profiles(ctx, "C07", PROFILES, nontrivial, n_quick=150, n_thorough=2000)
    c = W.explore(dict(ctx, seed=ctx["seed"] + 2000), "C07", {"open-failed"}, n_quick=8, n_thorough=60, proto=P, proto_gen2=2 if ctx["tier"] == "quick" else 6)
    from . import multigen as MG
    c = MG.directed("C07", c)
    c = P.merge(c, ctx, "C07")
    r["disagreements"] = r.get("disagreements", []) + c["disagreements"]
    r["violations"] += [(d, t) for (d, t, _) in c["violations"]][:3]
    cov, cc = r["coverage"], c["coverage"]
    cov["evaluations"] += cc["evaluations"]
    cov["distinct_nontrivial"] += cc["distinct_nontrivial"]
    cov["crash_images"] = cc["images"]
    cov["crash_verdicts"] = cc["verdicts"]
    cov["protocol_model"] = cc.get("protocol_model", {})
    cov["rule"] = ("(1) API histories with clean reopen anywhere over level shapes produced by flush and per-level compaction (several tables on "
                   "deep levels, levels emptied by tombstone compaction), compared with the specification machine; (2) " + cc["rule"] +
                   " — here the verdict is that every image opens (twice) without error")
    cov["samples"] = cov.get("samples", []) + cc["samples"][:1]
    r = header_sweep(ctx, r)
    r = arena_sweep(ctx, r)
    r = arena_seq_sweep(ctx, r)
    return r


def replay(ctx):
    t = open(ctx["replay"]).read()
    if "# image kept at" in t:
        print(t)
        return 0
    return G.replay(ctx)
