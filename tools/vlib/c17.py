"""C17 — commits and shutdown always complete.

Engine E3 (tools/vlib/e3lib.py) with 8+ committer threads, tiny memtables, stall thresholds 2 /
level0_max_files, failures (oversized batches fail in env.write after the enqueue; LD_PRELOAD shim
failures of WAL writes / fsyncs fail env.write or the rotation inside env.apply), close() in the
middle.  Liveness oracle on the implementation: every commit() and close() returns, no panic; the
scheduler reports a hang when no actor can move (blocking primitives tracked from the events; a
watchdog covers what is not tracked) with the seed and the trace.  Two directed regression schedules (the
witnesses of the repaired findings F43 queue overflow and F44 lost flush wake-up) must end normally.  Every trace is replayed through
the extracted LTS; small instances of the LTS are explored exhaustively (deadlocks, cycles of
system steps, overflow) as a TEST of the statements."""
from . import common as C
from . import e3lib as E
from .c05 import TRUSTED as T05, replay  # noqa: F401  (same replay entry point)

PARAM_SECTIONS = ["pipeline"]
MODEL_TARGETS = ["theories/Conc/PipelineExplore.vo", "theories/Conc/CommitSeq.vo", "theories/Spec/Machine.vo",
                 "theories/Codec/WalInst.vo", "theories/Lsm/CompactKey.vo"]
TRUSTED = T05 + [
    "blocking primitives are disabled transitions of the LTS: parking_lot::Mutex, tokio Semaphore/oneshot/Notify semantics "
    "(Notified receives notify_waiters from its creation; notify_one stores one permit) are taken from their documentation",
]
ASSUMPTIONS = [
    "PARTIAL by nature: fairness of the tokio scheduler and of OS threads, cancellation of the commit() future, and the time "
    "compactions take are outside the model; the L0 stall is environment (statements assume it never holds a writer)",
    "sequentially consistent memory; compare_exchange without spurious failures (termination)",
]

MIX = [("close", 1200), ("fail", 1200), ("mixed", 1200), ("c05", 400), ("dup", 300), ("shim", 160)]
EXPLORE_QUICK = ["slots=2,permits=1,mem=2,cnts=2/1,rdrs=0", "slots=3,permits=2,mem=2,cnts=1/1/1,rdrs=0",
                 "slots=2,permits=1,mem=2,cnts=1/1,rdrs=0,walfail=1,applyfail=1,close=1",
                 "slots=2,permits=1,mem=2,cnts=1/1,rdrs=0,rotate=1",
                 "slots=3,permits=2,mem=2,cnts=1/1/1,rdrs=0,walfail=1,maxstates=400000"]
EXPLORE_THOROUGH = EXPLORE_QUICK + ["slots=3,permits=2,mem=2,cnts=1/1/1,rdrs=0,walfail=1,maxstates=3000000",
                                    "slots=3,permits=2,mem=2,cnts=1/1,rdrs=0,rotate=1,close=1,maxstates=3000000",
                                    "slots=4,permits=3,mem=2,cnts=1/1/1,rdrs=0,maxstates=3000000"]


def lost_wakeup_schedule():
    """regression schedule of finding F44 (repaired): the flush task is delayed after its last
    has_pending_immutables() check (running flag still set) while the committers rotate"""
    th = ["c:%d.4.-/%d.4.-/%d.4.-" % (3 * i, 3 * i + 1, 3 * i + 2) for i in range(4)] + ["x:end"]
    sizes = {i: (4, "") for i in range(12)}
    return dict(params="seed=5,mode=rw,mem=1536,vlen=60,memlimit=2,l0max=4,l0limit=64,hold=F@task.mem.nopending,hang_ms=3000",
                threads="|".join(th), ncommit=12, nrdr=0, memlimit=2, l0limit=64, sizes=sizes, fail=None, kind="witness-lost-wakeup", idx=-2)


# classes of the two repaired findings (F43, F44): listed as `fixed` in known_findings.json, so an occurrence is a violation
CLASSES = {"queue_overflow_panic": "queue_overflow_failed_commits"}


def explore(ctx):
    pid = ctx["pid"]
    quick = ctx["tier"] == "quick"
    rng = C.Rng(ctx["seed"] * 104729 + 17)
    pp = E.pipe_params()
    scheds = E.plan(rng, quick, MIX)
    scheds += [E.witness_overflow(pp["permits"], pp["slots"]), lost_wakeup_schedule()]
    viol, dis, cov, obs = E.campaign(pid, ctx, scheds, "c17")
    kf = C.known_findings(pid)
    res = dict(violations=[], known=[], disagreements=dis, coverage=cov)
    seen_cls = set()
    for cls, d, text in viol:
        k = CLASSES.get(cls, cls)
        if k in kf:
            res["known"].append(k + " — " + kf[k])
            if k not in seen_cls:
                C.write_replay(pid, "known_%s.txt" % k, text)
                seen_cls.add(k)
        else:
            res["violations"].append(("%s: %s" % (k, d), text))
    # exhaustive exploration of small instances of the LTS (test of the statements)
    if ctx["have_model"]:
        ex = E.explore_model(EXPLORE_QUICK if quick else EXPLORE_THOROUGH)
        cov["model_exploration"] = [dict(instance=e["spec"], states=e.get("states"), truncated=e.get("truncated"),
                                         deadlock="none" if e.get("deadlock") == "-" else "FOUND",
                                         cycle_of_system_steps="none" if e.get("cycle") == "-" else "FOUND",
                                         safety="holds" if e.get("safe") == "-" else "FAILS",
                                         overflow="none" if e.get("overflow") == "-" else "FOUND") for e in ex]
        for e in ex:
            if e.get("safe", "-") != "-":
                res["disagreements"].append("LTS exploration: safety checker fails on %s: %s" % (e["spec"], e.get("safe", "")[:300]))
            if e.get("deadlock", "-") != "-":
                res["disagreements"].append("LTS exploration: deadlock on %s: %s" % (e["spec"], e.get("deadlock", "")[:300]))
            if e.get("cycle", "-") != "-":
                res["disagreements"].append("LTS exploration: cycle of system steps on %s: %s" % (e["spec"], e.get("cycle", "")[:300]))
            if e.get("overflow", "-") != "-":
                res["disagreements"].append("LTS exploration: more batches queued than permits on %s: %s" % (e["spec"], e.get("overflow", "")[:300]))
    # with the repaired wake-up protocol the scheduler must never run out of eligible actors
    if cov.get("forced", 0) and not any("hang" in v[0] for v in res["violations"]):
        res["disagreements"].append("the scheduler found no eligible actor in %d episode(s) (forced grants) although every run completed" % cov["forced"])
    cov["evaluations"] = cov.get("schedules", 0)
    cov["distinct_nontrivial"] = cov.get("traces_validated", 0)
    cov["rule"] = ("every commit() and close() returns (no hang by the no-progress detector and watchdog, no missing result), no panic; "
                   "every trace replayed through extracted Pipeline.pstep; directed witness schedules; exhaustive LTS exploration of small instances")
    cov["observations"] = {k: len(v) for k, v in obs.items()}
    return res
