"""Correspondence between recorded syscall traces and the protocol model Crash/Proto.v.

A trace recorded by shim/shim.c is abstracted into the event alphabet of Proto.v:

  rot:<s>            a new WAL segment file <s> appears
  par:<s>            bytes of an incomplete record are at the end of segment <s>
  app:<s>:<b>        the record of the NEW batch <b> is complete in segment <s>
  rel:<s>:<b>        an already logged batch is logged again in <s>
  syn:<s>            fsync of the segment       ttd:<s>   ftruncate (torn tail dropped) + fsync
  ack:<b>:<d>        marker "commit returned Ok" (d = Durability::Immediate)     acks  marker after flush_wal(true)
  tw:<id>:<cov> ts:<id>   table file <id> with its coverage (batch+ = all entries, batch- = some entries), fsynced
  mi:<log>:<ids>     manifest tmp written, fsynced and renamed over the manifest
  wu:<s> tu:<id>     unlink of a segment / of a table file

Batches are numbered in the order of their first WAL record (= commit order of the sequential
workloads); a WAL record is identified by the starting sequence number in its batch header.  The
coverage of a table comes from a dump of its entries by the real table reader (harness command
`cp tabdump`); a compaction output covers what its inputs covered (entries it dropped were
superseded), a compaction with an empty output leaves a "ghost" table carrying the coverage.

Checks:  (1) the extracted `proto_okb` accepts the abstracted trace (a rejection names the event
and the obligation);  (2) the python reader of WAL files agrees with the real reader on every
segment;  (3) for every crash image the crash engine reopened, the model's `recover` of the
corresponding abstract crash state predicts the set of batches the real store recovered."""
import os, re, shutil, struct, zlib
from . import common as C
from . import crash as K

BLOCK = 32768
HDR = 7
OBLIGATION = {
    1: "P1 (Ack of a batch that was never logged)", 14: "P1 (Ack of a batch that an earlier power loss destroyed)",
    15: "P1 (durable Ack of a batch whose record is not fsynced)", 16: "P1 (flush_wal(true) returned but an acknowledged batch is not fsynced)",
    2: "P2 (ManifestInstall: a live batch is neither completely in the tables nor in a segment >= log_number)",
    21: "P2 (ManifestInstall: a power-durable batch stops being power-durable)",
    3: "P3 (WalUnlink of a segment >= log_number)", 4: "P4 (TableUnlink of a table of the manifest)",
    5: "P5 (append to a segment that is missing / not the highest / below log_number / has a torn tail)",
    51: "WalRotate: the new segment is not above every existing one", 52: "TornTailDrop while a record is being written",
    61: "WalRotate: an older segment >= log_number is not completely fsynced",
    7: "P7 (ManifestInstall names a table that is missing, unreadable or not fsynced)",
    8: "P8 (ManifestInstall: a table holds a part of a batch that is not power-durable as a whole)",
    9: "P9 (ManifestInstall: power-durable batches are not a prefix of the commit order)",
    10: "P10 (ManifestInstall: a table covers an unknown or destroyed batch)",
    11: "WalAppend: batch number out of order", 12: "Relog of an unknown batch", 13: "Relog of a batch that is not power-durable",
    20: "ManifestInstall moves log_number down", 72: "TableWrite of a table of the manifest",
    73: "TableSync of a table of the manifest",
}


def varint(b, pos):
    x = 0
    sh = 0
    while pos < len(b):
        c = b[pos]
        pos += 1
        x |= (c & 0x7f) << sh
        if c < 0x80:
            return x, pos
        sh += 7
    return None, pos


def wal_parse(data):
    """python transcription of the WAL reader: returns ([(starting seq, count, end offset)], end of the last
    complete record, damaged?) — damaged = a checksum/type error was met (the real reader reports corruption)"""
    recs = []
    pos = 0
    last = 0
    acc = None
    n = len(data)
    while True:
        left = BLOCK - (pos % BLOCK)
        if left < HDR:
            if pos + left > n:
                return recs, last, False
            pos += left
            continue
        if pos + HDR > n:
            return recs, last, False
        crc, ln, ty = struct.unpack(">IHB", data[pos:pos + HDR])
        if pos + HDR + ln > n:
            return recs, last, False
        body = data[pos + HDR:pos + HDR + ln]
        if ty == 0 and ln == 0 and crc == 0:
            return recs, last, False
        if zlib.crc32(bytes([ty]) + body) & 0xffffffff != crc or ty not in (1, 2, 3, 4):
            return recs, last, True
        pos += HDR + ln
        if ty == 1:
            acc = body
            done = True
        elif ty == 2:
            acc = body
            done = False
        elif ty == 3:
            if acc is None:
                return recs, last, True
            acc += body
            done = False
        else:
            if acc is None:
                return recs, last, True
            acc += body
            done = True
        if done:
            seq = cnt = None
            if acc and acc[0] == 1:
                seq, p = varint(acc, 1)
                cnt, p = varint(acc, p) if seq is not None else (None, p)
            recs.append((seq or 0, cnt or 0, pos))
            last = pos
            acc = None


def manifest_decode(b):
    ver, next_id, log, last_seq = struct.unpack(">HQQQ", b[:26])
    pos = 26
    nlev = b[pos]
    pos += 1
    ids = []
    for _ in range(nlev):
        (n,) = struct.unpack(">I", b[pos:pos + 4])
        pos += 4
        for _ in range(n):
            ids.append(struct.unpack(">Q", b[pos:pos + 8])[0])
            pos += 8
    return log, ids, last_seq


class Abstraction:
    """one pass over an operation log; `events` = list of (log line index, token);
    `problems` = abstraction failures (the trace cannot be judged against the model)"""
    GHOST = 1000000

    def __init__(self, log, root, workdir, sim=None, init=None):
        self.log, self.root, self.workdir = log, root, workdir
        self.sim = sim or K.FsSim(root)
        self.events = []
        self.problems = []
        self.unmodelled = []                          # the trace leaves the modelled (sequential) protocol
        init = init or {}
        self.batch_of_seq = dict(init.get("batch_of_seq", {}))   # starting seq -> batch id (live batches)
        self.batch_range = dict(init.get("batch_range", {}))     # batch id -> (start, count)
        self.dead_ids = set(init.get("dead", ()))                 # batches an earlier power loss destroyed
        self.next_batch = init.get("next_batch", 0)
        self.seg_state = {}                           # seg id -> dict(nrec, partial)
        self.table_cov = dict(init.get("table_cov", {}))          # table id -> {batch: full?}
        self.table_seqs = dict(init.get("table_seqs", {}))        # table id -> set of seqs physically present
        self.man_tables = list(init.get("man_tables", []))        # model manifest table list (incl. ghosts)
        self.real_tables = [x for x in self.man_tables if x < self.GHOST]
        self.ghosts = init.get("ghosts", 0)
        self.first_batch = self.next_batch                        # batches below were logged by earlier sessions
        self.init_tables = set(self.table_cov)
        self.cov_at = []
        for path, f in self.sim.files.items():                    # segments that exist already (later generation)
            s = self.seg_of(path)
            if s is not None:
                recs, last, _ = wal_parse(bytes(f.data))
                self.seg_state[s] = dict(nrec=len(recs), partial=len(f.data) > last)
        self.pending_dumps = []                       # (table id, path of the copy)
        self.installs = []                            # deferred: (event position, line idx, log, ids)
        self.acks = 0
        self.wal_final = {}                           # (seg, incarnation) -> bytes  for the reader cross-check
        self.incarn = {}
        self.stats = dict(events=0)

    # -- path classification
    def seg_of(self, path):
        m = re.fullmatch(re.escape(self.root) + r"/wal/(\d{20})\.wal", path)
        return int(m.group(1)) if m else None

    def tab_of(self, path):
        m = re.fullmatch(re.escape(self.root) + r"/sstables/(\d{20})\.sst", path)
        return int(m.group(1)) if m else None

    def emit(self, i, tok):
        self.events.append((i, tok))

    def wal_changed(self, i, s, f):
        """segment s changed content: emit par/app/rel for what became complete"""
        st = self.seg_state.setdefault(s, dict(nrec=0, partial=False))
        recs, last, damaged = wal_parse(bytes(f.data))
        if damaged:
            self.problems.append("line %d: segment %d does not parse (damaged record)" % (i, s))
        if len(recs) < st["nrec"]:
            self.problems.append("line %d: segment %d lost complete records (%d -> %d)" % (i, s, st["nrec"], len(recs)))
            st["nrec"] = len(recs)
        new = recs[st["nrec"]:]
        if not new and len(f.data) > last and not st["partial"]:
            self.emit(i, "par:%d" % s)
            st["partial"] = True
        for (seq, cnt, end) in new:
            if seq in self.batch_of_seq and self.batch_range.get(self.batch_of_seq[seq], (seq, cnt))[1] == cnt:
                self.emit(i, "rel:%d:%d" % (s, self.batch_of_seq[seq]))
            else:
                b = self.next_batch
                self.next_batch += 1
                self.batch_of_seq[seq] = b
                self.batch_range[b] = (seq, cnt)
                self.emit(i, "app:%d:%d" % (s, b))
            st["partial"] = False
        st["nrec"] = len(recs)
        if new and len(f.data) > last:
            self.emit(i, "par:%d" % s)
            st["partial"] = True
        self.wal_final[(s, self.incarn.get(s, 0))] = bytes(f.data)

    def run(self):
        sim = self.sim
        truncated = set()
        for i, line in enumerate(self.log):
            t = line[0]
            if t == "M":
                tk = line[2:].split()
                if tk and tk[0] == "ack":
                    self.acks += 1
                    self.emit(i, "ack:%d:%s" % (self.next_batch - 1, tk[2]))
                elif tk and tk[0] == "synced":
                    self.emit(i, "acks")
                continue
            if t == "O":
                _, fd, flags, path = line.split(" ", 3)
                existed = path in sim.files
                held = existed and any(g is sim.files[path] for g in sim.fds.values())
                sim.step(line)
                s = self.seg_of(path)
                if s is not None and not existed and "c" in flags:
                    self.incarn[s] = self.incarn.get(s, 0) + 1
                    self.seg_state[s] = dict(nrec=0, partial=False)
                    self.emit(i, "rot:%d" % s)
                if "/repair_temp" in path and not any("WAL repair" in u for u in self.unmodelled):
                    self.unmodelled.append("line %d: WAL repair ran (segment rewritten through repair_temp; not modelled)" % i)
                if s is not None and "t" in flags and existed:
                    self.problems.append("line %d: WAL segment opened with O_TRUNC" % i)
                tid = self.tab_of(path)
                if tid is not None and existed and "t" in flags:
                    if held:
                        # the same table file is created a second time while its first writer still has it open: two
                        # flushers of one immutable memtable — concurrency is outside the sequential protocol
                        self.unmodelled.append("line %d: table file %d created twice (concurrent flush of the same memtable)" % (i, tid))
                    elif tid in self.real_tables:
                        self.problems.append("line %d: table file %d of the manifest is recreated" % (i, tid))
                    # otherwise: an orphan left by a crashed flush is overwritten under the same id (never announced)
                continue
            if t in ("W", "T"):
                fd = int(line.split()[1])
                f = sim.fds.get(fd)
                sim.step(line)
                if f is None:
                    continue
                path = next((p for p, g in sim.files.items() if g is f), None)
                if path is None:
                    continue
                s = self.seg_of(path)
                if s is not None:
                    if t == "T":
                        truncated.add(s)
                        st = self.seg_state.setdefault(s, dict(nrec=0, partial=False))
                        recs, last, _ = wal_parse(bytes(f.data))
                        if len(recs) != st["nrec"]:
                            self.problems.append("line %d: ftruncate of segment %d changed its complete records" % (i, s))
                        st["partial"] = len(f.data) > last
                        self.wal_final[(s, self.incarn.get(s, 0))] = bytes(f.data)
                    else:
                        self.wal_changed(i, s, f)
                continue
            if t == "S":
                fd = int(line.split()[1])
                f = sim.fds.get(fd)
                sim.step(line)
                if f is None:
                    continue
                path = next((p for p, g in sim.files.items() if g is f), None)
                s = self.seg_of(path) if path else None
                if s is not None:
                    if s in truncated:
                        truncated.discard(s)
                        self.emit(i, "ttd:%d" % s)
                    else:
                        self.emit(i, "syn:%d" % s)
                continue
            if t == "R":
                _, a, b = line.rstrip("\n").split(" ", 2)
                src = sim.files.get(a)
                if b.endswith(".manifest") and src is not None:
                    if src.pending:
                        self.problems.append("line %d: manifest tmp file renamed before it was fsynced" % i)
                    log_no, ids, _ = manifest_decode(bytes(src.data))
                    self.install(i, log_no, ids)
                elif self.seg_of(b) is not None or self.seg_of(a) is not None:
                    if not any("WAL repair" in u for u in self.unmodelled):
                        self.unmodelled.append("line %d: WAL repair ran (rename over a segment; not modelled)" % i)
                elif self.tab_of(b) is not None or self.tab_of(a) is not None:
                    self.problems.append("line %d: rename involving a table file" % i)
                sim.step(line)
                continue
            if t == "U":
                path = line[2:].rstrip("\n")
                s, tid = self.seg_of(path), self.tab_of(path)
                sim.step(line)
                if s is not None:
                    self.emit(i, "wu:%d" % s)
                    self.seg_state.pop(s, None)
                elif tid is not None:
                    self.emit(i, "tu:%d" % tid)
                continue
            sim.step(line)
        self.resolve()
        return self

    def install(self, i, log_no, ids):
        """manifest switch: announce the tables that are new, keep a copy of their content for the dump"""
        new = [x for x in ids if x not in self.real_tables]
        gone = [x for x in self.real_tables if x not in ids]
        item = dict(pos=len(self.events), line=i, log=log_no, ids=list(ids), new=[], gone=gone)
        for tid in new:
            path = "%s/sstables/%020d.sst" % (self.root, tid)
            f = self.sim.files.get(path)
            cp = None
            if f is not None:
                cp = os.path.join(self.workdir, "tab_%d_%d.sst" % (tid, i))
                with open(cp, "wb") as out:
                    out.write(bytes(f.data))
            item["new"].append((tid, cp, f is not None and f.synced == bytes(f.data), f is not None))
        self.installs.append(item)
        self.real_tables = list(ids)

    def resolve(self):
        """dump the announced tables with the real reader, compute coverages, splice tw/ts/mi events in"""
        cmds, keys = [], []
        for it in self.installs:
            for (tid, cp, synced, exists) in it["new"]:
                if cp:
                    cmds.append("cp tabdump %s %d" % (cp, tid))
                    keys.append((tid, it["line"]))
        # cross-check of the python WAL reader against the real one
        wkeys = []
        for (s, inc), data in self.wal_final.items():
            p = os.path.join(self.workdir, "wal_%d_%d.wal" % (s, inc))
            with open(p, "wb") as out:
                out.write(data)
            cmds.append("cp walrecs %s" % p)
            wkeys.append((s, inc, data))
        ans = C.run_pairs([cmds], sides=("impl",))[0]["impl"][0] if cmds else []
        dumps = {}
        for k, a in zip(keys, ans[:len(keys)]):
            dumps[k] = a
        for (s, inc, data), a in zip(wkeys, ans[len(keys):]):
            mine, last, damaged = wal_parse(data)
            m = re.fullmatch(r"recs:([^;]*);tail=(.*)", a or "")
            theirs = [tuple(int(x) for x in r.split(":")) for r in m.group(1).split(",") if r] if m else None
            if theirs != mine or (m and (m.group(2) != "eof") != damaged):
                self.problems.append("WAL reader cross-check failed on segment %d: python %s / real %s" % (s, mine[:6], (a or "")[:120]))
        self.stats["wal_files_crosschecked"] = len(wkeys)
        seq_batch = {}
        for b, (st, cnt) in self.batch_range.items():
            if b in self.dead_ids:
                continue
            for q in range(st, st + cnt):
                seq_batch[q] = b
        out = []
        pos = 0
        model_tabs = list(self.man_tables)
        self.cov_at = []                              # (event position, table id) in announcement order
        for it in self.installs:
            out += self.events[pos:it["pos"]]
            pos = it["pos"]
            i = it["line"]
            union, useq = {}, set()
            for g in it["gone"]:
                for b, full in self.table_cov.get(g, {}).items():
                    union[b] = union.get(b, False) or full
                useq |= self.table_seqs.get(g, set())
            for (tid, cp, synced, exists) in it["new"]:
                if not exists:
                    self.problems.append("line %d: manifest names table %d which does not exist" % (i, tid))
                    cov, seqs = {}, set()
                else:
                    a = dumps.get((tid, i), "")
                    if not a.startswith("entries:"):
                        self.problems.append("line %d: table %d cannot be read by the table reader: %s" % (i, tid, a[:100]))
                        seqs = set()
                    else:
                        seqs = {int(e.split(":")[1]) for e in a[8:].split(",") if e}
                    cov = {}
                    if it["gone"]:
                        # compaction output: logical coverage of the inputs; its entries must come from them
                        if not seqs <= useq:
                            self.problems.append("line %d: compaction output %d holds entries that no input held" % (i, tid))
                        cov = dict(union)
                    else:
                        cnt = {}
                        for q in seqs:
                            if q not in seq_batch:
                                self.problems.append("line %d: table %d holds sequence number %d of no logged batch" % (i, tid, q))
                            else:
                                cnt[seq_batch[q]] = cnt.get(seq_batch[q], 0) + 1
                        cov = {b: (c == self.batch_range[b][1]) for b, c in cnt.items()}
                self.table_cov[tid] = cov
                self.table_seqs[tid] = seqs
                self.cov_at.append((len(out), tid))
                out.append((i, "tw:%d:%s" % (tid, ",".join("%d%s" % (b, "+" if f else "-") for b, f in sorted(cov.items())))))
                if synced:
                    out.append((i, "ts:%d" % tid))
            if it["gone"] and not it["new"] and union:
                self.ghosts += 1
                gid = self.GHOST + self.ghosts
                self.table_cov[gid] = dict(union)
                self.cov_at.append((len(out), gid))
                out.append((i, "tw:%d:%s" % (gid, ",".join("%d%s" % (b, "+" if f else "-") for b, f in sorted(union.items())))))
                out.append((i, "ts:%d" % gid))
                model_tabs.append(gid)
            model_tabs = [x for x in model_tabs if x >= self.GHOST or x in it["ids"]]
            model_tabs += [x for x in it["ids"] if x not in model_tabs]
            out.append((i, "mi:%d:%s" % (it["log"], ",".join(str(x) for x in model_tabs))))
        out += self.events[pos:]
        self.events = out
        self.man_tables = model_tabs
        self.stats["events"] = len(out)


def power_choice(sim_files, root, policy):
    """the abstract power-loss choice realised by FsSim's `policy` image: records kept per segment,
    segments left with garbage, unsynced tables left intact"""
    keep, garb, tkeep = [], [], []
    for p, f in sim_files.items():
        m = re.fullmatch(re.escape(root) + r"/wal/(\d{20})\.wal", p)
        if m:
            img = f.power_image(policy)
            recs, last, damaged = wal_parse(img)
            keep.append("%d=%d" % (int(m.group(1)), len(recs)))
            if len(img) > last:
                garb.append(str(int(m.group(1))))
            continue
        m = re.fullmatch(re.escape(root) + r"/sstables/(\d{20})\.sst", p)
        if m and f.pending and f.power_image(policy) == bytes(f.data):
            tkeep.append(str(int(m.group(1))))
    return "cw:%s:%s:%s" % (",".join(keep), ",".join(garb), ",".join(tkeep))


def snapshot_init(ab, ncut, dead):
    """the abstraction state after the first ncut events of `ab` and a crash that destroyed the batches `dead`"""
    toks = [tk for _, tk in ab.events[:ncut]]
    nb = ab.first_batch + sum(1 for tk in toks if tk.startswith("app:"))
    man = []
    for tk in toks:
        if tk.startswith("mi:"):
            man = [int(x) for x in tk.split(":")[2].split(",") if x]
    known = {tid for (pos, tid) in ab.cov_at if pos < ncut} | set(ab.init_tables)
    dead = set(dead) | set(ab.dead_ids)
    return dict(
        batch_of_seq={q: b for q, b in ab.batch_of_seq.items() if b < nb and b not in dead},
        batch_range={b: r for b, r in ab.batch_range.items() if b < nb},
        dead=dead, next_batch=nb,
        table_cov={tid: c for tid, c in ab.table_cov.items() if tid in known},
        table_seqs={tid: c for tid, c in ab.table_seqs.items() if tid in known},
        man_tables=man, ghosts=ab.ghosts)


def preload(sim_files, sim_dirs, root_old, root_new, pol):
    """a simulator whose initial content is the crash image (policy pol) of another simulator's files: after a
    process crash the fsynced part of each file is what it was; after a power loss everything left is on disk"""
    sim = K.FsSim(root_new)
    for d in sim_dirs:
        if d.startswith(root_old):
            sim.dirs.add(root_new + d[len(root_old):])
    for p, f in sim_files.items():
        if not p.startswith(root_old):
            continue
        g = K.FileObj()
        data = bytes(f.data) if pol == "proc" else f.power_image(pol)
        g.data = bytearray(data)
        if pol == "proc":
            g.synced = bytes(f.synced)
            if data[:len(g.synced)] == g.synced:
                g.pending = [("w", len(g.synced), data[len(g.synced):])] if len(data) > len(g.synced) else []
            else:
                g.pending = [("t", 0), ("w", 0, data)]
        else:
            g.synced = data
        sim.files[root_new + p[len(root_old):]] = g
    return sim


G2_SCRIPTS = [
    ["begin 1 rw", "set 1 6e657701 a001", "commit 1", "begin 2 rw", "set 2 6e657702 a002", "commitsync 2", "begin 3 rw", "set 3 6e657703 a003", "commit 3"],
    ["begin 1 rw", "set 1 6e657701 a001", "set 1 6e657704 rep:600:7", "commit 1", "flushwal 1", "begin 2 rw", "set 2 6e657702 rep:900:9", "commit 2", "rotate",
     "begin 3 rw", "set 3 6e657703 a003", "commit 3", "flush"],
]


def second_generation(ab, log, root, commits, opts, picks, workdir, label, res, script1=None):
    """picks: [(cut line index, policy, sim snapshot (files, dirs), crash token, model answer at the cut)].
    The store is opened on the image under the recorder, a few commits follow, the process is killed; the events
    of that session (recovery's own file operations first) must continue the accepted trace, and the model must
    predict what a further crash of the second session leaves."""
    import copy
    for k, (ci, pol, files, dirs, ctok, ncut, answer) in enumerate(picks):
        m = re.match(r"full=([\d,]*);part=([\d,]*);next=(\d+);dead=([\d,]*)", answer)
        if not m or m.group(2):
            continue
        full1 = [int(x) for x in m.group(1).split(",") if x]
        dead = [int(x) for x in m.group(4).split(",") if x]
        wd = os.path.join(workdir, "g2_%d" % k)
        root2 = os.path.join(wd, "root")
        if os.path.exists(wd):
            shutil.rmtree(wd)
        os.makedirs(root2 + "/db")
        sim1 = K.FsSim(root)
        sim1.files, sim1.dirs = files, dirs
        sim1.materialise(root2 + "/db", pol)
        script = ["e2 newat %s/db" % root2, "e2 open %s" % opts] + ["e2 " + l for l in G2_SCRIPTS[k % len(G2_SCRIPTS)]] + ["e2 abort"]
        out2, log2 = K.trace(script, root2)
        res["stats"]["gen2_sessions"] = res["stats"].get("gen2_sessions", 0) + 1
        if len(out2) < 2 or out2[1] != "ok":
            continue          # the image does not open: reported by the crash engine
        sim2 = preload(files, dirs, root, root2 + "/db", pol)
        ab2 = Abstraction(log2, root2 + "/db", os.path.join(wd, "abs"), sim=sim2, init=snapshot_init(ab, ncut, dead))
        os.makedirs(os.path.join(wd, "abs"), exist_ok=True)
        ab2.run()
        if ab2.unmodelled:
            res["stats"]["unjudged"] += 1
            res.setdefault("unmodelled", []).append("%ssecond session on the image after line %d (%s): %s" % (label, ci, pol, ab2.unmodelled[0]))
            continue
        if ab2.problems:
            res["disagreements"].append("%ssecond session on the image after line %d (%s): abstraction: %s" % (label, ci, pol, ab2.problems[0]))
            continue
        ci_lines = [i for i, l in enumerate(script) if l.split()[1] in ("commit", "commitsync")]
        ok2 = [(out2[i] == "ok") if i < len(out2) else False for i in ci_lines]
        newc = []
        cur = []
        for l in script:
            tk = l.split()
            if tk[1] == "set":
                cur.append(("set", tk[3], tk[4]))
            elif tk[1] in ("commit", "commitsync"):
                newc.append(cur)
                cur = []
        newc = [c for c, okf in zip(newc, ok2) if okf]
        commits2 = commits[:len(full1)] + newc
        toks = [tk for _, tk in ab.events[:ncut]] + [ctok] + [tk for _, tk in ab2.events]
        base = ncut + 1
        # crashes of the second session: after every event-producing line (sampled), process crash and power loss "none"
        lines2 = sorted({i for i, _ in ab2.events})
        if len(lines2) > 8:
            lines2 = sorted(set(lines2[:3] + lines2[-3:] + lines2[3:-3:max(1, (len(lines2) - 6) // 2)]))
        simq = preload(files, dirs, root, root2 + "/db", pol)
        evidx = [i for i, _ in ab2.events]
        import bisect
        queries, imgs = [], []
        for i, line in enumerate(log2):
            if not line.startswith("M "):
                simq.step(line)
            if i in lines2:
                for pol2 in ("proc", "none"):
                    if pol2 != "proc" and not simq.has_pending():
                        continue
                    d = os.path.join(wd, "img_%d_%s" % (i, pol2))
                    os.makedirs(d)
                    simq.materialise(d, pol2)
                    n2 = base + bisect.bisect_right(evidx, i)
                    queries.append("%d/%s" % (n2, "cp" if pol2 == "proc" else power_choice(simq.files, root2 + "/db", pol2)))
                    imgs.append((d, i, pol2))
        line = "cp predict " + " ".join(toks) + " ? " + " ".join(queries)
        outm = C.run_pairs([[line]], sides=("model",))[0]["model"][0]
        parts = [x.strip() for x in (outm[0] if outm else "").split("|")]
        verdict = parts[0] if parts else "no-answer"
        res["stats"]["gen2_events"] = res["stats"].get("gen2_events", 0) + len(ab2.events)
        for _, tk in ab2.events:
            kk = "g2:" + tk.split(":")[0]
            res["stats"]["kinds"][kk] = res["stats"]["kinds"].get(kk, 0) + 1
        cls = None
        sess = "first session: %s ; crash after its log line %d (%s) ; second session: %s" % (
            " ; ".join(l[3:] for l in (script1 or [])[1:]), ci, "process crash" if pol == "proc" else "power loss/" + pol, " ; ".join(l[3:] for l in script[1:]))
        if verdict != "ok":
            mm = re.fullmatch(r"rej:(\d+):(\d+)", verdict)
            if mm:
                kx, code = int(mm.group(1)), int(mm.group(2))
                desc = "%ssecond session on the image after line %d (%s): proto_okb rejects event %d `%s`: obligation %s; events of the session: %s" % (
                    label, ci, pol, kx, toks[kx], OBLIGATION.get(code, code), " ".join(toks[base - 1:kx + 1][-30:]))
                # a manifest switch of the RECOVERY phase (before the session's first commit) that breaks P8 is finding
                # F33; one that breaks P2 (either form) by moving log_number past a split segment is finding F34
                in_recovery = toks[kx].startswith("mi:") and not any(tk.startswith("app:") for tk in toks[base:kx])
                cls = {8: "recovery_piece_part_of_txn_wal_unsynced", 2: "recovery_nonlast_split_marked_flushed",
                       21: "recovery_nonlast_split_marked_flushed"}.get(code) if in_recovery else None
                if cls:
                    res.setdefault("findings", []).append((cls, desc, "# " + desc + "\n# " + sess + "\n"))
                else:
                    res["disagreements"].append(desc)
            else:
                res["disagreements"].append("%ssecond session: model side gave no verdict: %s" % (label, verdict[:200]))
            res["stats"]["rejected"] += 1
        answers2 = K.scan_images([d for d, _, _ in imgs], opts)
        alive_ids = None
        for (d, i2, pol2), ans, pr in zip(imgs, answers2, parts[1:]):
            res["stats"]["predictions"] += 1
            mm = re.match(r"full=([\d,]*);part=([\d,]*);next=(\d+);dead=([\d,]*)", pr)
            if ans is not None and len(ans) > 3 and ans[1] == "ok" and "VLog" in ans[3] and pol2 != "proc":
                desc = "%ssecond session (image after line %d, %s), power loss after its line %d: reads fail: %s" % (label, ci, pol, i2, ans[3][:160])
                res.setdefault("findings", []).append(("vlog_rotated_file_not_fsynced", desc, "# " + desc + "\n# " + sess + "\n"))
                continue
            if ans is None or len(ans) < 4 or ans[1] != "ok" or not ans[3].startswith("list:"):
                if mm:
                    res["disagreements"].append("%ssecond session (image after line %d, %s), crash after its line %d (%s): the store does not open (%s), the model predicts %s" % (
                        label, ci, pol, i2, pol2, ((ans[1] if ans[1] != "ok" else ans[3][:200]) if ans and len(ans) > 3 else ans), pr[:80]))
                continue
            real = [n for n in range(len(commits2) + 1) if K.state_after(commits2, n) == ans[3]]
            if not mm:
                res["disagreements"].append("%ssecond session: the model predicts that the open fails (%s), the store opened" % (label, pr[:60]))
                continue
            full = [int(x) for x in mm.group(1).split(",") if x]
            part = [int(x) for x in mm.group(2).split(",") if x]
            res["stats"]["predictions_checked"] += 1
            if not real:
                desc = "%ssecond session (image after line %d, %s), crash after its line %d (%s): the store recovered %s, which is the state after no prefix of the commit order; model: full=%s part=%s" % (
                    label, ci, pol, i2, pol2, ans[3][:200], full, part)
                if cls:
                    res.setdefault("findings", []).append((cls, desc, "# " + desc + "\n# " + sess + "\n"))
                else:
                    res["disagreements"].append(desc)
            elif part or len(full) not in real:
                desc = "%ssecond session (image after line %d, %s), crash after its line %d (%s): the model predicts %d recovered batches (partial %s), the store recovered the state after %s commits" % (
                    label, ci, pol, i2, pol2, len(full), part, real)
                if cls and part and len(full) in real:
                    # the part of the batch that is recovered does not change the visible state here
                    res.setdefault("findings", []).append((cls, desc, "# " + desc + "\n# " + sess + "\n"))
                else:
                    res["disagreements"].append(desc)
        shutil.rmtree(wd, ignore_errors=True)


def check_trace(log, root, commits, cut_images, answers, workdir, label="", opts=None, gen2=0, rng=None, script1=None):
    """log: the operation log; cut_images: [(dir, cut line index, policy)]; answers: the reopen answers.
    Returns dict(disagreements=[...], stats={...})"""
    os.makedirs(workdir, exist_ok=True)
    ab = Abstraction(log, root, workdir).run()
    res = dict(disagreements=[], stats=dict(events=len(ab.events), predictions=0, predictions_checked=0, rejected=0, unjudged=0,
                                            kinds={}))
    for _, tok in ab.events:
        k = tok.split(":")[0]
        res["stats"]["kinds"][k] = res["stats"]["kinds"].get(k, 0) + 1
    if ab.unmodelled:
        res["stats"]["unjudged"] = 1
        res["unmodelled"] = ["%s%s" % (label, u) for u in ab.unmodelled[:3]]
        return res
    if ab.problems:
        res["disagreements"] += ["%sabstraction: %s" % (label, p) for p in ab.problems[:5]]
        res["stats"]["unjudged"] = 1
        return res
    if ab.next_batch != len(commits) or ab.acks != len(commits):
        res["disagreements"].append("%sabstraction: %d batches logged, %d acknowledged, %d commits succeeded in the script" % (
            label, ab.next_batch, ab.acks, len(commits)))
        return res
    # queries: model state at the cut + the crash the image realises
    want = {}
    for (d, ci, pol) in cut_images:
        want.setdefault(ci, []).append(pol)
    sim = K.FsSim(root)
    queries = []
    evidx = [i for i, _ in ab.events]
    import bisect, copy
    # cuts for traced second sessions: where a commit's record is in the WAL and the memtable turned out to be
    # full (the rotation follows), and a few random ones
    g2 = {}
    if gen2 and opts:
        evs = ab.events
        hot = [evs[j][0] for j in range(len(evs) - 2) if evs[j][1].startswith("app:") and
               (evs[j + 1][1].startswith("rot:") or (evs[j + 1][1].startswith("syn:") and evs[j + 2][1].startswith("rot:")))]
        rnd = rng or C.Rng(len(log))
        cand = [(i, "proc") for i in hot] + [(i, "none") for i in hot[:1]]
        rnd.shuffle(cand)
        cand = cand[:max(1, gen2 * 2 // 3)]
        lines_ev = sorted({i for i, _ in evs})
        while len(cand) < gen2 and lines_ev:
            cand.append((rnd.choice(lines_ev), rnd.choice(["proc", "none", "half"])))
        for (i, pol) in cand:
            g2.setdefault(i, []).append(pol)
    g2snap = []
    for i, line in enumerate(log):
        if not line.startswith("M "):
            sim.step(line)
        for pol in want.get(i, []):
            ncut = bisect.bisect_right(evidx, i)
            ctok = "cp" if pol == "proc" else power_choice(sim.files, root, pol)
            queries.append(((i, pol), "%d/%s" % (ncut, ctok)))
        for pol in g2.get(i, []):
            ncut = bisect.bisect_right(evidx, i)
            ctok = "cp" if pol == "proc" else power_choice(sim.files, root, pol)
            files = {}
            for pth, f in sim.files.items():
                g = K.FileObj()
                g.data, g.synced, g.pending = bytearray(f.data), bytes(f.synced), list(f.pending)
                files[pth] = g
            queries.append((("g2", len(g2snap)), "%d/%s" % (ncut, ctok)))
            g2snap.append((i, pol, files, set(sim.dirs), ctok, ncut))
    toks = [t for _, t in ab.events]
    line = "cp predict " + " ".join(toks) + " ? " + " ".join(q for _, q in queries)
    out = C.run_pairs([[line]], sides=("model",))[0]["model"][0]
    parts = [x.strip() for x in (out[0] if out else "").split("|")]
    verdict = parts[0] if parts else "no-answer"
    if verdict != "ok":
        m = re.fullmatch(r"rej:(\d+):(\d+)", verdict)
        # finding F51: the background flush of the memtable that `apply` just rotated switches the manifest before
        # `relog_if_rotated` has logged the batch in the new segment (the rejected install is followed by that relog)
        if m and int(m.group(2)) == 2 and toks[int(m.group(1))].startswith("mi:"):
            k = int(m.group(1))
            last_app = [tk for tk in toks[:k] if tk.startswith("app:")]
            nxt = [tk for tk in toks[k + 1:k + 6] if tk.startswith("rel:")]
            if last_app and nxt and nxt[0].split(":")[2] == last_app[-1].split(":")[2]:
                li = ab.events[k][0]
                desc = "%sproto_okb rejects event %d `%s` (log line %d): obligation %s; the batch is logged again only afterwards: %s" % (
                    label, k, toks[k], li, OBLIGATION[2], " ".join(toks[max(0, k - 8):k + 6]))
                res.setdefault("findings", []).append(("flush_before_relog_window", desc, "# " + desc + "\n# workload: " + " ; ".join(l[3:] for l in (script1 or [])[1:]) + "\n"))
                res["stats"]["rejected"] = 1
                m = None
                verdict = "classified"
        if m:
            k, code = int(m.group(1)), int(m.group(2))
            li = ab.events[k][0]
            res["disagreements"].append("%sproto_okb rejects event %d `%s` (log line %d: %s): obligation %s; preceding events: %s" % (
                label, k, toks[k], li, log[li][:70], OBLIGATION.get(code, code), " ".join(toks[max(0, k - 12):k])))
        elif verdict != "classified":
            res["disagreements"].append("%smodel side gave no verdict: %s" % (label, verdict[:200]))
        res["stats"]["rejected"] = 1
    pred = {q[0]: p for q, p in zip(queries, parts[1:])}
    if g2snap and verdict == "ok":
        picks = [snap + (pred.get(("g2", k), ""),) for k, snap in enumerate(g2snap)]
        second_generation(ab, log, root, commits, opts, picks, workdir, label, res, script1=script1)
    for (d, ci, pol), ans in zip(cut_images, answers):
        p = pred.get((ci, pol))
        if p is None:
            continue
        res["stats"]["predictions"] += 1
        if ans is None or len(ans) < 4 or ans[1] != "ok" or not ans[3].startswith("list:"):
            real = None
        else:
            real = [n for n in range(len(commits) + 1) if K.state_after(commits, n) == ans[3]]
        m = re.match(r"full=([\d,]*);part=([\d,]*);", p)
        if p.startswith("fail"):
            if real is not None:
                res["disagreements"].append("%scut after line %d (%s): the model predicts that the open fails, the store opened" % (label, ci, pol))
            continue
        if not m:
            res["disagreements"].append("%sbad prediction %s" % (label, p[:100]))
            continue
        full = [int(x) for x in m.group(1).split(",") if x]
        part = [int(x) for x in m.group(2).split(",") if x]
        if real is None or not real:
            continue      # open failed or not a prefix state: reported by the crash engine itself
        res["stats"]["predictions_checked"] += 1
        if full != list(range(len(full))) or part or len(full) not in real:
            res["disagreements"].append("%scut after line %d (%s): the model predicts recovered batches %s (partial %s), the store recovered the state after %s commits" % (
                label, ci, pol, full, part, real))
    return res


def fuzz(ctx):
    """randomised validation of the theorem statements on the extracted model: random walks over accepted
    events (rejection sampling with `okb`), both theorems evaluated at every state for four crashes"""
    walks = 300 if ctx["tier"] == "quick" else 3000
    out = C.run_pairs([["cp fuzz %d 200 %d" % (ctx["seed"] * 100 + k, walks // 4)] for k in range(4)], sides=("model",))
    lines = [(r["model"][0] or ["no-answer"])[0] for r in out]
    bad = [l for l in lines if not l.startswith("ok ")]
    acc = sum(int(re.search(r"accepted=(\d+)", l).group(1)) for l in lines if l.startswith("ok "))
    chk = sum(int(re.search(r"checks=(\d+)", l).group(1)) for l in lines if l.startswith("ok "))
    return dict(accepted_events=acc, crash_checks=chk, counterexamples=bad[:2])


def merge(res, ctx, pid):
    """fold the protocol-model evidence gathered by crashwl.explore(proto=...) into the result of a property"""
    cov = res["coverage"]
    pm = cov.get("protocol_model", {})
    fz = fuzz(ctx)
    pm["model_fuzz"] = fz
    cov["protocol_model"] = pm
    if fz["counterexamples"]:
        res["disagreements"].append("Crash/Proto.v: a theorem statement fails on the extracted model: " + fz["counterexamples"][0][:600])
    cov["rule"] += ("; protocol model (Crash/Proto.v): every judged trace is abstracted into protocol events (WAL records decoded, "
                    "table contents dumped by the real table reader, manifest decoded) and must be accepted by the extracted proto_okb; "
                    "for every reopened image the extracted `recover` of the abstract crash state must predict the number of "
                    "recovered commits; traces with two concurrent flushers of one memtable are outside the sequential protocol "
                    "and are counted as unjudged; plus random walks over accepted events on the extracted model")
    return res


def classify_vlog(info):
    """a violation of the crash engine on a power-loss image of a value-log trace: is a value-log file that was
    rotated away (a newer one exists) not completely fsynced at the cut?  Then it is finding F35's class."""
    if "vlog=1" not in info.get("opts", "") or info.get("pol") == "proc":
        return None
    log, cut = info["log"], info["cut"]
    root = None
    for l in log:
        if l.startswith("D ") and l.rstrip().endswith("/db"):
            root = l[2:].rstrip()
            break
    if root is None:
        return None
    sim = K.FsSim(root)
    for i, line in enumerate(log[:cut + 1]):
        if not line.startswith("M "):
            sim.step(line)
    vl = sorted((p, f) for p, f in sim.files.items() if p.endswith(".vlog"))
    stale = [p for (p, f) in vl[:-1] if f.synced != bytes(f.data)]
    return "vlog_rotated_file_not_fsynced" if stale else None
