"""Level-structure conformance replay (C01 / C06, tie 2 of Lsm/Levels.v).

E2 programs with rotate / flush / flush1 / compact / compactauto / reopen placed anywhere are run on the real store with a
dump (`e2 lvdump`, facade src/verif/levels.rs) BEFORE and AFTER every physical command: the active memtable, the immutable
memtables in the order get searches them, every table of every level with its key range and versions, and the answer of
Snapshot::get for every stored key at every registered snapshot horizon and at the visibility horizon.

The EXTRACTED model (driver `lv` commands) then, per dump,
  * decides the age-order invariant (`inv_b`, `age_ordered_b`) on the dumped state,
  * computes its own `get` (rules generated from the sources) and the specification `view_of_all` for the same keys x horizons,
and per physical command replays the step on the pre-state (rotate / flush of the oldest immutable / compaction of the
tables that disappeared, with the registered snapshots and the clock of that moment) and must arrive at the post-state; for a
compaction it also decides the selection condition `sel_ok_b` and computes the crate's own choice `select_tables`.

  real get != view_of_all of the dumped state, or an answer changed across a physical command  -> VIOLATION (wrong read)
  dumped state violates the invariant / a compaction violates sel_ok_b / the step replay or the model's get differs -> disagreement
"""
from . import common as C
from . import e2gen as G

PHYS = ("rotate", "flush", "flush1", "compact", "compactauto", "reopen")
DUMP = "e2 lvdump"

OPTS = ["lc=1", "lc=2", "lc=3", "lc=4", "lc=3,bs=64,ips=64,ri=2", "lc=2,ver=1,vlog=1,vth=0", "lc=3,ver=1,vlog=1,vth=0", "lc=2,ver=1,vlog=1,vth=0,ret=5",
        "lc=4,bs=64", "lc=3,vlog=1,vth=4,vfs=256", "lc=2,foc=1", "lc=1,ver=1,vlog=1,vth=0"]
KEYS = ["61", "62", "6162", "63", "6100", "64"]
W = dict(begin=10, write=36, get=8, scan=3, range=1, cur=2, sp=0, rbsp=0, commit=14, rollback=1, drop=5,
         rotate=8, flush=8, flush1=8, compact=16, compactauto=2, reopen=2)


class LvGen(G.ProgGen):
    clock = 0

    def emit(self, line):
        op = line.split()[1]
        if op in PHYS:
            self.lines.append(DUMP)
            self.exp.append("-")
        a = G.ProgGen.emit(self, line)
        if op in PHYS:
            self.lines.append(DUMP)
            self.exp.append("-")
        return a

    def step(self):
        if "ver=1" in self.opts and self.rng.random() < 0.06:
            self.clock += self.rng.choice([1, 3, 10, 1000])
            self.emit("e2 clock %d" % self.clock)
        G.ProgGen.step(self)


def stacked_memtables(g):
    """prologue: several immutable memtables holding versions of the same keys (rotations without flush), then single
    flushes (`flush1` takes ONE immutable memtable) with readers in between, then compactions level by level"""
    rng = g.rng
    t = g.next_tx
    keys = g.keys[:4]

    def txn():
        nonlocal t
        g.emit("e2 begin %d rw" % t)
        for k in rng.sample(keys, rng.randint(1, len(keys))):
            if rng.random() < 0.25:
                g.emit("e2 del %d %s" % (t, k))
            else:
                g.emit("e2 set %d %s %s" % (t, k, g.val()))
        g.emit("e2 commit %d" % t)
        if rng.random() < 0.7:
            g.emit("e2 drop %d" % t)
        t += 1

    for rnd in range(rng.randint(1, 3)):
        for _ in range(rng.randint(2, 4)):
            txn()
            g.emit("e2 rotate")
        if rng.random() < 0.5:
            g.emit("e2 begin %d ro" % t)
            g.tx[t] = dict(mode="ro", closed=False, curs=set())
            t += 1
        txn()
        for _ in range(rng.randint(1, 4)):
            g.emit("e2 flush1")
            if rng.random() < 0.3:
                txn()
        for lvl in range(rng.randint(0, g.lc)):
            g.emit("e2 compact %d" % min(lvl, max(0, g.lc - 1)))
    g.next_tx = t


WKEYS = ["61", "62", "63", "64", "65", "66", "67", "68", "69", "6a"]


def wide_levels(g):
    """prologue: several key-disjoint tables side by side in level 1 (narrow batches flushed and compacted one by one),
    then batches that straddle two or three of them, compactions out of level 0 (only the overlapped level-1 tables are
    inputs) and out of level 1 (one table moves down), every key read back by an old and a new reader"""
    rng = g.rng
    t = g.next_tx
    ks = WKEYS

    def txn(keys, drop=True):
        nonlocal t
        g.emit("e2 begin %d rw" % t)
        for k in keys:
            if rng.random() < 0.25:
                g.emit("e2 del %d %s" % (t, k))
            else:
                g.emit("e2 set %d %s %s" % (t, k, g.val()))
        g.emit("e2 commit %d" % t)
        if drop:
            g.emit("e2 drop %d" % t)
        t += 1

    starts = list(range(0, len(ks), 2))
    rng.shuffle(starts)
    for s in starts[:rng.randint(3, 5)]:
        txn(ks[s:s + 2])
        g.emit("e2 flush")
        g.emit("e2 compact 0")
    old = t
    g.emit("e2 begin %d ro" % old)
    g.tx[old] = dict(mode="ro", closed=False, curs=set())
    t += 1
    for rnd in range(rng.randint(2, 4)):
        lo = rng.randrange(len(ks) - 2)
        txn(ks[lo:lo + rng.randint(2, 4)], drop=rng.random() < 0.6)
        g.emit("e2 flush")
        r = rng.random()
        if r < 0.6:
            g.emit("e2 compact 0")
        if g.lc > 2 and rng.random() < 0.5:
            g.emit("e2 compact 1")
        for k in rng.sample(ks, 3):
            g.emit("e2 get %d %s" % (old, k))
    g.emit("e2 begin %d ro" % t)
    g.emit("e2 scan %d - ~ f" % t)
    g.emit("e2 drop %d" % t)
    t += 1
    g.next_tx = t


def parse(line):
    if not line.startswith("lv:"):
        return None
    d = dict(kv.split("=", 1) for kv in line[3:].split(";"))

    def vers(s):
        return [] if s == "-" else s.split(",")
    out = dict(raw=line)
    out["act"] = sorted(vers(d["act"]))
    out["imm"] = [] if d["imm"] == "-" else [(int(x.split(":", 1)[0]), sorted(vers(x.split(":", 1)[1]))) for x in d["imm"].split("+")]
    lev = []
    for l in d["lev"].split("/"):
        tabs = []
        if l != "-":
            for t in l.split("+"):
                i, lo, hi, vs = t.split(":", 3)
                tabs.append((int(i), lo, hi, sorted(vers(vs))))
        lev.append(tabs)
    out["lev"] = lev
    for k in ("lc", "ver", "ret", "now", "vis"):
        if k in d:
            out[k] = int(d[k])
    out["snaps"] = [] if d.get("snaps", "-") == "-" else [int(x) for x in d["snaps"].split(",")]
    reads = {}
    hs = []
    if d.get("reads", "-") not in ("-", "x"):
        for r in d["reads"].split(","):
            k, h, s = r.split(".")
            reads[(k, int(h))] = s
            if int(h) not in hs:
                hs.append(int(h))
    out["reads"] = reads
    out["hs"] = hs
    return out


def parse_reads(s):
    out = {}
    if s != "-":
        for r in s.split(","):
            k, h, q = r.split(".")
            out[(k, int(h))] = q
    return out


def norm_state(p):
    return (p["act"], [v for (_, v) in p["imm"]], p["lev"])


def new_stats():
    return dict(programs=0, states_dumped=0, reads_compared=0, steps_replayed=0, rotate=0, flush_tables=0, reopen=0, noop_commands=0,
                compactions={}, l0_tables={}, max_immutables=0, max_tables=0, selection_checked=0, unmodelled=0, api_mismatch=0,
                compactions_under_readers=0, versions_dropped=0, max_tables_in_a_deeper_level=0, states_with_2plus_immutables=0,
                compactions_with_target_inputs=0)


def derive(lines, got, stats):
    """-> (script, checks, errors): the `lv` script of one executed program; checks[i] = (kind, data) for script line i"""
    sc, ck, errs = [], [], []

    def add(cmd, kind=None, data=None):
        sc.append(cmd)
        ck.append((kind, data))

    def load(p, j):
        stats["states_dumped"] += 1
        nt = sum(len(l) for l in p["lev"])
        stats["max_tables"] = max(stats["max_tables"], nt)
        stats["max_immutables"] = max(stats["max_immutables"], len(p["imm"]))
        stats["states_with_2plus_immutables"] += 1 if len(p["imm"]) >= 2 else 0
        stats["max_tables_in_a_deeper_level"] = max([stats["max_tables_in_a_deeper_level"]] + [len(l) for l in p["lev"][1:]])
        n0 = str(len(p["lev"][0]) if p["lev"] else 0)
        stats["l0_tables"][n0] = stats["l0_tables"].get(n0, 0) + 1
        add("lv load " + p["raw"].split(";reads=")[0] + ";reads=x", "state", j)
        if p["hs"]:
            add("lv reads " + ",".join(map(str, p["hs"])), "reads", (p, j))

    for j, l in enumerate(lines):
        t = l.split()
        if len(t) < 2 or t[1] not in PHYS or j == 0 or j + 1 >= len(lines) or lines[j - 1] != DUMP or lines[j + 1] != DUMP:
            continue
        if j + 1 >= len(got):
            break
        pre, post = parse(got[j - 1]), parse(got[j + 1])
        if pre is None or post is None:
            errs.append("no level dump around `%s`: %s / %s" % (l, got[j - 1][:120], got[j + 1][:120]))
            break
        if not got[j].startswith("ok"):
            continue
        cmd = t[1]
        load(pre, j - 1)
        # answers across the physical command (same horizons, same keys)
        for kh, s in pre["reads"].items():
            if kh in post["reads"] and post["reads"][kh] != s:
                add("lv rules", "changed", (kh, s, post["reads"][kh], j + 1))
                break
        pre_ids = {tb[0]: li for li, lv in enumerate(pre["lev"]) for tb in lv}
        post_ids = {tb[0]: li for li, lv in enumerate(post["lev"]) for tb in lv}
        removed = sorted(set(pre_ids) - set(post_ids))
        added = sorted(set(post_ids) - set(pre_ids))
        if cmd == "rotate":
            add("lv apply rotate")
            add("lv show", "step", (post, j + 1, "rotate"))
            stats["rotate"] += 1
        elif cmd in ("flush", "flush1"):
            if removed:
                errs.append("`%s` removed tables %s" % (l, removed))
            if cmd == "flush":
                add("lv apply rotate")
                n = len(pre["imm"]) + (1 if pre["act"] else 0)
            else:
                n = 1 if pre["imm"] else 0
            if n != len(added):
                errs.append("`%s`: %d memtables to flush, %d tables appeared (%s)" % (l, n, len(added), added))
            else:
                for i in added:       # table ids grow with the age of the rotation: oldest first
                    add("lv apply flush %d" % i)
                add("lv show", "step", (post, j + 1, cmd))
                stats["flush_tables"] += len(added)
                if not added:
                    stats["noop_commands"] += 1
        elif cmd in ("compact", "compactauto"):
            if not removed and not added:
                stats["noop_commands"] += 1
                add("lv show", "step", (post, j + 1, cmd + " (nothing chosen)"))
            elif len(added) > 1:
                stats["unmodelled"] += 1
            else:
                src = min(pre_ids[i] for i in removed)
                tgt = post_ids[added[0]] if added else max(pre_ids[i] for i in removed)
                key = "L%d->L%d" % (src, tgt)
                stats["compactions"][key] = stats["compactions"].get(key, 0) + 1
                if post["snaps"]:
                    stats["compactions_under_readers"] += 1
                if tgt != src and any(pre_ids[i] == tgt for i in removed):
                    stats["compactions_with_target_inputs"] += 1
                seed = [i for i in removed if pre_ids[i] == src][0]
                add("lv apply compact %d %d %s %d %d %d %d %s" % (src, seed, ",".join(map(str, removed)), added[0] if added else 0,
                                                                post["ver"], post["ret"], post["now"], ",".join(map(str, post["snaps"])) or "-"),
                    "compact", (removed, src, j, len([1 for i in removed if pre_ids[i] == src]) == 1 or src == 0))
                add("lv show", "step", (post, j + 1, "%s %s (tables %s -> %s)" % (cmd, key, removed, added)))
                nb = sum(len(tb[3]) for lv in pre["lev"] for tb in lv)
                na = sum(len(tb[3]) for lv in post["lev"] for tb in lv)
                stats["versions_dropped"] += nb - na
        elif cmd == "reopen":
            stats["reopen"] += 1
            # memtables are rebuilt from the WAL (the dump does not show the order inside a memtable, so the cut is not
            # replayed): the same versions overall, the old tables untouched, new tables in level 0 only
            allv = lambda p: sorted(p["act"] + [v for (_, m) in p["imm"] for v in m] + [v for lv in p["lev"] for tb in lv for v in tb[3]])
            if allv(pre) != allv(post):
                errs.append("reopen changed the stored versions: %s -> %s" % (allv(pre)[:40], allv(post)[:40]))
            if removed or any(post_ids[i] != 0 for i in added) or any(tb not in post["lev"][li] for li, lv in enumerate(pre["lev"]) for tb in lv):
                errs.append("reopen changed the tables: removed %s, added %s" % (removed, [(i, post_ids[i]) for i in added]))
        load(post, j + 1)
    return sc, ck, errs


def run_checks(programs, got_all, stats):
    """programs: [(lines, exp, opts)]; -> (violations, disagreements)"""
    viol, dis = [], []
    scripts, checks = [], []
    for (lines, exp, opts), got in zip(programs, got_all):
        got = got or []
        sc, ck, errs = derive(lines, got, stats)
        for e in errs:
            if len(dis) < 8:
                dis.append("level structure: %s (options %s)" % (e, opts))
        scripts.append(sc)
        checks.append(ck)
    order = [i for i in range(len(scripts)) if scripts[i]]
    shards = C.shard(order, C.NCPU)
    out = C.run_pairs([[l for i in sh for l in scripts[i]] for sh in shards], sides=("model",))
    for sh, r in zip(shards, out):
        ans = r["model"][0]
        pos = 0
        for i in sh:
            a = ans[pos:pos + len(scripts[i])]
            pos += len(scripts[i])
            lines, exp, opts = programs[i]
            got = got_all[i] or []
            stop = False
            for k, (kind, data) in enumerate(checks[i]):
                if kind is None or stop:
                    continue
                m = a[k] if k < len(a) else "<missing>"
                prog = lambda j: " ; ".join(x[3:] for x in lines[:j + 1] if x != DUMP)[-1200:]
                if kind == "state":
                    j = data
                    if not m.startswith("ok inv=1 age=1 nodup=1"):
                        stop = True
                        if len(dis) < 8:
                            dis.append("level structure: the real store's state violates the age-order invariant (%s) after `%s` — dump %s || options %s || program: %s"
                                       % (m, lines[j - 1] if lines[j - 1] != DUMP else lines[j - 2], got[j][:600], opts, prog(j)))
                elif kind == "reads":
                    p, j = data
                    if not m.startswith("reads:"):
                        dis.append("level structure: model refuses reads: %s" % m[:200])
                        stop = True
                        continue
                    rs, vs = m[6:].split(";views:")
                    mget, mview = parse_reads(rs), parse_reads(vs)
                    for kh, s in p["reads"].items():
                        stats["reads_compared"] += 1
                        if mview.get(kh) != s:
                            stop = True
                            desc = ("wrong point read: key %s at horizon %d: Snapshot::get answers seq %s, the newest visible version over all sources of the dumped state is %s "
                                    "(Lsm/Levels.v view_of_all; model get %s; options %s)" % (kh[0], kh[1], s, mview.get(kh), mget.get(kh), opts))
                            if len(viol) < 3:
                                viol.append((desc, G.replay_text("C06", desc, lines[:j + 1], exp[:j + 1], got[:j + 1])))
                            break
                        if mget.get(kh) != s:
                            stop = True
                            if len(dis) < 8:
                                dis.append("level structure: the model's get (search order generated from the sources) answers %s, Snapshot::get %s for key %s at horizon %d || options %s || program: %s"
                                           % (mget.get(kh), s, kh[0], kh[1], opts, prog(j)))
                            break
                elif kind == "changed":
                    kh, s0, s1, j = data
                    stop = True
                    desc = "`%s` changed an answer: key %s at horizon %d read seq %s before and %s after (options %s)" % (lines[j - 1], kh[0], kh[1], s0, s1, opts)
                    if len(viol) < 3:
                        viol.append((desc, G.replay_text("C06", desc, lines[:j + 1], exp[:j + 1], got[:j + 1])))
                elif kind == "compact":
                    removed, src, j, seed_exact = data
                    stats["selection_checked"] += 1
                    f = dict(x.split("=") for x in m.split()[1:]) if m.startswith("ok ") else {}
                    if f.get("selok") != "1":
                        stop = True
                        if len(dis) < 8:
                            dis.append("level structure: the compaction `%s` violates the selection condition sel_ok_b (inputs %s out of level %d): %s || dump before %s || options %s || program: %s"
                                       % (lines[j], removed, src, m, got[j - 1][:600], opts, prog(j)))
                    elif seed_exact:
                        chosen = sorted(int(x) for x in f.get("select", "-").split(",") if x != "-")
                        if chosen != removed:
                            stop = True
                            if len(dis) < 8:
                                dis.append("level structure: the crate's compaction read tables %s, the model's select_tables picks %s (level %d) || dump before %s || options %s || program: %s"
                                           % (removed, chosen, src, got[j - 1][:600], opts, prog(j)))
                elif kind == "step":
                    post, j, what = data
                    stats["steps_replayed"] += 1
                    mp = parse(m + ";reads=x") if m.startswith("lv:") else None
                    if mp is None or norm_state(mp) != norm_state(post):
                        stop = True
                        if len(dis) < 8:
                            dis.append("level structure: replaying `%s` in the model gives %s, the store has %s || options %s || program: %s"
                                       % (what, m[:500], got[j].split(";reads=")[0][:500], opts, prog(j)))
    return viol, dis


def conformance(ctx, pid, profiles, n_quick=48, n_thorough=700):
    """profiles: the property's own E2 profiles (weights, keys, prologues); the option sets are replaced by OPTS"""
    rng = C.Rng(ctx["seed"] * 7919 + 17 + sum(ord(c) for c in pid))
    n = n_quick if ctx["tier"] == "quick" else n_thorough
    res = dict(violations=[], disagreements=[], cov={})
    if not ctx["have_model"]:
        res["disagreements"].append("level-structure model unavailable (extraction/driver did not build)")
        return res
    rules = C.run_side(C.DRIVER_BIN, "lv rules\n")[0]
    if not rules or not rules[0].startswith("rules_ok=1 select_ok=1 anchors=1"):
        res["disagreements"].append("level structure: the rules generated from the sources are not the ones the theorems are about: %s" % (rules[:1],))
    model = G.Model()
    pfs = [dict(name="lv-stacked-memtables", weights=W, keys=KEYS, prologue=stacked_memtables, length=(10, 40), max_tx=5),
           dict(name="lv-placement", weights=W, keys=KEYS, length=(60, 140), max_tx=5),
           dict(name="lv-wide-levels", weights=dict(W, reopen=1), keys=WKEYS, prologue=wide_levels, length=(5, 30), max_tx=5)] + list(profiles)
    programs = []
    for i in range(n):
        pf = pfs[i % len(pfs)]
        opts = OPTS[(i // len(pfs) + i) % len(OPTS)]
        g = LvGen(rng, model, opts=opts, weights=pf.get("weights"), keys=pf.get("keys") or KEYS, max_tx=pf.get("max_tx", 4))
        g.start()
        if "prologue" in pf:
            pf["prologue"](g)
        for _ in range(rng.randint(*pf.get("length", (40, 100)))):
            g.step()
        lines, exp = g.finish()
        programs.append((lines, exp, opts))
    model.close()
    got = G.run_impl([(l, e) for (l, e, _) in programs])
    stats = new_stats()
    stats["programs"] = len(programs)
    for (lines, exp, opts), g in zip(programs, got):
        g = g or []
        for j, l in enumerate(lines):
            if l in G.INFO:
                continue
            gj = g[j] if j < len(g) else "<missing>"
            if gj != exp[j]:
                stats["api_mismatch"] += 1
                if len(res["violations"]) < 2:
                    desc = "`%s`: implementation answers %s, specification %s (level-structure run, options %s)" % (l, gj[:160], exp[j][:160], opts)
                    res["violations"].append((desc, G.replay_text(pid, desc, lines[:j + 1], exp[:j + 1], g[:j + 1])))
                break
    v, d = run_checks(programs, got, stats)
    res["violations"] += v
    res["disagreements"] += d
    stats["rules"] = rules[0] if rules else "?"
    res["cov"] = stats
    return res


def merge(r, lv):
    """fold a conformance result into a property's exploration result"""
    r["violations"] += lv["violations"][:2]
    r["disagreements"] += lv["disagreements"]
    cov = r["coverage"]
    s = lv["cov"]
    cov["levels_conformance"] = s
    n = s.get("reads_compared", 0) + s.get("steps_replayed", 0) + s.get("states_dumped", 0)
    cov["evaluations"] = cov.get("evaluations", 0) + n
    cov["disagreements_checked"] = cov.get("disagreements_checked", 0) + n
    cov["distinct_nontrivial"] = cov.get("distinct_nontrivial", 0) + sum(s.get("compactions", {}).values())
    cov["rule"] = cov.get("rule", "") + (
        "; plus the level-structure conformance replay (Lsm/Levels.v): E2 programs over lc=1..4, versioning off/on, tiny blocks, vlog, flush_on_close with a dump of "
        "the running store (memtables in search order, every table of every level with key range and versions, Snapshot::get for every key x live snapshot) before and "
        "after every rotate / flush / flush1 / compact / compactauto / reopen: the extracted model decides the age-order invariant on every dumped state, its get and "
        "view_of_all must equal the real answers, every rotate / flush / compaction step replayed in the model must reach the dumped post-state, every compaction must "
        "satisfy sel_ok_b and read exactly the tables select_tables picks; distribution in coverage.levels_conformance")
    return r
