"""Multi-session crash scenarios on the real store, driven through the recorder and the file-system simulator
(tools/vlib/crash.py): each session runs a script on the crash image of the previous one; the image is taken after
a chosen operation of the session's log under a chosen crash policy.  Two directed scenarios reproduce windows that
the protocol model (Crash/Proto.v, obligations P8 and P2) shows to be open in the recovery code."""
import os, shutil
from . import common as C
from . import crash as K
from . import crashproto as P

BASE = os.path.join(C.CACHE, "multigen")
OPTS = "lc=2,mem=8192"


def show(log, root, lo=0, hi=None):
    out = []
    for i, l in enumerate(log[lo:hi], lo):
        if l.startswith("W "):
            p = l.split(" ", 4)
            l = " ".join(p[:4]) + " " + p[4][:16] + ".."
        out.append("      %3d %s" % (i, l.replace(root, "")[:110]))
    return out


class Chain:
    def __init__(self, name):
        self.dir = os.path.join(BASE, name)
        shutil.rmtree(self.dir, ignore_errors=True)
        os.makedirs(self.dir)
        self.n = 0
        self.files, self.dirs, self.root = {}, set(), None
        self.scripts = []
        self.opts = OPTS

    def session(self, cmds, pol="proc", opts=None, fail=None):
        """run cmds (after `open`) on the image (policy pol) of the previous session's cut; returns (out, log)"""
        self.n += 1
        root = os.path.join(self.dir, "s%d" % self.n, "root")
        os.makedirs(root + "/db")
        if self.root is not None:
            sim0 = K.FsSim(self.root)
            sim0.files, sim0.dirs = self.files, self.dirs
            sim0.materialise(root + "/db", pol)
            sim = P.preload(self.files, self.dirs, self.root, root + "/db", pol)
        else:
            sim = K.FsSim(root + "/db")
        script = ["e2 newat %s/db" % root, "e2 open %s" % (opts or self.opts)] + ["e2 " + c for c in cmds] + ["e2 abort"]
        self.scripts.append((pol, script))
        out, log = K.trace(script, root, fail=fail)
        self.cur = (root + "/db", log, sim)
        return out, log

    def cut(self, pred):
        """stop the simulator after the first log line satisfying pred(i, line, sim)"""
        root, log, sim = self.cur
        for i, line in enumerate(log):
            if not line.startswith("M "):
                sim.step(line)
            if pred(i, line.replace(root, ""), sim):
                self.files, self.dirs, self.root = sim.files, sim.dirs, root
                return i
        return None

    def cleanup(self):
        shutil.rmtree(self.dir, ignore_errors=True)


def txn(n, kvs, sync=False):
    return ["begin %d rw" % n] + ["set %d %s %s" % (n, k, v) for k, v in kvs] + ["%s %d" % ("commitsync" if sync else "commit", n)]


def scan(chain, pol):
    out, log = chain.session(["begin 9 ro", "scan 9 - ~ f"], pol)
    return (out[1] if len(out) > 1 else "no-answer"), (out[3] if len(out) > 3 else str(out))


def wal_record_written(nth):
    """predicate: the nth write to a WAL segment of this session has been issued"""
    def pred(i, l, sim):
        if not l.startswith("W "):
            return False
        f = sim.fds.get(int(l.split()[1]))
        if not any(g is f for p, g in sim.files.items() if p.endswith(".wal")):
            return False
        pred.count += 1
        return pred.count == nth
    pred.count = 0
    return pred


C1 = txn(1, [("61", "rep:2500:1"), ("62", "rep:2500:2")])
C2 = txn(2, [("63", "rep:1500:3"), ("64", "rep:1500:4"), ("65", "rep:1500:5")])


def piece():
    """process crash, reopen, power loss: recovery flushed a piece holding a PART of a transaction while the WAL
    segment with the whole record was never fsynced.  Returns (reproduced, text)."""
    ch = Chain("piece")
    text = []
    out, log = ch.session(C1 + C2)
    k = ch.cut(wal_record_written(2))
    if k is None:
        return False, "cut 1 not found"
    text.append("session 1 (options %s): txn1 = {61,62} (acknowledged), txn2 = {63,64,65}; PROCESS crash after log line %d "
                "(the WAL record of txn2 is written, not fsynced; its commit has not returned)" % (OPTS, k))
    out, log = ch.session(txn(1, [("6e01", "a001")]))
    root = ch.cur[0]
    text.append("session 2: open = %s; recovery splits segment 0 (the memtable is full in the middle of txn2) and flushes the first piece:" % (out[1] if len(out) > 1 else out))
    r = [i for i, l in enumerate(log) if l.startswith("R ")]
    if not r:
        return False, "\n".join(text + ["no manifest switch in session 2"])
    text += show(log, root, max(0, r[0] - 26), r[0] + 4)
    k = ch.cut(lambda i, l, sim: l.startswith("R ") and ".manifest" in l)
    text.append("   POWER LOSS after line %d (the manifest names the table of the first piece; the WAL segment was never fsynced, policy: unsynced writes lost)" % k)
    res = scan(ch, "none")
    text.append("session 3: open = %s, scan = %s" % res)
    hit = "63=" in res[1] and "64=" not in res[1]
    text.append("   expected the state after 0, 1 or 2 transactions; key 63 of txn2 is there without 64 and 65" if hit else "   (not reproduced)")
    text += ["# scripts:"] + ["#  session %d (image policy %s): %s" % (i + 1, pol, " ; ".join(s[1:])) for i, (pol, s) in enumerate(ch.scripts)]
    ch.cleanup()
    return hit, "\n".join(text)


def nonlast():
    """three process crashes: recovery marks a split segment that is NOT the last one as flushed with its FIRST
    piece; a crash between the pieces loses an acknowledged transaction.  Returns (reproduced, text)."""
    ch = Chain("nonlast")
    text = []
    out, log = ch.session(C1 + C2)
    k = ch.cut(wal_record_written(2))
    if k is None:
        return False, "cut 1 not found"
    text.append("session 1 (options %s): txn1 {61,62} acknowledged, txn2 {63,64,65} logged; PROCESS crash after line %d (before the memtable rotation)" % (OPTS, k))
    c3 = txn(3, [("66", "rep:1500:6")])
    c4 = txn(4, [("67", "rep:1500:7"), ("68", "rep:1500:8")])
    out, log = ch.session(c3 + c4)
    root = ch.cur[0]
    text.append("session 2: open = %s; recovery splits segment 0 (piece 1 flushed, piece 2 = txn2 is the active memtable, still paired with "
                "segment 0); txn3 {66} and txn4 {67,68} are appended to segment 0; txn4 fills the memtable: rotation to segment 1, second record of txn4 there" % (out[1] if len(out) > 1 else out))
    k = ch.cut(wal_record_written(3))
    if k is None:
        return False, "\n".join(text + ["cut 2 not found"])
    sim = ch.cur[2]
    acks = [l for l in log[:k + 1] if l.startswith("M ack")]
    text.append("   PROCESS crash after line %d; acknowledged in this session: %s" % (k, acks))
    text += show(log, root, max(0, k - 12), k + 1)
    text.append("   files: %s" % sorted(p.replace(root, "") for p in sim.files if p.endswith((".wal", ".sst"))))
    out, log = ch.session([])
    text.append("session 3: open = %s; recovery replays segment 0 in pieces; PROCESS crash right after the FIRST piece's manifest switch" % (out[1] if len(out) > 1 else out))
    k = ch.cut(lambda i, l, sim: l.startswith("R ") and ".manifest" in l)
    if k is None:
        return False, "\n".join(text + ["no manifest switch in session 3"])
    man = [f for p, f in ch.files.items() if p.endswith(".manifest")][0]
    text.append("   manifest after line %d: log_number=%d tables=%s (segment 0 is now ignored although its later pieces are only in memory)" % ((k,) + P.manifest_decode(bytes(man.data))[:2]))
    res = scan(ch, "proc")
    text.append("session 4: open = %s, scan = %s" % res)
    hit = "M ack 3 0" in acks and res[0] == "ok" and "66=" not in res[1]
    text.append("   txn3 (key 66) was acknowledged in session 2 and is gone; only process crashes happened" if hit else "   (not reproduced)")
    text += ["# scripts:"] + ["#  session %d (image policy %s): %s" % (i + 1, pol, " ; ".join(s[1:])) for i, (pol, s) in enumerate(ch.scripts)]
    ch.cleanup()
    return hit, "\n".join(text)


def vlog_rotated():
    """one session and a power loss: a memtable flush whose values fill more than one value-log file fsyncs only the
    last file; the table and the manifest are durable, the WAL segment is unlinked, and a value of a commit that
    was acknowledged with Durability::Immediate cannot be read.  Returns (reproduced, text)."""
    ch = Chain("vlog")
    ch.opts = "lc=2,vlog=1,vth=8,vfs=256"
    text = []
    out, log = ch.session(txn(1, [("61", "rep:900:1"), ("62", "rep:600:2")], sync=True) + ["flush"])
    root = ch.cur[0]
    k = None
    sst = [i for i, l in enumerate(log) if l.startswith("O ") and l.endswith(".sst")]
    unl = [i for i, l in enumerate(log) if l.startswith("R ") and ".manifest" in l and sst and i > sst[0]]
    if not unl:
        return False, "no flush in the log"
    k = ch.cut(lambda i, l, sim: i == unl[0])
    text.append("session 1 (options %s): txn1 = {61: 900 bytes, 62: 600 bytes} committed with Durability::Immediate (answer %s), then flush; "
                "POWER LOSS after log line %d (table fsynced, manifest switched: log_number 1, WAL segment 0 is no longer replayed)" % (ch.opts, out[5] if len(out) > 5 else out, k))
    text += show(log, root, max(0, unl[0] - 60), unl[0] + 1)
    sim = ch.cur[2]
    text.append("   value-log files at the crash: %s" % sorted((p.replace(root, ""), "%d bytes, %d fsynced" % (len(f.data), len(f.synced))) for p, f in sim.files.items() if p.endswith(".vlog")))
    res = scan(ch, "none")
    text.append("session 2: open = %s, scan = %s" % (res[0], res[1][:300]))
    hit = res[0] == "ok" and "VLog" in res[1]
    text.append("   the value of key 61 was written to value-log file 1, which was closed when the file size limit was reached and never fsynced "
                "(VLog::sync fsyncs only the active writer)" if hit else "   (not reproduced)")
    text += ["# scripts:"] + ["#  session %d (image policy %s): %s" % (i + 1, pol, " ; ".join(s[1:])) for i, (pol, s) in enumerate(ch.scripts)]
    ch.cleanup()
    return hit, "\n".join(text)


def torn_first():
    """a commit-log segment whose FIRST record is torn (a record of two fragments of which only the first reached the
    file when the process died), reopen (the torn tail reads as a clean end of log), acknowledged commits behind it,
    process crash, reopen: the acknowledged commits must be there"""
    ch = Chain("tornfirst")
    text = []
    out, log = ch.session(txn(1, [("61", "rep:50000:1")]), opts="lc=2")
    k = ch.cut(wal_record_written(1))
    if k is None:
        return False, "cut 1 not found"
    text.append("session 1: txn1 = {61: 50000 bytes} (one record of two fragments); PROCESS crash after log line %d (first write of the record)" % k)
    out, log = ch.session(txn(1, [("6e01", "a001")], sync=True) + txn(2, [("6e02", "a002")], sync=True) + txn(3, [("6e03", "a003")]), opts="lc=2")
    acks = [x for x in out[2:] if x == "ok"]
    text.append("session 2: open = %s; three commits acknowledged (two with immediate durability): %s; PROCESS crash" % (out[1] if len(out) > 1 else out, out[2:]))
    root, log2, sim = ch.cur
    ch.cut(lambda i, l, sim_: i == len(log2) - 1)
    out3, _ = ch.session(["begin 9 ro", "scan 9 - ~ f"], "proc", opts="lc=2")
    res = (out3[1] if len(out3) > 1 else "no-answer"), (out3[3] if len(out3) > 3 else str(out3))
    text.append("session 3: open = %s, scan = %s" % res)
    want = all(("6e0%d=" % j) in res[1] for j in (1, 2, 3))
    hit = len(acks) >= 9 and not want      # 3 x (begin, set, commit) answered ok
    text.append("   acknowledged commits 6e01..6e03 are missing after the crash" if hit else "   (not reproduced)")
    text += ["# scripts:"] + ["#  session %d (image policy %s): %s" % (i + 1, pol, " ; ".join(s_[1:])) for i, (pol, s_) in enumerate(ch.scripts)]
    ch.cleanup()
    return hit, "\n".join(text)


def relog_race():
    """one session, directed schedule: txn2 fills the memtable in the middle (key 63 is inserted, 64 is not);
    `apply` rotates the memtable and the WAL, wakes the background flush and only THEN logs txn2 again in the new
    segment (`relog_if_rotated`).  The committing thread is held right before that WAL write (recorder kind
    hold<ms>); the background task flushes the rotated memtable — a table with a PART of txn2 —, switches the
    manifest to log_number 1 and releases segment 0.  A process crash at that point leaves the part of txn2 with no
    complete record anywhere.  Returns (reproduced, text)."""
    ch = Chain("relograce")
    text = []
    out, log = ch.session(C1 + C2, fail="1:hold1500:00000000000000000001.wal")
    root = ch.cur[0]
    hold = [i for i, l in enumerate(log) if l.startswith("H ")]
    ren = [i for i, l in enumerate(log) if l.startswith("R ") and ".manifest" in l and hold and i > hold[0]]
    wal1 = [i for i, l in enumerate(log) if l.startswith("W ") and hold and i > hold[0] and
            any(x.startswith("O %s " % l.split()[1]) and x.rstrip().endswith("00000000000000000001.wal") for x in log[:i])]
    if not hold:
        return False, "the committing thread was never held (no rotation inside apply?)"
    text.append("session 1 (options %s): txn1 {61,62} acknowledged; txn2 {63,64,65} fills the memtable after key 63; the committing thread is "
                "held at log line %d, before it logs txn2 in segment 1" % (OPTS, hold[0]))
    if not ren or (wal1 and ren[0] > wal1[0]):
        text += show(log, root, hold[0], min(len(log), hold[0] + 40))
        return False, "\n".join(text + ["the background flush did not switch the manifest before the held write (not reproduced)"])
    k = ch.cut(lambda i, l, sim: i == ren[0])
    text += show(log, root, max(0, hold[0] - 8), ren[0] + 1)
    sim = ch.cur[2]
    man = [f for p, f in ch.files.items() if p.endswith(".manifest")][0]
    text.append("   PROCESS crash after line %d: manifest log_number=%d tables=%s; segment 1 is still empty (first write to it is log line %s)" % (
        (k,) + P.manifest_decode(bytes(man.data))[:2] + (wal1[0] if wal1 else "-",)))
    res = scan(ch, "proc")
    text.append("session 2: open = %s, scan = %s" % res)
    hit = res[0] == "ok" and "63=" in res[1] and "64=" not in res[1]
    text.append("   key 63 of txn2 is recovered without 64 and 65 (txn2 was never acknowledged, but a part of it is visible)" if hit else "   (not reproduced)")
    text += ["# scripts:"] + ["#  session %d (image policy %s): %s" % (i + 1, pol, " ; ".join(s_[1:])) for i, (pol, s_) in enumerate(ch.scripts)]
    text.append("#  session 1 runs with VERIF_SHIM_FAIL=1:hold1500:00000000000000000001.wal")
    ch.cleanup()
    return hit, "\n".join(text)


def vlog_header():
    """process crash between the creation of a value-log file and the write of its header, reopen, a flush that
    appends values (the empty file is the one with the highest id), clean close, reopen: the store must open"""
    ch = Chain("vlogheader")
    text = []
    opts = "lc=2,vlog=1,vth=8,vfs=4096"
    out, log = ch.session(txn(1, [("61", "rep:100:1"), ("62", "rep:100:2")], sync=True) + ["flush"], opts=opts)
    k = ch.cut(lambda i, l, sim: l.startswith("O ") and "/vlog/" in l and l.split()[2].startswith("c"))
    if k is None:
        return False, "no value-log file creation in session 1"
    text.append("session 1 (options %s): txn1 acknowledged (sync); flush; PROCESS crash right after log line %d (the value-log file exists, its header is not written yet)" % (opts, k))
    out, log = ch.session(["begin 9 ro", "scan 9 - ~ f", "drop 9"] + txn(2, [("63", "rep:100:3")], sync=True) + ["flush"], opts=opts)
    text.append("session 2: open = %s, scan = %s; txn2 acknowledged; flush = %s; PROCESS crash at the end" % (
        out[1] if len(out) > 1 else out, out[3] if len(out) > 3 else "-", out[-2] if len(out) > 1 else "-"))
    root, log2, sim = ch.cur
    ch.cut(lambda i, l, sim_: i == len(log2) - 1)
    out3, _ = ch.session(["begin 9 ro", "scan 9 - ~ f"], "proc", opts=opts)
    res = (out3[1] if len(out3) > 1 else "no-answer"), (out3[3] if len(out3) > 3 else str(out3))
    text.append("session 3: open = %s, scan = %s" % res)
    good = res[0] == "ok" and all(("6%d=" % j) in res[1] for j in (1, 2, 3))
    hit = (len(out) > 1 and out[1] == "ok") and not good
    text.append("   the store written by session 2 does not reopen with its content" if hit else "   (not reproduced)")
    text += ["# scripts:"] + ["#  session %d (image policy %s): %s" % (i + 1, pol, " ; ".join(s_[1:])) for i, (pol, s_) in enumerate(ch.scripts)]
    ch.cleanup()
    return hit, "\n".join(text)


def vlog_torn_header(lengths=(1, 3, 4, 6, 9, 10, 15, 30)):
    """power loss while the header of a new value-log file is being written (the file holds the first n bytes of
    the header, for several n): the acknowledged commit is in the WAL; the store must open, show it, and keep working"""
    hit_any, text = False, []
    opts = "lc=2,vlog=1,vth=8,vfs=4096"
    for n in lengths:
        ch = Chain("vlogtorn")
        out, log = ch.session(txn(1, [("61", "rep:100:1"), ("62", "rep:100:2")], sync=True) + ["flush"], opts=opts)
        def first_vlog_write(i, l, sim):
            if not l.startswith("W "):
                return False
            f = sim.fds.get(int(l.split()[1]))
            return any(g is f for p_, g in sim.files.items() if "/vlog/" in p_)
        k = ch.cut(first_vlog_write)
        if k is None:
            ch.cleanup()
            return False, "no value-log write in session 1"
        # the torn write: only the first n bytes of the header reached the disk
        for p_, f in ch.files.items():
            if "/vlog/" in p_ and f.pending and f.pending[-1][0] == "w":
                op = f.pending[-1]
                f.pending[-1] = ("w", op[1], op[2][:n + 1])
        t = ["session 1 (options %s): txn1 acknowledged (sync); flush; POWER loss after log line %d: %d bytes of the header of the new value-log file reached the disk" % (opts, k, n)]
        out, log = ch.session(["begin 9 ro", "scan 9 - ~ f", "drop 9"] + txn(2, [("63", "rep:100:3")], sync=True) + ["flush"], "allbutone", opts=opts)
        o2 = (out[1] if len(out) > 1 else "no-answer"), (out[3] if len(out) > 3 else str(out))
        t.append("session 2: open = %s, scan = %s" % (o2[0], o2[1][:120]))
        good2 = o2[0] == "ok" and all(("6%d=" % j) in o2[1] for j in (1, 2))
        good3 = True
        if good2:
            root, log2, sim = ch.cur
            ch.cut(lambda i, l, sim_: i == len(log2) - 1)
            out3, _ = ch.session(["begin 9 ro", "scan 9 - ~ f"], "proc", opts=opts)
            o3 = (out3[1] if len(out3) > 1 else "no-answer"), (out3[3] if len(out3) > 3 else str(out3))
            t.append("session 3: open = %s, scan = %s" % (o3[0], o3[1][:160]))
            good3 = o3[0] == "ok" and all(("6%d=" % j) in o3[1] for j in (1, 2, 3))
        hit = not (good2 and good3)
        t.append("   the image with the torn value-log header does not reopen with the acknowledged content" if hit else "   (not reproduced)")
        t += ["# scripts:"] + ["#  session %d (image policy %s): %s" % (i + 1, pl, " ; ".join(s_[1:])) for i, (pl, s_) in enumerate(ch.scripts)]
        ch.cleanup()
        if hit:
            return True, "\n".join(t)
        text = t
    return False, "\n".join(["(header lengths tried: %s)" % (list(lengths),)] + text)


def torn_header_tail():
    """power loss inside the HEADER of a commit-log record in the middle of a block (3 of its 7 bytes reach the disk),
    reopen, acknowledged commits into the same segment, a memtable/WAL rotation, one more commit, process crash, reopen:
    every acknowledged commit must be there (the stale header bytes must have been cut before the segment was appended to)"""
    ch = Chain("tornheader")
    text = []
    s1 = txn(1, [("6101", "a101")], sync=True) + txn(2, [("6102", "a102")], sync=True) + txn(3, [("6103", "a103")], sync=True) + txn(4, [("6104", "a104")])
    out, log = ch.session(s1, opts="lc=2")
    k = ch.cut(wal_record_written(4))
    if k is None:
        return False, "cut 1 not found"
    torn = 0
    for p_, f in ch.files.items():
        if p_.endswith(".wal") and f.pending and f.pending[-1][0] == "w":
            op = f.pending[-1]
            f.pending[-1] = ("w", op[1], op[2][:4])     # allbutone keeps 3 bytes
            torn += 1
    text.append("session 1: txn1..3 acknowledged with immediate durability; POWER loss during the write of txn4's record: 3 bytes of its header are on disk (log line %d; %d segment torn)" % (k, torn))
    s2 = []
    for j in range(1, 7):
        s2 += txn(j, [("62%02d" % j, "b2%02d" % j)], sync=True)
    s2 += ["rotate"] + txn(9, [("6301", "c301")], sync=True)
    out, log = ch.session(s2, "allbutone", opts="lc=2")
    oks = out[2:]
    text.append("session 2: open = %s; six commits, a rotation (no flush), one more commit: %s; PROCESS crash" % (out[1] if len(out) > 1 else out, " ".join(oks)))
    root, log2, sim = ch.cur
    ch.cut(lambda i, l, sim_: i == len(log2) - 1)
    out3, _ = ch.session(["begin 9 ro", "scan 9 - ~ f"], "proc", opts="lc=2")
    res = (out3[1] if len(out3) > 1 else "no-answer"), (out3[3] if len(out3) > 3 else str(out3))
    text.append("session 3: open = %s, scan = %s" % (res[0], res[1][:300]))
    want = ["6101=", "6102=", "6103="] + ["62%02d=" % j for j in range(1, 7)] + ["6301="]
    missing = [w for w in want if w not in res[1]]
    all_acked = len(out) > 1 and out[1] == "ok" and all(x in ("ok",) or x.startswith("ok") for x in oks if not x.startswith("val"))
    hit = all_acked and (res[0] != "ok" or bool(missing))
    text.append(("   acknowledged commits are missing after the second crash: %s" % missing) if hit else "   (not reproduced)")
    text += ["# scripts:"] + ["#  session %d (image policy %s): %s" % (i + 1, pol, " ; ".join(s_[1:])) for i, (pol, s_) in enumerate(ch.scripts)]
    ch.cleanup()
    return hit, "\n".join(text)


def admission_boundary(mem=8192):
    """single-value transactions whose size sweeps the band just below the memtable size: each is either refused BEFORE it
    is logged or committed; whatever the answers, after a process crash the store must open and show every acknowledged
    commit (a record that is logged but can never be applied would make every later recovery fail)"""
    ch = Chain("admission")
    text = []
    opts = "lc=2,mem=%d" % mem
    cmds, sizes = [], list(range(mem - 680, mem - 300, 20))
    for i, sz in enumerate(sizes):
        cmds += txn(10 + i, [("64%02d" % i, "rep:%d:%d" % (sz, i))])
        cmds += txn(50 + i, [("65%02d" % i, "e5%02d" % i)])
    out, log = ch.session(cmds, opts=opts)
    ans = out[2:]
    acked = []
    for i in range(len(sizes)):
        a = ans[i * 6:(i + 1) * 6]
        if len(a) == 6:
            if a[2] == "ok":
                acked.append("64%02d=" % i)
            if a[5] == "ok":
                acked.append("65%02d=" % i)
    big = [ans[i * 6 + 2] if len(ans) > i * 6 + 2 else "-" for i in range(len(sizes))]
    text.append("session 1 (options %s): %d transactions with one value of %d..%d bytes, each followed by a small one; answers of the big commits: %s; PROCESS crash" % (
        opts, len(sizes), sizes[0], sizes[-1], " ".join(x[:24] for x in big)))
    root, log1, sim = ch.cur
    ch.cut(lambda i, l, sim_: i == len(log1) - 1)
    out2, _ = ch.session(["begin 9 ro", "scan 9 - ~ f"], "proc", opts=opts)
    res = (out2[1] if len(out2) > 1 else "no-answer"), (out2[3] if len(out2) > 3 else str(out2))
    text.append("session 2: open = %s, scan shows %d keys" % (res[0][:160], res[1].count("=")))
    missing = [w for w in acked if w not in res[1]]
    hit = bool(acked) and (res[0] != "ok" or bool(missing))
    text.append(("   %d commits were acknowledged; the store does not reopen with them (missing: %s)" % (len(acked), missing[:6])) if hit else "   (not reproduced)")
    text += ["# scripts:"] + ["#  session %d (image policy %s): %s" % (i + 1, pol, " ; ".join(s_[1:])[:3000]) for i, (pol, s_) in enumerate(ch.scripts)]
    ch.cleanup()
    return hit, "\n".join(text)


def repair_then_append(offsets=(10, 9, 12, 20)):
    """one byte of the FIRST record of the only commit-log segment is altered while the store is closed; the next open
    repairs the segment (nothing of it is left), commits are acknowledged with immediate durability, process crash,
    reopen: those commits must be there (the writer must append to the file that is on disk after the repair)"""
    text = []
    for off in offsets:
        ch = Chain("repairappend")
        out, log = ch.session(txn(1, [("6101", "a101")], sync=True) + txn(2, [("6102", "a102")], sync=True), opts="lc=2,foc=0")
        root, log1, sim = ch.cur
        ch.cut(lambda i, l, sim_: i == len(log1) - 1)
        hit_file = None
        for p_, f in ch.files.items():
            if p_.endswith(".wal") and len(f.data) > off:
                f.data[off] ^= 0xff
                f.synced = bytes(f.data)
                f.pending = []
                hit_file = p_
        t = ["session 1 (options lc=2,foc=0): two commits; clean process end without flush; byte %d of %s inverted (inside the first record)" % (off, (hit_file or "?").replace(root, ""))]
        out, log = ch.session(txn(3, [("6201", "b201")], sync=True) + txn(4, [("6202", "b202")], sync=True) + ["begin 9 ro", "scan 9 - ~ f", "drop 9"], "proc", opts="lc=2,foc=0")
        o2 = out[1] if len(out) > 1 else "no-answer"
        acked = [k for k, a in (("6201=", out[4] if len(out) > 4 else "-"), ("6202=", out[7] if len(out) > 7 else "-")) if a == "ok"]
        t.append("session 2: open = %s (repair); commits b201, b202: %s; PROCESS crash" % (o2[:120], " ".join(out[2:8])))
        if o2 != "ok" or not acked:
            ch.cleanup()
            text = t + ["   (open refused or nothing acknowledged: nothing to check)"]
            continue
        root, log2, sim = ch.cur
        ch.cut(lambda i, l, sim_: i == len(log2) - 1)
        out3, _ = ch.session(["begin 9 ro", "scan 9 - ~ f"], "proc", opts="lc=2,foc=0")
        res = (out3[1] if len(out3) > 1 else "no-answer"), (out3[3] if len(out3) > 3 else str(out3))
        t.append("session 3: open = %s, scan = %s" % (res[0], res[1][:200]))
        missing = [k for k in acked if k not in res[1]]
        hit = res[0] != "ok" or bool(missing)
        t.append(("   commits acknowledged after the repair are missing at the next open: %s" % missing) if hit else "   (not reproduced)")
        t += ["# scripts:"] + ["#  session %d (image policy %s): %s" % (i + 1, pl, " ; ".join(s_[1:])) for i, (pl, s_) in enumerate(ch.scripts)]
        ch.cleanup()
        if hit:
            return True, "\n".join(t)
        text = t
    return False, "\n".join(["(offsets tried: %s)" % (list(offsets),)] + text)


def relog_window():
    """one session, two committers (harness command `e2 relogwin`): committer A's batch does not fit the active memtable; inside
    `apply` it rotates the memtable and the WAL and wakes the flush, and is parked right there (yield point apply.woke), BEFORE it
    logs its batch again in the new segment.  The rotated memtable is flushed and the manifest switches to log_number = old
    segment + 1: A's only record now lies in a segment recovery ignores.  Committer B commits one key with immediate durability
    (record in the new segment).  Process crash (copy of the directory).  Reopen: B is there, A — earlier in the commit order — is not."""
    d = os.path.join(BASE, "relogwin")
    shutil.rmtree(d, ignore_errors=True)
    os.makedirs(os.path.join(d, "db"))
    img = os.path.join(d, "img")
    s1 = ["e2 newat %s/db" % d, "e2 open lc=2,mem=8192", "e2 begin 1 rw", "e2 set 1 6101 rep:3000:1", "e2 set 1 6102 rep:3000:2", "e2 commitsync 1",
          "e2 relogwin 2 2500 %s" % img]
    out = C.run_pairs([s1], sides=("impl",), timeout=120)[0]["impl"][0]
    ans = out[-1] if out else "no-answer"
    text = ["session 1 (options lc=2,mem=8192): txn1 {6101,6102 = 3000 bytes each} acknowledged; `e2 relogwin 2 2500`: " + ans]
    if "parked=true" not in ans or "flushed=true" not in ans or "image=true" not in ans:
        shutil.rmtree(d, ignore_errors=True)
        return False, "\n".join(text + ["   the window was not reached (not reproduced)"])
    s2 = ["e2 newat %s" % img, "e2 open lc=2,mem=8192", "e2 begin 9 ro", "e2 scan 9 - ~ f"]
    out2 = C.run_pairs([s2], sides=("impl",), timeout=120)[0]["impl"][0]
    res = (out2[1] if len(out2) > 1 else "no-answer"), (out2[3] if len(out2) > 3 else str(out2))
    text.append("session 2 (the crash image): open = %s, scan = %s" % (res[0], res[1][:300]))
    hit = res[0] == "ok" and "623030=" in res[1] and "613030=" not in res[1]
    text.append("   committer B's key (623030) is recovered, committer A's keys (613030, 613031; earlier in the commit order) are not: not a prefix of the commit order" if hit else "   (not reproduced)")
    text += ["# scripts:", "#  session 1: " + " ; ".join(s1[1:]), "#  session 2: " + " ; ".join(s2[1:])]
    shutil.rmtree(d, ignore_errors=True)
    return hit, "\n".join(text)


SCENARIOS = {
    # class name -> (property or properties, scenario); the two recovery-in-pieces scenarios are crashes INSIDE recovery:
    # they lose an acknowledged commit (C02), leave a state that is no prefix (C03) and make two opens differ (C07)
    "recovery_piece_part_of_txn_wal_unsynced": (("C03", "C07"), piece),
    "recovery_nonlast_split_marked_flushed": (("C02", "C03", "C07"), nonlast),
    "vlog_rotated_file_not_fsynced": ("C02", vlog_rotated),
    "acks_behind_torn_first_record_lost": ("C02", torn_first),
    "flush_before_relog_part_of_txn": ("C03", relog_race),
    "flush_before_relog_window": ("C03", relog_window),
    "empty_vlog_file_gets_no_header": ("C07", vlog_header),
    "torn_vlog_file_blocks_reopen": ("C07", vlog_torn_header),
    "torn_header_tail_not_cut": (("C02", "C03"), torn_header_tail),
    "appends_after_repair_lost": (("C02", "C12"), repair_then_append),
    "oversized_batch_logged_blocks_reopen": (("C02", "C07"), admission_boundary),
}


def directed(pid, res):
    """run the scenarios of property pid; a reproduced one is a known finding (if listed as open) or a violation"""
    kf = C.known_findings(pid)
    ran = {}
    for cls, (prop, fn) in SCENARIOS.items():
        if pid not in ((prop,) if isinstance(prop, str) else prop):
            continue
        hit, text = fn()
        ran[cls] = hit
        if not hit:
            continue
        head = "# property=%s\n# directed multi-session scenario `%s` (tools/repro/multigen.py %s)\n" % (pid, cls, fn.__name__)
        if cls in kf:
            path = C.write_replay(pid, "known_%s.txt" % cls, head + "# KNOWN class %s: %s\n" % (cls, kf[cls]) + text + "\n")
            res["known"].append("%s [class %s; replay: %s]" % (kf[cls], cls, path))
        else:
            res["violations"].append(("multi-session scenario `%s` reproduces (class %s, not listed as an open known finding): %s" % (
                fn.__name__, cls, text.splitlines()[-3][:300]), head + text + "\n", dict(verdict=cls)))
    res.setdefault("coverage", {}).setdefault("protocol_model", {})["directed_scenarios"] = ran
    return res
