"""RI engine for the range cursor of a transaction (`TransactionRangeIterator`), public API only:
implementation (harness `ri`) vs Txn/RangeIter.v (extracted, driver `ri`) vs the property oracle
= a reference cursor over the merged sorted list of live pairs inside the bounds.

Two kinds of cases:
  * sweep: one data set (committed pairs, write-set entries with values / tombstones, bounds) and
    EVERY cursor program up to a depth over an alphabet of operations, respecting the property's
    rule that only seeks follow an operation that left the cursor unpositioned.  Both sides walk
    the program tree themselves and answer with the number of operations and a digest of all
    answers; the oracle's digest is computed here.  A differing digest is diagnosed by running
    the programs one by one.
  * run: one data set and one (long) program; answers compared operation by operation.
"""
import bisect, itertools
from . import common as C

P = 0x100000001b3
M = (1 << 64) - 1
SEEKS = ("first", "last", "seek")


def hx(b):
    return b.hex() if b else "-"


def fnv_int(s):
    h = 0xcbf29ce484222325
    for x in s.encode():
        h = ((h ^ x) * P) & M
    return h


# ----------------------------------------------------------------------------- oracle
def in_bounds(k, lo, hi):
    return (lo is None or lo <= k) and (hi is None or k < hi)


def merged(committed, ws, lo, hi):
    """sorted live pairs of the transaction's view inside [lo, hi)"""
    view = dict(committed)
    for k, v in ws:
        if v is None:
            view.pop(k, None)
        else:
            view[k] = v
    return sorted((k, v) for k, v in view.items() if in_bounds(k, lo, hi))


def show(items, pos):
    if pos is None:
        return "invalid"
    k, v = items[pos]
    return "valid %s=%s" % (hx(k), hx(v))


def kind(op):
    return "seek" if op.startswith("seek:") else op


def ref_step(items, keys, fresh, pos, op):
    """reference cursor: position (index or None) after op"""
    n = len(items)
    k = kind(op)
    if k == "first" or (k == "next" and fresh):
        return 0 if n else None
    if k == "last" or (k == "prev" and fresh):
        return n - 1 if n else None
    if k == "seek":
        i = bisect.bisect_left(keys, bytes.fromhex(op[5:]) if op[5:] != "-" else b"")
        return i if i < n else None
    if pos is None:
        return None
    if k == "next":
        return pos + 1 if pos + 1 < n else None
    return pos - 1 if pos > 0 else None


def ref_run(items, prog):
    keys = [k for k, _ in items]
    out, pos, fresh = [], None, True
    for op in prog:
        pos = ref_step(items, keys, fresh, pos, op)
        fresh = False
        out.append(show(items, pos))
    return out


def ref_sweep(items, alphabet, depth):
    """(operations, digest, reversals on a positioned cursor) of the program tree; the digest is
    h := h * P + fnv(answer) in visiting order = composition of affine maps, memoised per
    (position, last direction, remaining depth)"""
    keys = [k for k, _ in items]
    oh = {None: fnv_int("invalid")}
    for i in range(len(items)):
        oh[i] = fnv_int(show(items, i))
    memo = {}

    def sub(pos, lastdir, d, fresh):
        key = (pos, lastdir, d, fresh)
        if key in memo:
            return memo[key]
        size, acc, rev = 0, 0, 0
        for op in alphabet:
            k = kind(op)
            if not fresh and pos is None and k not in SEEKS:
                continue
            p2 = ref_step(items, keys, fresh, pos, op)
            if not fresh and pos is not None and ((k == "next" and lastdir == "b") or (k == "prev" and lastdir == "f")):
                rev += 1
            d2 = "b" if k in ("last", "prev") else "f"
            size += 1
            acc = (acc * P + oh[p2]) & M
            if d > 1:
                n2, c2, r2 = sub(p2, d2, d - 1, False)
                acc = (acc * pow(P, n2, 1 << 64) + c2) & M
                size += n2
                rev += r2
        memo[key] = (size, acc, rev)
        return memo[key]

    return sub(None, "f", depth, True)


def programs_of(items, alphabet, depth):
    """the maximal programs of the sweep's tree, in visiting order"""
    keys = [k for k, _ in items]
    out = []

    def walk(prefix, pos, fresh):
        for op in alphabet:
            if not fresh and pos is None and kind(op) not in SEEKS:
                continue
            p2 = ref_step(items, keys, fresh, pos, op)
            prefix.append(op)
            if len(prefix) < depth:
                walk(prefix, p2, False)
            else:
                out.append(list(prefix))
            prefix.pop()

    walk([], None, True)
    return out


# ----------------------------------------------------------------------------- case text
def enc_committed(committed):
    return ",".join("%s=%s" % (hx(k), hx(v)) for k, v in committed) or "-"


def enc_ws(ws):
    return ",".join("%s=%s" % (hx(k), "!" if v is None else hx(v)) for k, v in ws) or "-"


def enc_b(b):
    return "~" if b is None else hx(b)


def data_text(case):
    committed, ws, lo, hi = case[:4]
    return "%s %s %s %s" % (enc_committed(committed), enc_ws(ws), enc_b(lo), enc_b(hi))


def sweep_line(case, alphabet, depth):
    return "ri sweep %s %s %d" % (data_text(case), ",".join(alphabet), depth)


def run_line(case, prog):
    return "ri run %s %s" % (data_text(case), ",".join(prog) or "-")


# ----------------------------------------------------------------------------- generation
def small_cases(keys):
    """every committed subset x every write-set (absent / value / tombstone per key)"""
    for smask in itertools.product((0, 1), repeat=len(keys)):
        committed = [(bytes([k]), bytes([k, 0])) for k, b in zip(keys, smask) if b]
        for wmask in itertools.product((0, 1, 2), repeat=len(keys)):
            ws = [(bytes([k]), bytes([k, 1]) if w == 1 else None) for k, w in zip(keys, wmask) if w]
            yield committed, ws


def alphabet_for(targets, lo, hi):
    return ["first", "last", "next", "prev"] + ["seek:%s" % hx(bytes([t])) for t in targets if in_bounds(bytes([t]), lo, hi)]


POOL = ["61", "6162", "616263", "62", "6200", "62ff", "63", "ff", "00", "6161", "7a", "61ff", "6100", "6263", "7a00", "0001"]


def random_case(rng):
    pool = [bytes.fromhex(k) for k in rng.sample(POOL, rng.randint(2, len(POOL)))]
    committed = sorted((k, k + b"\x00" + bytes([rng.randrange(256)])) for k in rng.sample(pool, rng.randint(0, min(10, len(pool)))))
    wkeys = rng.sample(pool, rng.randint(0, min(8, len(pool))))
    ws = sorted(((k, None if rng.random() < 0.4 else k + b"\x01") for k in wkeys), key=lambda e: e[0])
    r = rng.random()
    allk = sorted(pool)
    if r < 0.35:
        lo = hi = None
    elif r < 0.5:
        lo, hi = rng.choice(allk), None
    elif r < 0.65:
        lo, hi = None, rng.choice(allk)
    elif r < 0.92:
        a, b = sorted(rng.sample(allk, 2))
        lo, hi = a, b
    elif r < 0.96:
        lo = hi = rng.choice(allk)                      # empty range
    else:
        a, b = sorted(rng.sample(allk, 2))
        lo, hi = b, a                                   # inverted range
    items = merged(committed, ws, lo, hi)
    keys = [k for k, _ in items]
    targets = [k for k in allk + [k + b"\x00" for k in allk] if in_bounds(k, lo, hi)]
    prog, pos, fresh = [], None, True
    mode = rng.choice(["walk", "zigzag", "mixed"])
    for _ in range(rng.randint(8, 40)):
        opts = ["first", "last"] + (["seek:" + hx(rng.choice(targets))] if targets else [])
        if fresh or pos is not None:
            if mode == "zigzag":
                opts = ["next", "prev"] * 4 + opts
            elif mode == "walk":
                last = prog[-1] if prog and prog[-1] in ("next", "prev") else rng.choice(["next", "prev"])
                opts = [last] * 8 + ["next", "prev"] + opts
            else:
                opts = ["next", "prev"] * 2 + opts
        op = rng.choice(opts)
        pos = ref_step(items, keys, fresh, pos, op)
        fresh = False
        prog.append(op)
    return (committed, ws, lo, hi), prog


def has_reversal(items, prog):
    keys = [k for k, _ in items]
    pos, fresh, lastdir = None, True, "f"
    for op in prog:
        k = kind(op)
        if not fresh and pos is not None and ((k == "next" and lastdir == "b") or (k == "prev" and lastdir == "f")):
            return True
        pos = ref_step(items, keys, fresh, pos, op)
        fresh = False
        lastdir = "b" if k in ("last", "prev") else "f"
    return False


# ----------------------------------------------------------------------------- exploration
def replay_text(pid, why, line, impl, spec, model=None):
    t = "# property=%s\n# oracle: %s\n> %s\nIMPL:  %s\nSPEC:  %s\n" % (pid, why, line, impl, spec)
    if model is not None:
        t += "MODEL: %s\n" % model
    return t


def first_diff(a, b):
    for i, (x, y) in enumerate(zip(a, b)):
        if x != y:
            return i
    return min(len(a), len(b)) if len(a) != len(b) else None


def diagnose(case, alphabet, depth, sides):
    """a sweep digest differs: run its programs one by one; returns (shortest failing program line, impl, spec, model)"""
    items = merged(*case)
    progs = programs_of(items, alphabet, depth)
    lines = [run_line(case, p) for p in progs]
    shards = C.shard(list(range(len(lines))), C.NCPU)
    res = C.run_pairs([[lines[i] for i in sh] for sh in shards], sides=sides)
    best = None
    for sh, r in zip(shards, res):
        for j, i in enumerate(sh):
            exp = ref_run(items, progs[i])
            for side in sides:
                got = r[side][0][j].split(";") if j < len(r[side][0]) else ["<missing>"]
                d = first_diff(got, exp)
                if d is not None and (best is None or d < best[0]):
                    best = (d, progs[i][:d + 1], side)
    if best is None:
        return None
    prog = best[1]
    line = run_line(case, prog)
    r = C.run_pairs([[line]], sides=sides)[0]
    return line, r["impl"][0][0] if r["impl"][0] else "<missing>", ";".join(ref_run(items, prog)), \
        (r["model"][0][0] if "model" in r and r["model"][0] else None)


def explore(ctx, pid, n_quick=600, n_thorough=8000):
    rng = C.Rng(ctx["seed"] * 7919 + 11)
    thorough = ctx["tier"] != "quick"
    sweeps = []   # (case, alphabet, depth)
    k3, k4 = [1, 3, 5], [1, 3, 5, 7]
    if thorough:
        for c, w in small_cases(k4):
            sweeps.append(((c, w, None, None), alphabet_for([0, 3, 4, 8], None, None), 5))
        bounded = [(bytes([3]), None), (None, bytes([6])), (bytes([2]), bytes([6])), (bytes([3]), bytes([7])),
                   (bytes([4]), bytes([4])), (bytes([6]), bytes([2]))]
        allc = list(small_cases(k4))
        for c, w in allc:
            lo, hi = bounded[rng.randrange(len(bounded))]
            sweeps.append(((c, w, lo, hi), alphabet_for([2, 3, 4, 5, 6], lo, hi), 5))
    else:
        for c, w in small_cases(k3):
            sweeps.append(((c, w, None, None), alphabet_for([0, 3, 4, 6], None, None), 4))
        allc = list(small_cases(k4))
        for c, w in rng.sample(allc, 120):
            sweeps.append(((c, w, None, None), alphabet_for([0, 3, 4, 8], None, None), 5))
        for c, w in rng.sample(allc, 60):
            lo, hi = rng.choice([(bytes([3]), None), (None, bytes([6])), (bytes([2]), bytes([6])), (bytes([3]), bytes([7])),
                                 (bytes([4]), bytes([4])), (bytes([6]), bytes([2]))])
            sweeps.append(((c, w, lo, hi), alphabet_for([2, 3, 4, 5, 6], lo, hi), 4))
    runs = [random_case(rng) for _ in range(n_thorough if thorough else n_quick)]

    lines = [sweep_line(*s) for s in sweeps] + [run_line(c, p) for c, p in runs]
    shards = C.shard(list(range(len(lines))), C.NCPU)
    sides = ("impl", "model") if ctx["have_model"] else ("impl",)
    res = C.run_pairs([[lines[i] for i in sh] for sh in shards], sides=sides)
    out = dict(violations=[], disagreements=[], evaluations=0, nontrivial=0, compared=0, sweeps=len(sweeps), sweep_ops=0,
               runs=len(runs), reversals=0, max_depth=5 if (thorough or sweeps) else 0)
    ns = len(sweeps)
    for sh, r in zip(shards, res):
        impl = r["impl"][0]
        model = r["model"][0] if "model" in r else None
        for j, i in enumerate(sh):
            il = impl[j] if j < len(impl) else "<missing>"
            ml = (model[j] if j < len(model) else "<missing>") if model is not None else None
            if i < ns:
                case, alphabet, depth = sweeps[i]
                items = merged(*case)
                n, dig, rev = ref_sweep(items, alphabet, depth)
                exp = "swept n=%d digest=%016x" % (n, dig)
                out["evaluations"] += n
                out["sweep_ops"] += n
                out["reversals"] += rev
                out["nontrivial"] += 1 if rev else 0
                if il != exp or (ml is not None and ml != exp):
                    d = diagnose(case, alphabet, depth, sides)
                    if d is None:
                        out["disagreements"].append("sweep digests differ but no single program does: `%s` impl=%s model=%s oracle=%s" % (lines[i], il, ml, exp))
                        continue
                    line, di, ds, dm = d
                    if di != ds:
                        why = "range cursor differs from the reference cursor over the merged live list (found by the exhaustive sweep `%s`)" % lines[i][:160]
                        out["violations"].append((why + " [" + line + "]", replay_text(pid, why, line, di, ds, dm)))
                    if dm is not None and dm != di:
                        out["disagreements"].append("Txn/RangeIter.v and TransactionRangeIterator differ on `%s`: impl=%s model=%s" % (line, di, dm))
                elif ml is not None:
                    out["compared"] += n
            else:
                case, prog = runs[i - ns]
                items = merged(*case)
                exp = ";".join(ref_run(items, prog))
                out["evaluations"] += len(prog)
                if has_reversal(items, prog):
                    out["nontrivial"] += 1
                if il != exp:
                    d = first_diff(il.split(";"), exp.split(";"))
                    short = run_line(case, prog[:d + 1]) if d is not None else lines[i]
                    why = "range cursor differs from the reference cursor over the merged live list"
                    out["violations"].append((why + " [" + short + "]", replay_text(pid, why, lines[i], il, exp, ml)))
                elif ml is not None:
                    out["compared"] += len(prog)
                    if ml != il:
                        out["disagreements"].append("Txn/RangeIter.v and TransactionRangeIterator differ on `%s`: impl=%s model=%s" % (lines[i], il, ml))
    out["sample"] = lines[-1]
    out["sample_sweep"] = lines[0]
    return out


def merge(res, ri):
    """fold the RI engine's results into an E2 result"""
    res["violations"] = ri["violations"][:3] + res["violations"]
    res["disagreements"] += ri["disagreements"][:10]
    cov = res["coverage"]
    cov["evaluations"] = cov.get("evaluations", 0) + ri["evaluations"]
    cov["distinct_nontrivial"] = cov.get("distinct_nontrivial", 0) + ri["nontrivial"]
    cov["disagreements_checked"] = cov.get("disagreements_checked", 0) + ri["compared"]
    cov["range_cursor_sweeps"] = ri["sweeps"]
    cov["range_cursor_sweep_operations"] = ri["sweep_ops"]
    cov["range_cursor_sweep_reversals_on_positioned_cursor"] = ri["reversals"]
    cov["range_cursor_random_programs"] = ri["runs"]
    cov.setdefault("samples", []).extend([ri["sample_sweep"], ri["sample"]])
    return res


def replay(ctx):
    text = open(ctx["replay"]).read()
    lines = [l[2:] for l in text.splitlines() if l.startswith("> ")]
    sides = ("impl", "model") if ctx["have_model"] else ("impl",)
    r = C.run_pairs([lines], sides=sides)[0]
    bad = 0
    for i, l in enumerate(lines):
        print("> " + l)
        t = l.split(" ")
        g = r["impl"][0][i] if i < len(r["impl"][0]) else "<missing>"
        print("IMPL:  " + g)
        if "model" in r:
            print("MODEL: " + (r["model"][0][i] if i < len(r["model"][0]) else "<missing>"))
        if t[:2] == ["ri", "run"]:
            case = parse_data(t[2:6])
            prog = [] if t[6] == "-" else t[6].split(",")
            e = ";".join(ref_run(merged(*case), prog))
        elif t[:2] == ["ri", "sweep"]:
            case = parse_data(t[2:6])
            e = "swept n=%d digest=%016x" % ref_sweep(merged(*case), t[6].split(","), int(t[7]))[:2]
        else:
            e = "?"
        print("SPEC:  " + e)
        bad += g != e
    print("differing lines: %d" % bad)
    return 0


def unhx(s):
    return b"" if s == "-" else bytes.fromhex(s)


def parse_data(t):
    committed = [] if t[0] == "-" else [(unhx(x.split("=")[0]), unhx(x.split("=")[1])) for x in t[0].split(",")]
    ws = [] if t[1] == "-" else [(unhx(x.split("=")[0]), None if x.split("=")[1] == "!" else unhx(x.split("=")[1])) for x in t[1].split(",")]
    return committed, ws, None if t[2] == "~" else unhx(t[2]), None if t[3] == "~" else unhx(t[3])
