"""C13 — sorted tables return exactly what was written.

Engine E1 over the table facade (surrealkv::verif::table) and the extracted model
(Codec/{IKey,Separator,Bloom,Table}.v).  The implementation runs first; the block / index-partition
cut points it reports are handed to the model as its `chunking` argument (the theorems are
quantified over all chunkings).  Python holds the property oracle (a sorted list)."""
import re
from . import common as C

PARAM_SECTIONS = ["table"]

MODEL_TARGETS = ["theories/Codec/Table.vo", "theories/Codec/Bloom.vo", "theories/Codec/Separator.vo"]
TRUSTED = [
    "blocks are modelled as entry lists: prefix compression, varints, restart array, snappy and the block checksum are exercised "
    "by the differential run (every option combination) but not verified",
    "the data-block / index-partition cut points are taken from the implementation's own layout report (facade walk of the index); "
    "theorems hold for every cut",
    "bloom hash: transcribed in Codec/Bloom.v for the differential run; theorems take the hash as a section variable",
]
ASSUMPTIONS = [
    "a table file is read back as written (no I/O faults)",
    "keys handed to the writer are strictly increasing in the internal-key order (the writer asserts it)",
]
SEQ_MAX = (1 << 56) - 1
TS_MAX = (1 << 64) - 1


# ----------------------------------------------------------------------------- reference codecs
def hx(b):
    return b.hex() if b else "-"


def enc(k):
    uk, seq, kind, ts = k
    return uk + (((seq << 8) & (2 ** 64 - 1)) | kind).to_bytes(8, "big") + ts.to_bytes(8, "big")


def ikcmp(a, b):
    if a[0] != b[0]:
        return -1 if a[0] < b[0] else 1
    return (b[1] > a[1]) - (b[1] < a[1])


def ikey_sort_key(k):
    return (k[0], -k[1])


def show_key(k):
    return "%s:%d:%d:%d" % (hx(k[0]), k[1], k[2], k[3])


def show_val(v):
    return hx(v) if len(v) <= 32 else "#%d/%s" % (len(v), C.fnv(v))


def fnv_keys(keys):
    return C.fnv(b"".join(len(enc(k)).to_bytes(4, "big") + enc(k) for k in keys))


def val_bytes(tok):
    if tok.startswith("rep:"):
        _, l, s = tok.split(":")
        return C.rep(int(l), int(s))
    return b"" if tok == "-" else bytes.fromhex(tok)


# ----------------------------------------------------------------------------- generation
def gen_user_keys(rng, tier):
    fam = rng.choice(["prefix", "ff", "chain", "adjacent", "alphabet", "mixed", "mixed"])
    ks = set()
    n = rng.randint(1, 10 if tier == "quick" else 24)
    if fam in ("prefix", "mixed"):
        p = bytes(rng.choice([0x61, 0x00, 0xff, 0x7f]) for _ in range(rng.choice([4, 9, 17, 33])))
        for _ in range(n):
            ks.add(p + bytes(rng.choice([0, 1, 0x61, 0x62, 0xfe, 0xff]) for _ in range(rng.randint(0, 3))))
    if fam in ("ff", "mixed"):
        base = bytes(rng.choice([0x61, 0x62, 0xfe, 0xff]) for _ in range(rng.randint(0, 2)))
        for i in range(rng.randint(1, 4)):
            ks.add(base + b"\xff" * i)
        ks.add(base + b"\xff\xff" + bytes([rng.choice([0, 0x61, 0xfe])]))
        ks.add(b"\xff" * rng.randint(1, 3))
    if fam in ("chain", "mixed"):
        base = bytes(rng.choice([0x61, 0x62]) for _ in range(rng.randint(1, 3)))
        for i in range(rng.randint(1, 4)):
            ks.add(base + b"\x00" * i)
        ks.add(base + b"\x01")
        ks.add(base)
    if fam in ("adjacent", "mixed"):
        base = bytes(rng.choice([0x61, 0x10]) for _ in range(rng.randint(0, 3)))
        c = rng.choice([0x00, 0x61, 0xfd, 0xfe])
        ks.add(base + bytes([c]))
        ks.add(base + bytes([c + 1]))
        ks.add(base + bytes([c]) + b"\xff\xff")
        ks.add(base + bytes([c]) + b"\xff" + bytes([rng.choice([0x00, 0xfe])]))
    if fam == "alphabet":
        for _ in range(n):
            ks.add(bytes(rng.choice([0, 1, 0x61, 0x62, 0xfe, 0xff]) for _ in range(rng.randint(0, 4))))
    if rng.random() < 0.1:
        ks.add(b"")
    ks = sorted(ks)
    if len(ks) > (12 if tier == "quick" else 30):
        ks = sorted(rng.sample(ks, 12 if tier == "quick" else 30))
    return ks


def gen_value(rng):
    r = rng.random()
    if r < 0.25:
        return "-"
    if r < 0.6:
        return bytes(rng.randrange(256) for _ in range(rng.randint(1, 6))).hex()
    if r < 0.75:
        # looks like a vlog pointer: meta byte with bit 0 set, version 1, 25-byte pointer
        return (bytes([1, 1, 1]) + rng.randrange(1, 9).to_bytes(4, "big") + bytes(rng.randrange(256) for _ in range(20))).hex()
    return "rep:%d:%d" % (rng.choice([20, 33, 70, 150, 300]), rng.randrange(256))


def gen_table(rng, tier, name, tiny=False):
    uks = gen_user_keys(rng, tier)
    entries = []
    many = rng.choice(uks) if rng.random() < 0.7 else None
    for u in uks:
        nv = rng.choice([1, 1, 2, 3, 5])
        if u == many:
            nv = rng.choice([6, 12, 25] if tier == "quick" else [6, 12, 25, 60])
        seqs = set()
        top = rng.choice([max(50, 3 * nv), 1000, SEQ_MAX])
        while len(seqs) < nv:
            seqs.add(rng.choice([0, 1, top, rng.randint(0, min(top, 200)), rng.randint(0, top)]))
        for s in sorted(seqs, reverse=True):
            kind = rng.choice([2, 2, 2, 2, 0, 1, 6, 3, 5])
            ts = rng.choice([0, 0, 7, rng.randint(0, TS_MAX), TS_MAX])
            entries.append((u, s, kind, ts, gen_value(rng)))
    opts = dict(bs=rng.choice([8, 24, 40, 64, 100, 256, 4096]), ri=rng.choice([1, 2, 3, 16]),
                ips=rng.choice([1, 30, 60, 100, 16384]), z=rng.choice([0, 0, 1]), f=rng.choice([0, 10, 10, 10, 1, 4, 20]), lvl=rng.choice([0, 1, 3]))
    if tiny:
        opts["bs"] = rng.choice([0, 1, 7])
        entries = entries[:3]
    return dict(name=name, opts=opts, entries=entries)


def opt_str(o):
    return ",".join("%s=%d" % (k, o[k]) for k in ("bs", "ri", "ips", "z", "f", "lvl"))


def ent_str(es):
    return ",".join("%s:%d:%d:%d:%s" % (hx(u), s, k, t, v) for u, s, k, t, v in es) if es else "-"


def mutations(u):
    """keys around u: predecessor/successor shapes, truncations, the shapes separators take"""
    out = {u + b"\x00", u + b"\xff", u[:-1]} if u else {b"\x00"}
    for i in range(len(u)):
        if u[i] < 255:
            out.add(u[:i] + bytes([u[i] + 1]))
        if u[i] > 0:
            out.add(u[:i] + bytes([u[i] - 1]) + b"\xff")
            out.add(u[:i] + bytes([u[i] - 1]))
    return out


def bound_tok(kind, u):
    return "~" if kind == "~" else kind + hx(u)


def in_range(u, lo, hi):
    (lk, lu), (hk, hu) = lo, hi
    if lk == "i" and u < lu:
        return False
    if lk == "x" and u <= lu:
        return False
    if hk == "i" and u > hu:
        return False
    if hk == "x" and u >= hu:
        return False
    return True


def gen_commands(rng, tier, tab):
    """command lines + oracle specs for one table"""
    name, es = tab["name"], tab["entries"]
    keys = [(u, s, k, t) for u, s, k, t, _ in es]
    vals = [val_bytes(v) for *_, v in es]
    uks = sorted(set(u for u, *_ in es))
    lines = []

    def add(line, **m):
        lines.append((line, m))
    add("tbl build %s %s %s" % (name, opt_str(tab["opts"]), ent_str(es)), kind="build")
    if tab["opts"]["bs"] < 8:
        return lines
    add("tbl index %s" % name, kind="index")
    probes = set(uks)
    for u in uks:
        probes |= mutations(u)
    probes = sorted(probes)
    budget = 60 if tier == "quick" else 250
    # ---- point lookups
    gets = []
    for u in uks:
        seqs = sorted(set(s for uu, s, *_ in es if uu == u))
        cand = {0, SEQ_MAX, seqs[0], seqs[-1], max(seqs[0] - 1, 0), min(seqs[-1] + 1, SEQ_MAX)} | set(rng.sample(seqs, min(3, len(seqs))))
        for s in cand:
            gets.append((u, s))
    ukset = set(uks)
    absent = [p for p in probes if p not in ukset]
    for p in absent:
        gets.append((p, rng.choice([0, 5, SEQ_MAX])))
    if len(gets) > budget:
        gets = rng.sample(gets, budget)
    for u, s in gets:
        add("tbl get %s %s %d" % (name, hx(u), s), kind="get", uk=u, snap=s)
    for u in (uks if len(uks) <= 20 else rng.sample(uks, 20)) + rng.sample(absent, min(6, len(absent))):
        add("tbl filt %s %s" % (name, hx(u)), kind="filt", uk=u)
    # ---- range predicates
    shapes = [("~", b"")] + [(k, p) for k in "ix" for p in rng.sample(probes, min(len(probes), 5 if tier == "quick" else 12))]
    edge = [uks[0], uks[-1]]
    shapes += [(k, p) for k in "ix" for p in edge]
    for _ in range(12 if tier == "quick" else 50):
        lo, hi = rng.choice(shapes), rng.choice(shapes)
        for which in ("before", "after", "overlaps"):
            add("tbl pred %s %s %s %s" % (name, which, bound_tok(*lo), bound_tok(*hi)), kind="pred", which=which, lo=lo, hi=hi)
    for p in rng.sample(probes, min(len(probes), 10)) + edge:
        add("tbl pred %s inrange %s" % (name, hx(p)), kind="inrange", uk=p)
    # ---- cursors
    ref = Oracle(tab)
    ncur = 5 if tier == "quick" else 14
    for c in range(ncur):
        cid = "c%d" % c
        if c == 0:
            lo, hi = ("~", b""), ("~", b"")
        else:
            lo, hi = rng.choice(shapes), rng.choice(shapes)
            if c % 3 == 1:   # the engine's shape: included lower, excluded upper
                lo = ("i", lo[1]) if lo[0] != "~" else lo
                hi = ("x", hi[1]) if hi[0] != "~" else hi
        add("tbl cur %s %s open %s %s" % (name, cid, bound_tok(*lo), bound_tok(*hi)), kind="open", cid=cid, lo=lo, hi=hi)
        style = c if c < 3 else rng.randrange(3, 7)
        n = len(es)
        ref.cur[cid] = ("inv0",)
        wa, wb = ref.window(lo, hi)
        maxops = 45 if tier == "quick" else 120

        def emit(op):
            m = dict(kind="cur", cid=cid, op=op, lo=lo, hi=hi)
            ref.expect_cur(m)
            add("tbl cur %s %s %s" % (name, cid, op), **m)

        def rand_seek():
            if rng.random() < 0.6:
                u = rng.choice(uks)
                seqs = [s for uu, s, *_ in es if uu == u]
                s = rng.choice(seqs + [0, SEQ_MAX, max(0, rng.choice(seqs) - 1), min(SEQ_MAX, rng.choice(seqs) + 1)])
            else:
                u, s = rng.choice(probes), rng.choice([0, 3, SEQ_MAX])
            return "seek %s %d" % (hx(u), s)
        if style == 0 or style == 3:
            for op in ([] if rng.random() < 0.3 else ["first"]) + ["next"] * min(maxops, wb - wa + 2):
                emit(op)
        elif style == 1 or style == 4:
            for op in ([] if rng.random() < 0.3 else ["last"]) + ["prev"] * min(maxops, wb - wa + 2):
                emit(op)
        else:
            for _ in range(rng.randint(6, 14) if tier == "quick" else rng.randint(10, 40)):
                st = ref.cur.get(cid)
                known = st is not None and st[0] == "at"
                r = rng.random()
                if not known and r < 0.85:
                    r = rng.random() * 0.46
                if r < 0.3:
                    emit(rand_seek())
                elif r < 0.38:
                    emit("first")
                elif r < 0.46:
                    emit("last")
                elif r < 0.75:
                    emit("next")
                else:
                    emit("prev")
    return lines


# ----------------------------------------------------------------------------- oracle
class Oracle:
    """reference semantics over the sorted entry list"""

    def __init__(self, tab):
        self.es = tab["entries"]
        self.keys = [(u, s, k, t) for u, s, k, t, _ in self.es]
        self.vals = [val_bytes(v) for *_, v in self.es]
        self.opts = tab["opts"]
        self.cur = {}        # cid -> None (unknown) | ("at", i) | ("inv",)
        self.stats = dict(seek_below_lower=0, unjudged=0)

    def pos_line(self, i):
        if i is None:
            return "r=0 invalid"
        return "r=1 %s=%s" % (show_key(self.keys[i]), show_val(self.vals[i]))

    def window(self, lo, hi):
        idx = [i for i, k in enumerate(self.keys) if in_range(k[0], lo, hi)]
        if not idx:
            # position where the (empty) window sits does not matter
            return 0, 0
        return idx[0], idx[-1] + 1

    def judge(self, m, ans, layout):
        """returns None (ok / not judged) or a description of the violated clause"""
        k = m["kind"]
        if k == "build" and self.opts["bs"] < 8 and ans.startswith("PANIC:range end index"):
            return "KNOWN:tiny_block_size"
        if ans.startswith("PANIC") or ans.startswith("err") or ans == "<missing>" or ans == "bad-command":
            return "implementation failed: " + ans
        if k == "build":
            g = parse_build(ans)
            if not g:
                return "unparsable build answer"
            n = len(self.es)
            if g["n"] != n:
                return "table properties record %d entries, %d were written" % (g["n"], n)
            if sum(g["blocks"]) != n or any(b <= 0 for b in g["blocks"]):
                return "the data blocks hold %d entries, %d were written" % (sum(g["blocks"]), n)
            if sum(g["parts"]) != len(g["blocks"]):
                return "the index partitions address %d blocks, there are %d" % (sum(g["parts"]), len(g["blocks"]))
            firsts, lasts, p = [], [], 0
            for b in g["blocks"]:
                firsts.append(self.keys[p])
                lasts.append(self.keys[p + b - 1])
                p += b
            if g["firsts"] != fnv_keys(firsts) or g["lasts"] != fnv_keys(lasts):
                return "the data blocks do not hold the written entries in order"
            if g["range"] != "%s..%s" % (show_key(self.keys[0]), show_key(self.keys[-1])):
                return "smallest/largest key of the table metadata are not the first/last entry"
            if g["filter"] != (1 if self.opts["f"] else 0):
                return "filter block presence does not follow the filter policy"
            layout.update(g)
            return None
        if k == "get":
            u, snap = m["uk"], m["snap"]
            best = None
            for i, kk in enumerate(self.keys):
                if kk[0] == u and kk[1] <= snap and (best is None or kk[1] > self.keys[best][1]):
                    best = i
            want = "none" if best is None else "some:%s=%s" % (show_key(self.keys[best]), show_val(self.vals[best]))
            if ans != want:
                return "point lookup (%s, snapshot %d): expected %s" % (hx(u), snap, want)
            return None
        if k == "filt":
            if any(kk[0] == m["uk"] for kk in self.keys) and ans == "0":
                return "the filter denies a stored key"
            return None
        if k == "pred":
            inside = any(in_range(kk[0], m["lo"], m["hi"]) for kk in self.keys)
            if m["which"] in ("before", "after") and ans == "1" and inside:
                return "table reported %s the range but holds a key of the range" % m["which"]
            if m["which"] == "overlaps" and ans == "0" and inside:
                return "table reported as not overlapping the range but holds a key of the range"
            return None
        if k == "inrange":
            if ans == "0" and any(kk[0] == m["uk"] for kk in self.keys):
                return "is_key_in_key_range is false for a stored key"
            return None
        if k == "open":
            self.cur[m["cid"]] = ("inv0",)
            return None if ans == "ok" else "cursor could not be opened"
        if k == "cur":
            want = self.expect_cur(m)
            if want == "?":
                return None
            if ans != self.pos_line(want):
                return "cursor %s within [%s, %s]: expected %s" % (m["op"], bound_tok(*m["lo"]), bound_tok(*m["hi"]), self.pos_line(want))
            return None
        return None

    def expect_cur(self, m):
        """reference cursor: the entry index the step must land on, None = invalid, "?" = not judged"""
        a, b = self.window(m["lo"], m["hi"])
        st = self.cur.get(m["cid"])
        op = m["op"].split()
        want = "?"
        if op[0] == "first":
            want = a if a < b else None
        elif op[0] == "last":
            want = b - 1 if a < b else None
        elif op[0] == "seek":
            t = (b"" if op[1] == "-" else bytes.fromhex(op[1]), int(op[2]), 2, 0)
            j = len(self.keys)
            for i, kk in enumerate(self.keys):
                if ikcmp(kk, t) >= 0:
                    j = i
                    break
            n = len(self.keys)
            if j < n and not self.above_lower(self.keys[j][0], m["lo"]):
                self.stats["seek_below_lower"] += 1
                want = "?"
            elif j < n and in_range(self.keys[j][0], m["lo"], m["hi"]):
                want = j
            else:
                want = None
        elif op[0] == "next":
            if st and st[0] == "at":
                want = st[1] + 1 if st[1] + 1 < b else None
            elif st and st[0] == "inv0":       # "auto-position on first call"
                want = a if a < b else None
        elif op[0] == "prev":
            if st and st[0] == "at":
                want = st[1] - 1 if st[1] - 1 >= a else None
            elif st and st[0] == "inv0":
                want = b - 1 if a < b else None
        if want == "?":
            self.stats["unjudged"] += 1
            self.cur[m["cid"]] = None
        else:
            self.cur[m["cid"]] = ("at", want) if want is not None else ("inv",)
        return want

    @staticmethod
    def above_lower(u, lo):
        return in_range(u, lo, ("~", b""))


BUILD_RE = re.compile(r"ok n=(\d+) blocks=([\d.]+) parts=([\d.]+) idx=(\w+) top=(\w+) firsts=(\w+) lasts=(\w+) range=(\S+) filter=(\d)$")


def parse_build(ans):
    m = BUILD_RE.match(ans)
    if not m:
        return None
    return dict(n=int(m.group(1)), blocks=[int(x) for x in m.group(2).split(".")], parts=[int(x) for x in m.group(3).split(".")],
                idx=m.group(4), top=m.group(5), firsts=m.group(6), lasts=m.group(7), range=m.group(8), filter=int(m.group(9)))


# ----------------------------------------------------------------------------- pure-function cases
def bw_oracle(kind, a, b, ans):
    r = b"" if ans == "-" else bytes.fromhex(ans)
    if kind == "sep":
        if a < b and not (a <= r < b):
            return "separator(a,b) is not in [a, b)"
        if a >= b and r != a:
            return "separator(a,b) changed a although a >= b"
        if len(r) > len(a):
            return "separator longer than a"
    else:
        if not r >= a:
            return "successor(a) < a"
    return None


def dec(e):
    n = len(e) - 16
    t = int.from_bytes(e[n:n + 8], "big")
    return (e[:n], t >> 8, t & 255, int.from_bytes(e[n + 8:], "big"))


def ik_oracle(kind, a, b, ans):
    try:
        r = dec(bytes.fromhex(ans))
    except Exception:
        return "unparsable answer"
    ka = dec(a)
    if kind == "sep":
        kb = dec(b)
        if ikcmp(ka, kb) < 0 and not (ikcmp(ka, r) <= 0 and ikcmp(r, kb) < 0):
            return "internal separator(a,b) is not in [a, b)"
    else:
        if ikcmp(ka, r) > 0:
            return "internal successor(a) < a"
    return None


def gen_pure(rng, tier):
    lines = []
    alpha = [0x00, 0x01, 0x61, 0xfe, 0xff]
    small = [b""]
    for L in (1, 2, 3):
        small += [bytes(x) for x in __import__("itertools").product(alpha, repeat=L)]
    pairs = [(a, b) for a in small for b in small]
    if tier == "quick":
        pairs = rng.sample(pairs, 4000)
    for _ in range(1500 if tier == "quick" else 10000):
        p = bytes(rng.choice(alpha + [rng.randrange(256)]) for _ in range(rng.randint(0, 12)))
        a = p + bytes(rng.choice(alpha + [rng.randrange(256)]) for _ in range(rng.randint(0, 4)))
        b = p + bytes(rng.choice(alpha + [rng.randrange(256)]) for _ in range(rng.randint(0, 4)))
        pairs.append((a, b))
    for a, b in pairs:
        lines.append(("tbl sep bytewise %s %s" % (hx(a), hx(b)), dict(kind="bwsep", a=a, b=b)))
    for a in small + [p[0] for p in pairs[-300:]]:
        lines.append(("tbl succ bytewise %s" % hx(a), dict(kind="bwsucc", a=a)))
    ipairs = rng.sample(pairs, 2500 if tier == "quick" else 12000)
    for a, b in ipairs:
        sa = rng.choice([0, 1, 5, SEQ_MAX, rng.randint(0, SEQ_MAX)])
        sb = rng.choice([0, 1, 5, SEQ_MAX, sa, rng.randint(0, SEQ_MAX)])
        ka = (a, sa, rng.choice([0, 2, 6, 7, 24]), rng.choice([0, TS_MAX, 9]))
        kb = (b, sb, rng.choice([0, 2, 6, 7, 24]), rng.choice([0, TS_MAX, 9]))
        lines.append(("tbl sep internal %s %s" % (enc(ka).hex(), enc(kb).hex()), dict(kind="iksep", a=enc(ka), b=enc(kb))))
        lines.append(("tbl cmp %s %s" % (enc(ka).hex(), enc(kb).hex()), dict(kind="cmp", a=ka, b=kb)))
        if rng.random() < 0.3:
            lines.append(("tbl succ internal %s" % enc(ka).hex(), dict(kind="iksucc", a=enc(ka))))
            lines.append(("tbl enc %s %d %d %d" % (hx(ka[0]), ka[1], ka[2], ka[3]), dict(kind="enc", a=ka)))
            lines.append(("tbl dec %s" % enc(ka).hex(), dict(kind="dec", a=ka)))
    for _ in range(300 if tier == "quick" else 3000):
        d = bytes(rng.randrange(256) for _ in range(rng.randint(0, 23)))
        lines.append(("tbl hash %s %d" % (hx(d), rng.choice([0, 0xbc9f1d34, rng.randrange(2 ** 32)])), dict(kind="hash")))
    for _ in range(150 if tier == "quick" else 1500):
        ks = [bytes(rng.choice(alpha + [rng.randrange(256)]) for _ in range(rng.randint(0, 9))) for _ in range(rng.randint(1, 40))]
        pr = ks[:10] + [bytes(rng.randrange(256) for _ in range(rng.randint(0, 9))) for _ in range(10)]
        bpk = rng.choice([10, 10, 1, 2, 4, 7, 20, 50])
        lines.append(("tbl bloom %d %s %s" % (bpk, ",".join(hx(k) for k in ks), ",".join(hx(k) for k in pr)),
                      dict(kind="bloom", keys=ks, probes=pr)))
    lines.append(("tbl params", dict(kind="params")))
    return lines


def judge_pure(m, ans):
    k = m["kind"]
    if ans.startswith("PANIC") or ans.startswith("err") or ans in ("<missing>", "bad-command"):
        return "implementation failed: " + ans
    if k == "bwsep":
        return bw_oracle("sep", m["a"], m["b"], ans)
    if k == "bwsucc":
        return bw_oracle("succ", m["a"], None, ans)
    if k == "iksep":
        return ik_oracle("sep", m["a"], m["b"], ans)
    if k == "iksucc":
        return ik_oracle("succ", m["a"], None, ans)
    if k == "cmp":
        return None if int(ans) == ikcmp(m["a"], m["b"]) else "InternalKeyComparator::compare is not (user key asc, seq desc)"
    if k == "enc":
        return None if ans == enc(m["a"]).hex() else "InternalKey::encode is not user_key ++ be64(seq<<8|kind) ++ be64(ts)"
    if k == "dec":
        return None if ans == show_key(m["a"]) else "InternalKey::decode does not invert encode"
    if k == "bloom":
        pm = re.search(r"probes=([01]+)$", ans)
        if not pm:
            return "unparsable answer"
        for p, bit in zip(m["probes"], pm.group(1)):
            if p in m["keys"] and bit == "0":
                return "bloom filter denies a key it was built from"
    return None


# ----------------------------------------------------------------------------- engine
def with_chunking(line, layout):
    return "%s %s %s" % (line, ".".join(map(str, layout["blocks"])), ".".join(map(str, layout["parts"])))


def run_cases(tabs_lines, pure_lines, have_model):
    """tabs_lines: list of (tab, lines).  Returns (per-table impl answers, model answers, pure answers)"""
    nsh = C.NCPU
    shards = [[] for _ in range(nsh)]
    owner = [[] for _ in range(nsh)]
    for ti, (tab, lines) in enumerate(tabs_lines):
        s = ti % nsh
        for li, (l, _) in enumerate(lines):
            shards[s].append(l)
            owner[s].append(("t", ti, li))
    for pi, (l, _) in enumerate(pure_lines):
        s = pi % nsh
        shards[s].append(l)
        owner[s].append(("p", pi, 0))
    live = [i for i in range(nsh) if shards[i]]
    impl = C.run_pairs([shards[i] for i in live], sides=("impl",))
    t_impl = [["<missing>"] * len(lines) for _, lines in tabs_lines]
    p_impl = ["<missing>"] * len(pure_lines)
    problems = []
    for i, r in zip(live, impl):
        out = r["impl"][0]
        if len(out) != len(shards[i]):
            problems.append("implementation side produced %d answers for %d commands: %s" % (len(out), len(shards[i]), r["impl"][1][-300:]))
        for o, a in zip(owner[i], out):
            if o[0] == "t":
                t_impl[o[1]][o[2]] = a
            else:
                p_impl[o[1]] = a
    t_model = p_model = None
    if have_model:
        mshards = []
        for i in live:
            ml = []
            for o, l in zip(owner[i], shards[i]):
                if o[0] == "t" and o[2] == 0:
                    g = parse_build(t_impl[o[1]][0])
                    ml.append(with_chunking(l, g) if g else l)
                else:
                    ml.append(l)
            mshards.append(ml)
        model = C.run_pairs(mshards, sides=("model",))
        t_model = [["<missing>"] * len(lines) for _, lines in tabs_lines]
        p_model = ["<missing>"] * len(pure_lines)
        for i, r in zip(live, model):
            out = r["model"][0]
            if len(out) != len(shards[i]):
                problems.append("model side produced %d answers for %d commands: %s" % (len(out), len(shards[i]), r["model"][1][-300:]))
            for o, a in zip(owner[i], out):
                if o[0] == "t":
                    t_model[o[1]][o[2]] = a
                else:
                    p_model[o[1]] = a
    return t_impl, t_model, p_impl, p_model, problems


def failing_script(tab, lines, idx, layout=None):
    """the build line and the commands the failing one depends on"""
    keep = [0]
    m = lines[idx][1]
    if m["kind"] == "cur":
        keep += [i for i in range(1, idx) if lines[i][1].get("cid") == m["cid"] and lines[i][1]["kind"] in ("open", "cur")]
    if idx != 0:
        keep.append(idx)
    return keep


def first_failure(tab, lines, answers):
    orc = Oracle(tab)
    layout = {}
    for i, ((l, m), a) in enumerate(zip(lines, answers)):
        bad = orc.judge(m, a, layout)
        if bad:
            return i, bad
    return None


def shrink(tab, lines, idx, bad):
    """greedy entry removal / option simplification keeping the same oracle clause failing"""
    keep = failing_script(tab, lines, idx)
    cur_tab = dict(tab)
    cur_lines = [lines[i] for i in keep]

    def still_fails(t, ls):
        ls = [("tbl build %s %s %s" % (t["name"], opt_str(t["opts"]), ent_str(t["entries"])), ls[0][1])] + ls[1:]
        r = C.run_pairs([[l for l, _ in ls]], sides=("impl",))[0]["impl"][0]
        r = r + ["<missing>"] * (len(ls) - len(r))
        f = first_failure(t, ls, r)
        return (ls, r) if f and f[0] == len(ls) - 1 else None
    got = still_fails(cur_tab, cur_lines)
    if not got:
        return cur_tab, cur_lines, None
    cur_lines, answers = got
    runs = 0
    changed = True
    while changed and runs < 150:
        changed = False
        es = cur_tab["entries"]
        step = max(1, len(es) // 2)
        while step >= 1 and runs < 150:
            i = 0
            while i < len(cur_tab["entries"]) and runs < 150:
                es = cur_tab["entries"]
                cand = es[:i] + es[i + step:]
                if cand:
                    t2 = dict(cur_tab, entries=cand)
                    runs += 1
                    g = still_fails(t2, cur_lines)
                    if g:
                        cur_tab, (cur_lines, answers) = t2, g
                        changed = True
                        continue
                i += step
            step //= 2
    return cur_tab, cur_lines, answers


def explore(ctx):
    rng = C.Rng(ctx["seed"] * 104729 + 13)
    tier = ctx["tier"]
    ntab = 480 if tier == "quick" else 4000
    tabs_lines = []
    for i in range(ntab):
        tab = gen_table(rng, tier, "t%d" % i, tiny=(i % 24 == 23))
        tabs_lines.append((tab, gen_commands(rng, tier, tab)))
    pure = gen_pure(rng, tier)
    t_impl, t_model, p_impl, p_model, problems = run_cases(tabs_lines, pure, ctx["have_model"])
    res = dict(violations=[], known=[], disagreements=list(problems))
    kf = C.known_findings("C13")
    stats = dict(evaluations=0, compared=0, kinds={}, nontrivial=set(), seek_below_lower=0, unjudged=0,
                 straddle_block=0, straddle_part=0, multi_block=0, multi_part=0, opts=set())
    for ti, (tab, lines) in enumerate(tabs_lines):
        orc = Oracle(tab)
        layout = {}
        failed = False
        for i, ((l, m), a) in enumerate(zip(lines, t_impl[ti])):
            stats["evaluations"] += 1
            stats["kinds"][m["kind"]] = stats["kinds"].get(m["kind"], 0) + 1
            bad = None if failed else orc.judge(m, a, layout)
            if bad and bad.startswith("KNOWN:") and bad[6:] in kf:
                res["known"].append(kf[bad[6:]])
                stats["known_hits"] = stats.get("known_hits", 0) + 1
                continue
            if bad and bad.startswith("KNOWN:"):
                bad = "TableWriter::add panics on the first key when block_size < 8 (flushes the empty block: separator of an empty last key)"
            if bad and len(res["violations"]) < 3:
                failed = True
                st, sl, sa = shrink(tab, lines, i, bad)
                text = ["# property=C13", "# oracle: " + bad, "# shrunk from table %s (%d entries) to %d entries" % (tab["name"], len(tab["entries"]), len(st["entries"]))]
                sa = sa or []
                g = parse_build(sa[0]) if sa else None
                for j, (sl_l, _) in enumerate(sl):
                    text.append("> " + (with_chunking(sl_l, g) if j == 0 and g else sl_l))
                    if j < len(sa):
                        text.append("IMPL:  " + sa[j])
                res["violations"].append((bad + " [" + l[:160] + "]", "\n".join(text) + "\n"))
            elif bad:
                failed = True
            if t_model is not None:
                ml = t_model[ti][i]
                stats["compared"] += 1
                if ml != a and len(res["disagreements"]) < 50:
                    res["disagreements"].append("model and implementation differ on `%s` (table %s %s): impl=%s model=%s" %
                                                (l if i else l[:80], tab["name"], opt_str(tab["opts"]), a[:200], ml[:200]))
            if m["kind"] in ("get", "cur") and a not in ("none", "r=0 invalid"):
                stats["nontrivial"].add((ti, l))
        stats["seek_below_lower"] += orc.stats["seek_below_lower"]
        stats["unjudged"] += orc.stats["unjudged"]
        if layout:
            stats["opts"].add(opt_str(tab["opts"]))
            bl, pa = layout["blocks"], layout["parts"]
            stats["multi_block"] += len(bl) > 1
            stats["multi_part"] += len(pa) > 1
            # user keys whose versions straddle a block / partition boundary
            p, ends = 0, []
            for b in bl:
                p += b
                ends.append(p)
            pends, q = [], 0
            for c in pa:
                q += c
                pends.append(ends[q - 1])
            ks = orc.keys
            stats["straddle_block"] += sum(1 for e in ends[:-1] if ks[e - 1][0] == ks[e][0])
            stats["straddle_part"] += sum(1 for e in pends[:-1] if ks[e - 1][0] == ks[e][0])
    for pi, ((l, m), a) in enumerate(zip(pure, p_impl)):
        stats["evaluations"] += 1
        stats["kinds"][m["kind"]] = stats["kinds"].get(m["kind"], 0) + 1
        bad = judge_pure(m, a)
        if bad and len(res["violations"]) < 5:
            text = "# property=C13\n# oracle: %s\n> %s\nIMPL:  %s\n" % (bad, l, a)
            if p_model is not None:
                text += "MODEL: %s\n" % p_model[pi]
            res["violations"].append((bad + " [" + l[:160] + "]", text))
        if p_model is not None:
            stats["compared"] += 1
            if p_model[pi] != a and len(res["disagreements"]) < 50:
                res["disagreements"].append("model and implementation differ on `%s`: impl=%s model=%s" % (l[:200], a[:200], p_model[pi][:200]))
        if m["kind"] in ("bwsep", "iksep") and "a" in m and a != hx(m["a"]) and a != m["a"].hex():
            stats["nontrivial"].add(("p", l))
    if not ctx["have_model"]:
        res["disagreements"].append("model side unavailable (extraction/driver did not build)")
    samples = [tabs_lines[0][1][0][0][:300]] + [l for l, _ in tabs_lines[0][1][2:5]] + [pure[0][0], pure[-2][0][:200]]
    res["coverage"] = {
        "evaluations": stats["evaluations"],
        "distinct_nontrivial": len(stats["nontrivial"]),
        "rule": "tables from adversarial user-key families (long shared prefixes, 0xff-terminated keys, a key that is a prefix of the next, "
                "adjacent last bytes, the empty key, all-0xff keys) with 1..25(60) versions per key, seq in {0, 1, SEQ_MAX, random}, all kinds, "
                "empty / short / long / pointer-shaped values; options block_size in {1,24,40,64,100,256,4096} x restart interval {1,2,3,16} x "
                "index partition size {1,30,60,100,16384} x snappy on/off x filter off/bits-per-key {1,4,10,20} x level; per table: point lookups at "
                "every stored key x snapshots {0, SEQ_MAX, each edge seq +-1, samples} and at absent keys derived from every stored key "
                "(k+00, k+ff, truncations, byte+-1 at every position = before/between/after and separator-shaped keys); filter probes; "
                "is_before/after/overlaps for random pairs of bound shapes (unbounded/included/excluded); is_key_in_key_range; cursors over "
                "iter(range) for all bound shapes: full forward scan, full backward scan, random walks of seek/first/last/next/prev with "
                "direction changes; pure functions: bytewise separator/successor on all pairs over {00,01,61,fe,ff}^<=3 (sampled in quick) and "
                "random long-prefix pairs, internal separator/successor/compare/encode/decode on random keys, bloom create/may_contain, bloom hash. "
                "non-trivial = distinct lookups/cursor steps returning an entry + separator calls that change their input",
        "samples": samples,
        "programs": len(tabs_lines), "disagreements_checked": stats["compared"],
        "op_mix": stats["kinds"],
        "tables_with_several_blocks": stats["multi_block"], "tables_with_several_index_partitions": stats["multi_part"],
        "block_boundaries_inside_one_user_key": stats["straddle_block"], "partition_boundaries_inside_one_user_key": stats["straddle_part"],
        "option_combinations": len(stats["opts"]),
        "known_class_hits": stats.get("known_hits", 0),
        "cursor_steps_not_judged_by_oracle": stats["unjudged"], "seeks_below_lower_bound": stats["seek_below_lower"],
        "exhaustive": False,
    }
    return res


def replay(ctx):
    text = open(ctx["replay"]).read()
    lines = [l[2:] for l in text.splitlines() if l.startswith("> ")]
    if not lines:
        print(text)
        return 1
    r = C.run_pairs([lines], sides=("impl", "model") if ctx["have_model"] else ("impl",))[0]
    for i, l in enumerate(lines):
        print("> " + l)
        print("IMPL:  " + (r["impl"][0][i] if i < len(r["impl"][0]) else "<missing>"))
        if "model" in r:
            print("MODEL: " + (r["model"][0][i] if i < len(r["model"][0]) else "<missing>"))
    return 0
