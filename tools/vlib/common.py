"""Shared machinery of tools/check: build steps, audit, paired execution, verdicts, evidence."""
import fcntl, hashlib, json, os, re, subprocess, sys, time, random

VERIF = os.path.dirname(os.path.dirname(os.path.dirname(os.path.abspath(__file__))))
REPO = os.environ.get("VERIF_REPO", "/repo")
COQ = os.path.join(VERIF, "coq")
DRIVER = os.path.join(VERIF, "driver")
HARNESS = os.path.join(VERIF, "harness")
CACHE = os.path.join(VERIF, ".cache")
TARGET = os.path.join(CACHE, "target")
HARNESS_BIN = os.path.join(TARGET, "release", "verif-harness")
DRIVER_BIN = os.path.join(DRIVER, "skv_driver")
NCPU = 16

ENV = dict(os.environ, CARGO_NET_OFFLINE="true", RUSTFLAGS="--cfg surrealkv_verif", CARGO_TARGET_DIR=TARGET)

KERNEL_TB = [
    "Coq 8.16.1 kernel (coqc, full .vo build; coqchk in thorough tier); vm_compute used in side-condition proofs; no native_compute",
    "no Axiom/Parameter/Admitted in the development (grep audit + Print Assumptions on every property theorem on every run)",
    "tools/gen_params.py (regex translator from /repo sources to Params.v), cross-checked against the compiled crate's constants",
    "Coq extraction (ExtrOcamlBasic only: bool/option/list/prod/unit/sumbool mapped; no Extract Constant; N/positive/nat/Z extracted as datatypes), ocamlfind ocamlopt, driver/main.ml",
    "Rust harness (/verif/harness), hook facade src/verif (cfg surrealkv_verif), script generators and the line differ in tools/vlib",
]


class Lock:
    def __init__(self, name):
        os.makedirs(CACHE, exist_ok=True)
        self.path = os.path.join(CACHE, name + ".lock")

    def __enter__(self):
        self.f = open(self.path, "w")
        fcntl.flock(self.f, fcntl.LOCK_EX)

    def __exit__(self, *a):
        fcntl.flock(self.f, fcntl.LOCK_UN)
        self.f.close()


def run(cmd, cwd=None, timeout=1800, env=None, inp=None):
    p = subprocess.run(cmd, cwd=cwd, env=env or ENV, input=inp, stdout=subprocess.PIPE, stderr=subprocess.STDOUT,
                       timeout=timeout, text=True, shell=isinstance(cmd, str))
    return p.returncode, p.stdout


class Broken(Exception):
    """a proof obligation / build step / correspondence no longer checks"""

    def __init__(self, what, detail):
        super().__init__(what)
        self.what = what
        self.detail = detail


# --------------------------------------------------------------------------- build steps
def gen_params():
    rc, out = run([sys.executable, os.path.join(VERIF, "tools", "gen_params.py")])
    if rc != 0:
        raise Broken("Params.v generation (translator anchor lost)", out)
    return out.strip()


def coq_make(targets):
    """build the given .vo targets (and their dependencies) with the project Makefile"""
    with Lock("coq"):
        if not os.path.exists(os.path.join(COQ, "Makefile")) or \
                os.path.getmtime(os.path.join(COQ, "Makefile")) < os.path.getmtime(os.path.join(COQ, "_CoqProject")):
            rc, out = run("coq_makefile -f _CoqProject -o Makefile", cwd=COQ)
            if rc != 0:
                raise Broken("coq_makefile", out)
        cmd = "ulimit -v 24000000; timeout 3000 make -j%d %s" % (NCPU, " ".join(targets))
        rc, out = run(cmd, cwd=COQ, timeout=3100)
        if rc != 0:
            raise Broken("Coq build: " + " ".join(targets), out[-6000:])
        return cmd, out


def coqchk(pid):
    """thorough tier: re-check Props/<pid>.vo and everything it depends on with the independent checker"""
    cmd = "ulimit -v 24000000; timeout 2400 coqchk -o -silent -Q theories SKV SKV.Props.%s" % pid
    rc, out = run(cmd, cwd=COQ, timeout=2500)
    tail = out[-1500:]
    want = ["Axioms: <none>", "type-in-type: <none>", "unsafe (co)fixpoints: <none>", "positivity is assumed: <none>"]
    if rc != 0 or any(w not in tail for w in want):
        raise Broken("coqchk -o SKV.Props.%s" % pid, tail)
    return cmd


def props_items(pid):
    path = os.path.join(COQ, "theories", "Props", pid + ".v")
    text = open(path).read()
    text_nc = re.sub(r"\(\*.*?\*\)", "", text, flags=re.S)
    thms = re.findall(r"^\s*(?:Theorem|Lemma|Example|Corollary)\s+(\w+)", text_nc, re.M)
    return path, text, thms


FORBIDDEN = re.compile(r"\b(Admitted|admit|Axiom|Axioms|Parameter|Parameters|Conjecture|Conjectures|Abort All|"
                       r"Unset\s+Guard\s+Checking|Unset\s+Positivity\s+Checking|Unset\s+Universe\s+Checking|"
                       r"bypass_check|Admit\s+Obligations|native_compute)\b")
ALLOWED_AXIOMS = set()  # the development uses none; std-lib axioms would have to be named here


def audit(pid):
    """grep audit over the whole development + Print Assumptions on every theorem of Props/<pid>.v"""
    bad = []
    for root, _, files in os.walk(os.path.join(COQ, "theories")):
        for fn in files:
            if not fn.endswith(".v"):
                continue
            p = os.path.join(root, fn)
            t = re.sub(r"\(\*.*?\*\)", "", open(p).read(), flags=re.S)
            for m in FORBIDDEN.finditer(t):
                bad.append("%s: %s" % (os.path.relpath(p, VERIF), m.group(0)))
            # Variable/Hypothesis outside a section
            depth = 0
            for line in t.splitlines():
                s = line.strip()
                if re.match(r"Section\s+\w+", s):
                    depth += 1
                elif re.match(r"End\s+\w+\s*\.", s) and depth > 0:
                    depth -= 1
                elif depth == 0 and re.match(r"(Variable|Variables|Hypothesis|Hypotheses|Context)\b", s):
                    bad.append("%s: %s outside a section" % (os.path.relpath(p, VERIF), s.split()[0]))
    if bad:
        raise Broken("audit: forbidden declaration in the Coq development", "\n".join(bad))
    path, text, thms = props_items(pid)
    if not thms:
        raise Broken("audit: Props/%s.v states no theorem" % pid, "")
    os.makedirs(os.path.join(CACHE, "audit"), exist_ok=True)
    af = os.path.join(CACHE, "audit", "Audit_%s.v" % pid)
    with open(af, "w") as f:
        f.write("From SKV Require Import Props.%s.\n" % pid)
        for t in thms:
            f.write('Goal True. idtac "ASSUMPTIONS-OF %s". exact I. Qed.\nPrint Assumptions %s.\n' % (t, t))
    rc, out = run("timeout 600 coqc -Q %s SKV %s" % (os.path.join(COQ, "theories"), af), cwd=os.path.join(CACHE, "audit"))
    if rc != 0:
        raise Broken("audit: Print Assumptions run failed", out[-3000:])
    assumptions = {}
    cur = None
    for line in out.splitlines():
        m = re.match(r"ASSUMPTIONS-OF (\w+)", line)
        if m:
            cur = m.group(1)
            assumptions[cur] = []
        elif cur and line.strip():
            assumptions[cur].append(line.rstrip())
    for t in thms:
        body = "\n".join(assumptions.get(t, []))
        if "Closed under the global context" in body:
            continue
        names = re.findall(r"^(\S+)\s*:", body, re.M)
        extra = [n for n in names if n not in ALLOWED_AXIOMS]
        if extra or not body:
            raise Broken("audit: theorem %s depends on axioms %s" % (t, extra), body)
    return thms, assumptions


def extract_imports():
    """the .vo files driver/Extract.v imports (they must be consistent with the current Params.vo
    whichever property is being checked)"""
    t = open(os.path.join(DRIVER, "Extract.v")).read()
    m = re.search(r"From SKV Require Import\s+(.*?)\.\s*\n", t, re.S)
    return ["theories/%s.vo" % x.replace(".", "/") for x in m.group(1).split()] if m else []


def build_driver():
    coq_make(extract_imports())
    with Lock("driver"):
        src = [os.path.join(DRIVER, "Extract.v"), os.path.join(DRIVER, "main.ml")]
        vo = []
        for root, _, files in os.walk(os.path.join(COQ, "theories")):
            vo += [os.path.join(root, f) for f in files if f.endswith(".vo")]
        newest = max(os.path.getmtime(p) for p in src + vo)
        if os.path.exists(DRIVER_BIN) and os.path.getmtime(DRIVER_BIN) >= newest:
            return "driver up to date"
        rc, out = run("timeout 900 coqc -Q %s SKV Extract.v" % os.path.join(COQ, "theories"), cwd=DRIVER)
        if rc != 0:
            raise Broken("extraction (driver/Extract.v)", out[-3000:])
        rc, out = run("timeout 900 ocamlfind ocamlopt -O2 -w -a skv_model.mli skv_model.ml main.ml -o skv_driver", cwd=DRIVER)
        if rc != 0:
            raise Broken("OCaml driver build", out[-3000:])
        return "driver rebuilt"


def build_harness():
    with Lock("harness"):
        lock_src = os.path.join(REPO, "Cargo.lock")
        lock_dst = os.path.join(HARNESS, "Cargo.lock")
        if not os.path.exists(lock_dst):
            import shutil
            shutil.copy(lock_src, lock_dst)
        rc, out = run("timeout 1700 cargo build --release --offline 2>&1", cwd=HARNESS, timeout=1800)
        if rc != 0:
            raise Broken("harness build against /repo working tree (cfg surrealkv_verif)", out[-6000:])
        return "harness built"


# --------------------------------------------------------------------------- paired execution
def run_side(binary, script, timeout=1500, env=None):
    e = dict(ENV)
    if env:
        e.update(env)
    p = subprocess.run("ulimit -s unlimited 2>/dev/null; exec " + binary, shell=True, input=script, stdout=subprocess.PIPE,
                       stderr=subprocess.PIPE, text=True, timeout=timeout, env=e)
    return p.stdout.splitlines(), p.stderr[-2000:], p.returncode


def run_pairs(shards, sides=("impl", "model"), timeout=1500):
    """shards: list of scripts (each a list of command lines, self-contained).
    Returns list of (impl_lines, model_lines) per shard; runs up to NCPU processes at once."""
    from concurrent.futures import ThreadPoolExecutor
    jobs = []
    for sh in shards:
        text = "\n".join(sh) + "\n"
        if "impl" in sides:
            jobs.append((HARNESS_BIN, text))
        if "model" in sides:
            jobs.append((DRIVER_BIN, text))
    with ThreadPoolExecutor(max_workers=NCPU) as ex:
        res = list(ex.map(lambda j: run_side(j[0], j[1], timeout), jobs))
    out = []
    k = len(sides)
    for i in range(len(shards)):
        r = res[i * k:(i + 1) * k]
        d = {}
        for s, x in zip(sides, r):
            d[s] = x
        out.append(d)
    return out


# --------------------------------------------------------------------------- findings / verdicts
def known_findings(pid):
    """class -> 'ID: what' for the open findings listed for this property"""
    p = os.path.join(VERIF, "known_findings.json")
    if not os.path.exists(p):
        return {}
    data = json.load(open(p))
    return {f["class"]: "%s: %s" % (f["id"], f["what"]) for f in data.get("findings", [])
            if f.get("property") == pid and f.get("status", "open") == "open"}


def write_replay(pid, name, text):
    d = os.path.join(VERIF, "replays", pid)
    os.makedirs(d, exist_ok=True)
    p = os.path.join(d, name)
    with open(p, "w") as f:
        f.write(text)
    return p


def write_evidence(pid, tier, seed, coverage, wall, violations, assumptions=None, level="proof"):
    os.makedirs(os.path.join(VERIF, "evidence"), exist_ok=True)
    ev = {
        "property_id": pid, "tier": tier, "seed": seed, "level": level,
        "coverage": coverage, "assumptions": assumptions or [], "wall_s": round(wall, 2), "violations": violations,
    }
    with open(os.path.join(VERIF, "evidence", pid + ".json"), "w") as f:
        json.dump(ev, f, indent=1)


class Rng(random.Random):
    pass


def shard(items, n):
    out = [[] for _ in range(n)]
    for i, it in enumerate(items):
        out[i % n].append(it)
    return [o for o in out if o]


def fnv(b):
    h = 0xcbf29ce484222325
    for x in b:
        h = ((h ^ x) * 0x100000001b3) & 0xFFFFFFFFFFFFFFFF
    return "%016x" % h


def rep(length, seed):
    return bytes(((seed * 31 + i * 7 + (i // 251)) & 255) for i in range(length))
