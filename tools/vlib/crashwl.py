"""Crash workloads shared by C02 / C03 / C07: generate, trace, cut, reopen, judge."""
import os, shutil
from . import common as C
from . import crash as K

OPTS = ["lc=2", "lc=3,bs=64", "lc=2,vlog=1,vth=8,vfs=256", "lc=2,vlog=1,vth=8,vfs=128,foc=1", "lc=1", "lc=2,foc=1", "lc=2,mem=8192", "lc=2,mem=4096,foc=1", "lc=3,mem=16384"]
KEYS = ["61", "62", "6162", "63", "6200"]


def gen_workload(rng, root, tier, opts=None, big=False):
    """returns (script_lines, commits, opts) — commits[i] = writes of the i-th COMMITTED-attempt txn"""
    opts = opts or rng.choice(OPTS + [o for o in OPTS if "mem=" in o] * 2)
    lines = ["e2 newat %s/db" % root, "e2 open %s" % opts]
    commits = []
    if "ver=1" in opts:
        # versioned stores: a logical clock that moves forward before every transaction (distinct timestamps)
        class _Clocked(list):
            def __init__(self, base):
                super().__init__(base)
                self.clk = 100
            def _tick(self, x):
                if isinstance(x, str) and x.startswith("e2 begin "):
                    self.clk += 7
                    super().append("e2 clock %d" % self.clk)
            def append(self, x):
                self._tick(x)
                super().append(x)
            def __iadd__(self, xs):
                for x in xs:
                    self.append(x)
                return self
        lines = _Clocked(lines)
    tx = 0
    vcount = 0
    if "mem=" in opts and rng.random() < 0.5:
        # structured: single-key transactions with values of about a fifth of the memtable, so that
        # every few commits one commit itself fills the memtable (rotation inside apply), with flushes
        # of the rotated memtables in between; ends in a process crash
        mem = int([kv for kv in opts.split(",") if kv.startswith("mem=")][0][4:])
        size = max(200, mem // rng.choice([4, 5, 6]))
        tiny_at = rng.randint(2, 8) if rng.random() < 0.35 else -1
        for it in range(rng.randint(8, 16)):
            if it == tiny_at:
                # many tiny entries in one transaction (see the unstructured branch)
                tx += 1
                lines.append("e2 begin %d rw" % tx)
                batch = []
                for j in range(rng.choice([mem // 64, mem // 40, mem // 24])):
                    lines.append("e2 set %d 74%04x %02x" % (tx, j, j & 255))
                    batch.append(("set", "74%04x" % j, "%02x" % (j & 255)))
                lines.append("e2 commit %d" % tx)
                commits.append(batch)
            tx += 1
            vcount += 1
            k = rng.choice(KEYS + ["64", "65", "66"])
            v = "rep:%d:%d" % (size + rng.randint(0, 50), vcount & 255)
            lines += ["e2 begin %d rw" % tx, "e2 set %d %s %s" % (tx, k, v), "e2 %s %d" % ("commitsync" if rng.random() < 0.3 else "commit", tx)]
            commits.append([("set", k, v)])
            if rng.random() < 0.3:
                # same internal entry point as create_checkpoint's flush; it overlaps the background
                # flush task (the double flush of one memtable was a defect, fixed in e68439f)
                lines.append("e2 flush1")
        lines.append(rng.choice(["e2 abort", "e2 abort", "e2 close"]))
        return lines, commits, opts
    if "mem=" not in opts and rng.random() < 0.3:
        # structured: several flushed tables, then compactions (inputs replaced by an output: table files are
        # created, the manifest is switched, the inputs are unlinked) with commits in between
        for rnd in range(rng.randint(2, 4)):
            tx += 1
            lines.append("e2 begin %d rw" % tx)
            batch = []
            for _ in range(rng.randint(1, 4)):
                k = rng.choice(KEYS)
                if rng.random() < 0.8:
                    vcount += 1
                    v = "%04x" % vcount if rng.random() < 0.6 else "rep:%d:%d" % (rng.choice([40, 300]), vcount & 255)
                    lines.append("e2 set %d %s %s" % (tx, k, v))
                    batch.append(("set", k, v))
                else:
                    lines.append("e2 del %d %s" % (tx, k))
                    batch.append(("del", k, None))
            lines.append("e2 %s %d" % ("commitsync" if rng.random() < 0.4 else "commit", tx))
            commits.append(batch)
            lines.append("e2 flush")
            if rnd >= 1 and rng.random() < 0.7:
                lines.append("e2 compact 0")
        lines.append("e2 compact 0")
        if rng.random() < 0.5:
            lines.append("e2 compact 1")
        lines.append(rng.choice(["e2 close", "e2 abort", "e2 abort"]))
        return lines, commits, opts
    n = rng.randint(4, 10) if tier == "quick" else rng.randint(6, 18)
    for _ in range(n):
        r = rng.random()
        if "mem=" in opts and rng.random() < 0.15:
            # a transaction of very many tiny entries: its log record is small but its memtable footprint
            # (one skiplist node per entry) is near or beyond a whole memtable; it must either be refused
            # before it is logged or be applied
            mem = int([kv for kv in opts.split(",") if kv.startswith("mem=")][0][4:])
            tx += 1
            lines.append("e2 begin %d rw" % tx)
            batch = []
            for j in range(rng.choice([mem // 64, mem // 40, mem // 24])):
                k = "74%04x" % j
                lines.append("e2 set %d %s %02x" % (tx, k, j & 255))
                batch.append(("set", k, "%02x" % (j & 255)))
            lines.append("e2 %s %d" % ("commitsync" if rng.random() < 0.35 else "commit", tx))
            commits.append(batch)
            continue
        if r < 0.62:
            tx += 1
            lines.append("e2 begin %d rw" % tx)
            batch = []
            for _ in range(rng.randint(2, 5) if "mem=" in opts else rng.randint(1, 4)):
                k = rng.choice(KEYS)
                if rng.random() < 0.75:
                    vcount += 1
                    if (big and rng.random() < 0.15) or ("mem=" in opts and rng.random() < 0.6):
                        v = "rep:%d:%d" % (rng.choice([300, 700, 1500, 2500] if "mem=" in opts else [300, 20000, 50000]), vcount & 255)
                    elif "vlog=1" in opts and rng.random() < 0.75:
                        # values above the separation threshold: one flush crosses several value-log files
                        v = "rep:%d:%d" % (rng.choice([12, 40, 90, 200]), vcount & 255)
                    else:
                        v = "%04x" % vcount
                    lines.append("e2 set %d %s %s" % (tx, k, v))
                    batch.append(("set", k, v))
                else:
                    lines.append("e2 del %d %s" % (tx, k))
                    batch.append(("del", k, None))
            lines.append("e2 %s %d" % ("commitsync" if rng.random() < 0.35 else "commit", tx))
            commits.append(batch)
        elif r < 0.70:
            lines.append("e2 flushwal %d" % rng.randint(0, 1))
        elif r < 0.78:
            lines.append("e2 rotate")
        elif r < 0.88:
            lines.append("e2 flush")
        elif r < 0.96:
            # with a small memtable the background compaction task is active; the facade's manual
            # compaction is not a public entry point and is not serialised against it
            lines.append("e2 flush1" if "mem=" in opts else "e2 compact %d" % rng.randint(0, 1))
        else:
            lines.append("e2 reopen")
    lines.append(rng.choice(["e2 close", "e2 abort", "e2 abort"]))
    return lines, commits, opts


def analyse_trace(log, root):
    """cut candidates: (index after which to cut, acks_proc, acks_power) per changing operation"""
    sim = K.FsSim(root)
    cuts = []
    acked = []          # commit indices (0-based order of ack markers) acknowledged so far
    durable = 0         # number of leading acks that are power-durable
    n_acks = 0
    for i, line in enumerate(log):
        if line.startswith("M "):
            t = line[2:].split()
            if t and t[0] == "ack":
                n_acks += 1
                if t[2] == "1":
                    durable = n_acks
            elif t and t[0] == "synced":
                durable = n_acks
            cuts.append((i, n_acks, durable, "marker"))
            continue
        changed = sim.step(line)
        if changed:
            cuts.append((i, n_acks, durable, line[0]))
    return cuts


def make_images(log, root, cut_indices, workdir, policies=("proc", "none", "half", "allbutone")):
    """materialise images for the chosen cut indices; returns list of (dir, cut_index, policy)"""
    sim = K.FsSim(root)
    want = set(cut_indices)
    out = []
    for i, line in enumerate(log):
        if not line.startswith("M "):
            sim.step(line)
        if i in want:
            pend = sim.has_pending()
            for pol in policies:
                if pol != "proc" and not pend:
                    continue
                d = os.path.join(workdir, "img_%d_%s" % (i, pol))
                if os.path.exists(d):
                    shutil.rmtree(d)
                os.makedirs(d)
                sim.materialise(d, pol)
                out.append((d, i, pol))
    return out


def judge(answer, commits, n_required):
    """answer = the 5 harness lines for an image.  Returns (verdict, detail):
    ok | open-failed | not-a-prefix | acked-lost"""
    if answer is None or len(answer) < 4:
        return "open-failed", "no answer: %s" % answer
    if answer[1] != "ok":
        return "open-failed", answer[1]
    got = answer[3]
    if not got.startswith("list:"):
        # the store opened but its content cannot be read: with acknowledged commits required to be
        # there, that is also lost data (C02), not only a store that cannot serve what it wrote (C07)
        return ("open-failed+acked-lost" if n_required > 0 else "open-failed"), got
    match = [n for n in range(len(commits) + 1) if K.state_after(commits, n) == got]
    if not match:
        # not a prefix; is acknowledged data missing as well?  (a key of the required prefix whose
        # recovered value is none of the values it has in any state from the required one on)
        def as_map(line):
            return dict(x.split("=") for x in line[5:].split(",") if x)
        rec = as_map(got)
        states = [as_map(K.state_after(commits, n)) for n in range(n_required, len(commits) + 1)]
        lost = [k for k in states[0] if rec.get(k) not in {st.get(k) for st in states}] if states and n_required > 0 else []
        if lost:
            return "not-a-prefix+acked-lost", "%s (acknowledged data missing for keys %s)" % (got, lost)
        return "not-a-prefix", got
    if max(match) < n_required:
        return "acked-lost", "recovered = state after %s commits, %d were acknowledged%s" % (match, n_required, "")
    return "ok", ""


def explore(ctx, pid, want, n_quick=8, n_thorough=60, cuts_quick=40, big=False, opts_pool=None, proto=None, proto_traces=None, proto_gen2=0, extra_check=None):
    """want: set of verdict kinds this property reports (others are ignored here, the sibling
    property reports them)"""
    rng = C.Rng(ctx["seed"] * 7001 + 17)
    tier = ctx["tier"]
    K.build_shim()
    base = os.path.join(K.WORK, pid)
    if os.path.exists(base):
        shutil.rmtree(base)
    os.makedirs(base)
    res = dict(violations=[], known=[], disagreements=[])
    stats = dict(traces=0, cuts=0, images=0, verdicts={}, policies={}, ops={})
    nontrivial = set()
    samples = []
    n_tr = n_quick if tier == "quick" else n_thorough
    kf = C.known_findings(pid)
    known_paths = {}
    for t in range(n_tr):
        wd = os.path.join(base, "t%d" % t)
        root = os.path.join(wd, "root")
        os.makedirs(root)
        script, commits, opts = gen_workload(rng, root, tier, opts=rng.choice(opts_pool) if opts_pool else None, big=big)
        out, log = K.trace(script, root)
        import re as _re
        if any(l.startswith("W ") and not _re.fullmatch(r"W -?\d+ -?\d+ \d+ [0-9a-f]*", l) for l in log):
            stats["discarded_traces"] = stats.get("discarded_traces", 0) + 1   # recorder anomaly: never judge a damaged log
            continue
        stats["traces"] += 1
        # keep only the transactions whose commit succeeded (e.g. an oversized batch is refused)
        ci_lines = [i for i, l in enumerate(script) if l.split()[1] in ("commit", "commitsync")]
        ok_flags = [(out[i] == "ok") if i < len(out) else False for i in ci_lines]
        # a commit that was in flight when the workload aborted has no answer: it may or may not be there
        commits = [c for c, okf in zip(commits, ok_flags) if okf]
        if t < 2:
            samples.append(" ; ".join(l[3:] for l in script[1:25]))
        cuts = analyse_trace(log, root + "/db")
        # images whose newest commit-log segment starts with a torn record (the cut is the first write into a segment
        # and the power-loss policy keeps only part of it) go first: the next generation appends behind that tail
        first_w, fresh = set(), {}
        for li, l in enumerate(log):
            tk = l.split()
            if tk[0] == "O" and "/wal/" in tk[3] and "c" in tk[2]:
                fresh[tk[1]] = True
            elif tk[0] == "P" and fresh.get(tk[1]):
                fresh[tk[2]] = True
            elif tk[0] == "W" and fresh.get(tk[1]):
                first_w.add(li)
                for k_ in [k_ for k_, v_ in fresh.items() if v_]:
                    fresh[k_] = False
        # quick: sample cuts, biased to namespace operations and markers
        if tier == "quick" and len(cuts) > cuts_quick:
            prio = [c for c in cuts if c[3] in ("R", "U", "marker", "S", "T") or c[0] in first_w]
            rest = [c for c in cuts if not (c[3] in ("R", "U", "marker", "S", "T") or c[0] in first_w)]
            pick = prio[:] if len(prio) <= cuts_quick * 2 // 3 else rng.sample(prio, cuts_quick * 2 // 3)
            pick += rng.sample(rest, min(len(rest), cuts_quick - len(pick)))
            cuts = sorted(set(pick))
        for c in cuts:
            stats["ops"][c[3]] = stats["ops"].get(c[3], 0) + 1
        info = {c[0]: c for c in cuts}
        imgs = make_images(log, root + "/db", [c[0] for c in cuts], os.path.join(wd, "img"))
        stats["cuts"] += len(cuts)
        stats["images"] += len(imgs)
        answers = K.scan_images([d for d, _, _ in imgs], opts)
        if extra_check is not None:
            for desc, text in extra_check(imgs, answers, opts, script, log):
                res["violations"].append((desc, text, dict(trace=t, cut=-1, pol="-", verdict="extra", kind="-", opts=opts, log=log, script=script, commits=commits)))
        if proto is not None and (proto_traces is None or t < proto_traces):
            # correspondence with Crash/Proto.v: the abstracted trace must be accepted by proto_okb and the
            # model's `recover` must predict what each reopened image returned
            pr = proto.check_trace(log, root + "/db", commits, imgs, answers, os.path.join(wd, "proto"), label="trace %d (%s): " % (t, opts),
                                   opts=opts, gen2=proto_gen2, rng=rng, script1=script)
            for (cls, desc, text) in pr.get("findings", []):
                from . import multigen as MG
                owners = MG.SCENARIOS.get(cls, (None,))[0]
                if pid not in ((owners,) if isinstance(owners, str) or owners is None else owners):
                    continue      # the sibling property reports this class
                if cls in kf:
                    if cls not in known_paths:
                        known_paths[cls] = C.write_replay(pid, "known_%s_trace.txt" % cls, "# property=%s\n# KNOWN class %s: %s\n%s" % (pid, cls, kf[cls], text))
                        res["known"].append("%s [class %s; replay: %s]" % (kf[cls], cls, known_paths[cls]))
                else:
                    res["violations"].append((desc + " (class %s, not listed as an open known finding)" % cls, "# property=%s\n%s" % (pid, text),
                                              dict(trace=t, verdict=cls, opts=opts, log=log, script=script, commits=commits)))
            res["disagreements"] += pr["disagreements"]
            ps = stats.setdefault("proto", dict(traces=0, events=0, predictions=0, predictions_checked=0, rejected=0, unjudged=0, kinds={}, unmodelled=[]))
            ps["unmodelled"] += pr.get("unmodelled", [])
            ps["traces"] += 1
            for k in ("events", "predictions", "predictions_checked", "rejected", "unjudged", "gen2_sessions", "gen2_events"):
                ps[k] = ps.get(k, 0) + pr["stats"].get(k, 0)
            for k, v in pr["stats"]["kinds"].items():
                ps["kinds"][k] = ps["kinds"].get(k, 0) + v
        for (d, ci, pol), ans in zip(imgs, answers):
            _, n_proc, n_pow, kind = info[ci]
            need = n_proc if pol == "proc" else n_pow
            verdict, detail = judge(ans, commits, need)
            stats["verdicts"][verdict] = stats["verdicts"].get(verdict, 0) + 1
            stats["policies"][pol] = stats["policies"].get(pol, 0) + 1
            if need > 0:
                nontrivial.add((t, ci, pol))
            if verdict != "ok" and any(v in want for v in verdict.split("+")):
                desc = "%s: crash after operation %d (%s) of the trace, model=%s: %s" % (verdict, ci, log[ci][:80], "process-crash" if pol == "proc" else "power-loss/" + pol, detail[:200])
                keep = os.path.join(C.VERIF, "replays", pid, "image_t%d_%d_%s" % (t, ci, pol))
                os.makedirs(os.path.dirname(keep), exist_ok=True)
                if os.path.exists(keep):
                    shutil.rmtree(keep)
                shutil.copytree(d, keep)
                text = ["# property=%s" % pid, "# oracle: " + desc, "# options: " + opts, "# image kept at: " + keep,
                        "# workload (traced under the recorder; cut after log line %d, policy %s):" % (ci, pol)]
                text += ["> " + l for l in script]
                text += ["# acknowledged before the cut: %d (power-durable: %d); commit order:" % (n_proc, n_pow)]
                text += ["#   %d: %s" % (i + 1, b) for i, b in enumerate(commits)]
                text += ["# answer of the reopened image: %s" % ans]
                text += ["# log tail before the cut:"] + ["#   " + l[:160] for l in log[max(0, ci - 12):ci + 1]]
                res["violations"].append((desc, "\n".join(text) + "\n", dict(trace=t, cut=ci, pol=pol, verdict=verdict, kind=kind, opts=opts, log=log, script=script, commits=commits)))
        # ---- second generation: commit on top of a recovered image, crash (process), reopen
        ok_imgs = [(d, ci, pol, ans) for (d, ci, pol), ans in zip(imgs, answers) if judge(ans, commits, 0)[0] == "ok"]
        torn = [x for x in ok_imgs if x[1] in first_w and x[2] in ("half", "allbutone")]
        rest = [x for x in ok_imgs if x not in torn]
        n_g2 = 12 if tier == "quick" else 60
        g2 = torn[:n_g2 // 2] + rng.sample(rest, min(len(rest), n_g2 - min(len(torn), n_g2 // 2)))
        stats["gen2_torn_first_record_images"] = stats.get("gen2_torn_first_record_images", 0) + min(len(torn), n_g2 // 2)
        if g2:
            scripts = []
            newc = [("6e6577%02x" % j, "%04x" % (0xa000 + j)) for j in range(3)]
            for (d, ci, pol, ans) in g2:
                l = ["e2 newat %s" % d, "e2 open %s" % opts]
                for j, (k, v) in enumerate(newc):
                    l += ["e2 begin %d rw" % (j + 1), "e2 set %d %s %s" % (j + 1, k, v), "e2 commit %d" % (j + 1)]
                l += ["e2 abort"]
                scripts.append(l)
            # each second-generation run ends in abort (process crash), so one process per image
            r2 = C.run_pairs(scripts, sides=("impl",))
            a2 = K.scan_images([d for d, _, _, _ in g2], opts)
            for (d, ci, pol, ans), run, after in zip(g2, r2, a2):
                stats["images"] += 1
                base_items = [x for x in ans[3][5:].split(",") if x]
                exp_items = base_items + ["%s=%s" % kv for kv in newc]
                exp = "list:" + ",".join(sorted(exp_items, key=lambda kv: bytes.fromhex(kv.split("=")[0]) if kv.split("=")[0] != "-" else b""))
                acks = [x for x in run["impl"][0] if x == "ok"]
                verdict = "ok"
                if after is None or len(after) < 4 or after[1] != "ok":
                    verdict = "open-failed"
                elif after[3] != exp:
                    verdict = "acked-lost" if all(x == "ok" for x in run["impl"][0][:-1]) else "ok"
                key = "gen2-" + verdict
                stats["verdicts"][key] = stats["verdicts"].get(key, 0) + 1
                nontrivial.add((t, ci, pol, "g2"))
                if verdict != "ok" and verdict in want:
                    desc = "%s in the SECOND generation: image after operation %d (%s), model=%s, recovered and scanned, then 3 more commits were acknowledged, process crash, reopen: %s (expected %s)" % (
                        verdict, ci, log[ci][:60], pol, (after[3] if after and len(after) > 3 else after), exp)
                    text = ["# property=%s" % pid, "# oracle: " + desc[:600], "# options: " + opts,
                            "# first-generation workload (cut after log line %d, policy %s):" % (ci, pol)]
                    text += ["> " + l for l in script]
                    text += ["# second generation on the recovered image:"] + ["> " + l for l in scripts[g2.index((d, ci, pol, ans))][2:]]
                    text += ["# log tail before the cut:"] + ["#   " + l[:160] for l in log[max(0, ci - 8):ci + 1]]
                    res["violations"].append((desc[:400], "\n".join(text) + "\n", dict(trace=t, cut=ci, pol=pol, verdict="gen2-" + verdict, kind=info[ci][3], opts=opts, log=log, script=script, commits=commits)))
        shutil.rmtree(os.path.join(wd, "img"), ignore_errors=True)
    shutil.rmtree(base, ignore_errors=True)
    res["coverage"] = {
        "evaluations": stats["images"], "distinct_nontrivial": len(nontrivial),
        "rule": "sequential workloads (multi-key transactions, deletes, overwrites, sync and non-sync commits, flush_wal, rotate, flush, "
                "compaction, clean reopen inside the trace, ending in close or abort) traced under the LD_PRELOAD recorder; an image "
                "is materialised after every state-changing file operation (sampled in quick, biased to rename/unlink/fsync/markers) "
                "under the process-crash model and three power-loss policies (drop all unsynced writes / keep half incl. a torn write / "
                "all but the last byte); each image is opened and scanned by the real engine; non-trivial = at least one "
                "acknowledged commit is required to survive",
        "samples": samples, "traces": stats["traces"], "cut_points": stats["cuts"], "images": stats["images"],
        "discarded_traces": stats.get("discarded_traces", 0), "verdicts": stats["verdicts"], "policies": stats["policies"], "cut_kinds": stats["ops"], "exhaustive": False,
    }
    if "proto" in stats:
        res["coverage"]["protocol_model"] = stats["proto"]
    return res
