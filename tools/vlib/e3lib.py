"""E3 — controlled interleavings of the commit pipeline: schedule generation, execution on the
instrumented crate (harness `e3 run`), trace validation on the extracted LTS (driver `e3 validate`),
and the property oracles of C05 / C17 applied to the implementation's answers.

One schedule = one store in a fresh directory + committer threads + probe readers + a closer, run
under the harness's seeded scheduler (exactly one actor runs between two yield points).  The answer
line carries the commit results, the probe observations and the full event trace."""
import os, re, subprocess, tempfile, shutil
from concurrent.futures import ThreadPoolExecutor
from . import common as C

SHIM = os.path.join(C.VERIF, "shim", "libverifshim.so")


def pipe_params():
    """slots / permits as generated from src/commit.rs (coq/theories/Conc/PipelineParams.v)"""
    t = open(os.path.join(C.COQ, "theories", "Conc", "PipelineParams.v")).read()
    g = lambda k: int(re.search(r"Definition %s : nat := (\d+)" % k, t).group(1))
    return dict(slots=g("PIPE_SLOTS"), permits=g("PIPE_PERMITS"), memlimit_min=g("PIPE_MEMLIMIT_MIN"),
                anchors_ok="PIPE_ANCHORS_OK : bool := true" in t)


# ------------------------------------------------------------------------------ schedule generation
def gen_schedule(rng, kind, idx):
    """-> dict(params=str, threads=str, ncommit, nrdr, memlimit, l0limit, fail=None|str, kind)"""
    ncthreads = rng.choice([2, 3, 4, 6, 8, 8, 9, 10]) if kind != "small" else rng.choice([2, 3])
    per = rng.choice([1, 1, 2, 3])
    mem = rng.choice([1536, 2048, 2048, 3072, 4096, 65536])
    vlen = rng.choice([8, 24, 40, 90])
    memlimit = rng.choice([2, 2, 3])
    l0max = rng.choice([2, 4])
    l0limit = rng.choice([l0max, l0max + 2, 64])
    mode = rng.choice(["rw", "rw", "pct", "pct", "sticky"])
    cid = 0
    threads = []
    sizes = {}
    p_big = {"fail": 0.25, "mixed": 0.08}.get(kind, 0.0)
    p_dup = 0.3
    p_hot = 0.1
    if kind == "hot":
        # many overlapping transactions that all write one key: first committer wins (C04)
        ncthreads, per, mem, vlen, p_dup, p_hot = rng.choice([3, 4, 6, 8]), rng.choice([1, 2, 3]), rng.choice([4096, 65536]), rng.choice([8, 24]), 0.1, 0.9
    early = False
    if kind == "early":
        # speculative grants (harness parameter early=1): a committer waiting for its completion is scheduled as soon
        # as its batch has been dequeued; on code that acknowledges before the horizon has moved it returns at
        # once and a reader that begins next does not see the commit (real-time order); on the pinned code it
        # blocks and the watchdog takes the token back after steal_ms (the run is then flagged imprecise)
        ncthreads, per, mem, early = rng.choice([3, 4, 6]), rng.choice([1, 2]), 65536, True
    if kind == "dup":
        # duplicated keys + rotations in the middle of batches + many concurrent committers
        ncthreads, per, mem, vlen, p_dup = rng.choice([6, 8, 10]), 3, rng.choice([1536, 2048]), rng.choice([24, 40, 60]), 0.8
    for _ in range(ncthreads):
        specs = []
        for _ in range(per):
            n = rng.choice([1, 1, 2, 2, 3, 4, 5, 6, 8])
            flags = ""
            if kind == "dup":
                n = rng.choice([2, 2, 3, 4])
            if n >= 2 and rng.random() < p_dup:
                flags += "d"
            if rng.random() < p_big:
                flags += "b"
            if rng.random() < p_hot:
                flags += "h"
            specs.append("%d.%d.%s" % (cid, n, flags or "-"))
            sizes[cid] = (n, flags)
            cid += 1
        threads.append("c:" + "/".join(specs))
    nrt = rng.choice([1, 2, 3]) if kind != "early" else 3
    rid = 0
    for _ in range(nrt):
        probes = []
        for _ in range(rng.choice([1, 2, 3])):
            probes.append("%d.%d" % (rid, rng.randrange(0, 25 * ncthreads)))
            rid += 1
        threads.append("r:" + "/".join(probes))
    if kind in ("close", "mixed") and rng.random() < (0.9 if kind == "close" else 0.3):
        threads.append("x:%d" % rng.randrange(0, 12 * ncthreads))
    else:
        threads.append("x:end")
    seed = rng.randrange(1, 1 << 40)
    params = "seed=%d,mode=%s,depth=%d,mem=%d,vlen=%d,memlimit=%d,l0max=%d,l0limit=%d" % (
        seed, mode, rng.choice([1, 2, 3, 5]), mem, vlen, memlimit, l0max, l0limit)
    if early:
        params += ",early=1,steal_ms=60"
    return dict(params=params, threads="|".join(threads), ncommit=cid, nrdr=rid, memlimit=memlimit, l0limit=l0limit,
                sizes=sizes, fail=None, kind=kind, idx=idx)


def witness_overflow(permits, slots):
    """regression schedule of finding F43 (repaired): one committer is held right after the critical
    section (before env.apply) while `slots - 1` commits fail in env.write (oversized batch ->
    BatchTooLarge, after the batch was enqueued).  Before the repair each of them returned at once,
    leaving its batch in the queue, and the next commit found the queue full (panic); now the failed
    commits keep their permits until their batches are dequeued and the run ends normally"""
    th = ["c:0.1.-"] + ["c:%d.1.b" % i for i in range(1, slots)] + ["c:%d.1.-" % slots, "x:end"]
    params = "seed=7,mode=rw,mem=2048,vlen=8,memlimit=2,l0max=4,l0limit=64,hold=c0@commit.unlocked"
    sizes = {i: (1, "b" if 1 <= i < slots else "") for i in range(slots + 1)}
    return dict(params=params, threads="|".join(th), ncommit=slots + 1, nrdr=0, memlimit=2, l0limit=64, sizes=sizes,
                fail=None, kind="witness-overflow", idx=-1)


# ------------------------------------------------------------------------------------- execution
def parse_answer(line):
    """harness answer line -> dict"""
    if not line or not (line.startswith("ok ") or line.startswith("HANG ")):
        return dict(status="bad", raw=line or "")
    d = dict(status=line.split(" ", 1)[0])
    head, _, trace = line.partition(" trace=")
    for kv in head.split(" ")[1:]:
        k, _, v = kv.partition("=")
        d[k] = v
    d["trace"] = trace
    d["rets"] = {}
    m = re.search(r" rets=(\S+)", head)
    if m and m.group(1) != "-":
        for x in m.group(1).split(";"):
            c, code, text = x.split("=", 2)
            d["rets"][int(c[1:])] = (int(code), text)
    d["probes"] = []
    m = re.search(r" obs=(\S+)", head)
    if m and m.group(1) != "-":
        for x in m.group(1).split(";"):
            parts = x.split(":")
            rid, h = parts[0].split("@")
            ob = {}
            for y in parts[1:]:
                c, v = y.split("=")
                cls, present, fin, err = (int(z) for z in v.split("/"))
                ob[int(c[1:])] = (cls, present, fin, err)
            d["probes"].append(dict(rid=int(rid[1:]), h=int(h), obs=ob))
    d["points"] = {}
    m = re.search(r" points=(\S+)", head)
    if m:
        for x in m.group(1).split(";"):
            k, _, v = x.partition("=")
            if k:
                d["points"][k] = int(v)
    return d


def events(trace):
    out = []
    for e in trace.split(";"):
        if not e:
            continue
        f = e.split(",")
        out.append((f[0], f[1], int(f[2]), int(f[3]), int(f[4]) if len(f) > 4 and f[4] != "" else None))
    return out


def _run_proc(lines, env=None, timeout=600):
    e = dict(C.ENV)
    if env:
        e.update(env)
    try:
        p = subprocess.run([C.HARNESS_BIN], input="\n".join(lines) + "\n", stdout=subprocess.PIPE, stderr=subprocess.PIPE,
                           text=True, timeout=timeout, env=e)
        return p.stdout.splitlines()
    except subprocess.TimeoutExpired as ex:
        out = ex.stdout or b""
        if isinstance(out, bytes):
            out = out.decode(errors="replace")
        return out.splitlines() + ["HARNESS-TIMEOUT"]


def run_schedules(scheds, workers=None):
    """runs every schedule; a HANG ends its harness process, the rest of the shard is continued in a
    new process.  Schedules with a fault are run one per process under the LD_PRELOAD shim."""
    workers = workers or C.NCPU
    plain = [s for s in scheds if not s["fail"]]
    faulty = [s for s in scheds if s["fail"]]
    results = {}

    # when the translator could not confirm the code shapes the LTS was written for, the scheduler does not
    # assume that a failed commit waits for its dequeue (it would hide what the shapes guarantee)
    extra = "" if pipe_params()["anchors_ok"] else ",failwait=0"

    def cmd(s, d=None):
        p = s["params"] + extra + ((",dir=" + d) if d else "")
        return "e3 run %s %s" % (p, s["threads"])

    def shard_job(sh):
        todo = list(sh)
        while todo:
            out = _run_proc([cmd(s) for s in todo])
            for s, line in zip(todo, out):
                results[id(s)] = parse_answer(line)
            done = min(len(out), len(todo))
            if done == 0:
                results[id(todo[0])] = dict(status="bad", raw="no answer")
                done = 1
            todo = todo[done:]

    def fault_job(s):
        root = tempfile.mkdtemp(prefix="e3f_")
        try:
            env = dict(VERIF_SHIM_ROOT=root, LD_PRELOAD=SHIM, VERIF_SHIM_FAIL=s["fail"])
            out = _run_proc([cmd(s, os.path.join(root, "db"))], env=env, timeout=200)
            results[id(s)] = parse_answer(out[0] if out else "")
        finally:
            shutil.rmtree(root, ignore_errors=True)

    with ThreadPoolExecutor(max_workers=workers) as ex:
        list(ex.map(shard_job, C.shard(plain, workers)))
        list(ex.map(fault_job, faulty))
    return [results.get(id(s), dict(status="bad", raw="missing")) for s in scheds]


def validate(scheds, answers, pp, workers=None):
    """replays every recorded trace through the extracted LTS; -> list of driver answer lines"""
    workers = workers or C.NCPU
    cmds = []
    for s, a in zip(scheds, answers):
        if a["status"] == "bad":
            cmds.append(None)
            continue
        cmds.append("e3 validate slots=%d,permits=%d,mem=%d,l0=%d,nthr=%d,nrdr=%d %s" % (
            pp["slots"], pp["permits"], s["memlimit"], s["l0limit"], s["ncommit"], max(s["nrdr"], 1), a["trace"]))
    idx = [i for i, c in enumerate(cmds) if c]
    out = [None] * len(cmds)

    def job(sh):
        p = subprocess.run("ulimit -s unlimited 2>/dev/null; exec " + C.DRIVER_BIN, shell=True, input="\n".join(cmds[i] for i in sh) + "\n",
                           stdout=subprocess.PIPE, stderr=subprocess.PIPE, text=True, timeout=1500)
        for i, line in zip(sh, p.stdout.splitlines()):
            out[i] = line

    with ThreadPoolExecutor(max_workers=workers) as ex:
        list(ex.map(job, C.shard(idx, workers)))
    return out


def explore_model(specs):
    """exhaustive exploration of small instances of the LTS (a test of the statements)"""
    p = subprocess.run("ulimit -s unlimited 2>/dev/null; exec " + C.DRIVER_BIN, shell=True,
                       input="\n".join("e3 explore " + s for s in specs) + "\n", stdout=subprocess.PIPE, stderr=subprocess.PIPE,
                       text=True, timeout=3000)
    res = []
    for s, line in zip(specs, p.stdout.splitlines()):
        d = dict(spec=s, raw=line)
        for kv in line.split(" "):
            k, _, v = kv.partition("=")
            d[k] = v
        res.append(d)
    return res


# --------------------------------------------------------------------------------- property oracles
def analyse(s, a):
    """python oracle over the implementation's answers (independent of the model).
    -> dict(c05=[...violations], c17=[...], notes=[...], stats={...})"""
    r = dict(c05=[], c17=[], c04=[], notes=[], stats={})
    ev = events(a["trace"])
    # ---- first committer wins on the hot key (C04): every transaction flagged `h` writes key "hot" after its
    # begin; begin horizon = the sequence number loaded at txn.loaded; a commit that returned Ok with last
    # sequence number L and begin horizon B must not overlap another Ok commit of the hot key with B < L' < L
    begin_h, last_of, okc = {}, {}, set()
    for (act, name, x, y, vis) in ev:
        if act.startswith("c"):
            c_ = int(act[1:])
            if name == "txn.loaded":
                begin_h[c_] = x
            elif name == "commit.seq_allocated":
                last_of[c_] = x + y - 1
    for c_, (code, text) in a["rets"].items():
        if code == 0 and "h" in s["sizes"].get(c_, (0, ""))[1] and c_ in last_of and c_ in begin_h:
            okc.add(c_)
    for c1 in sorted(okc):
        for c2 in sorted(okc):
            if c1 != c2 and begin_h[c1] < last_of[c2] < last_of[c1]:
                r["c04"].append(("lost_update", "commits c%d (began at horizon %d, committed at seq %d) and c%d (committed at seq %d, i.e. after c%d began and before it "
                                 "committed) both wrote key `hot` and both returned Ok" % (c1, begin_h[c1], last_of[c1], c2, last_of[c2], c1)))
    hot_ok = len(okc)
    hot_conf = sum(1 for c_, (code, text) in a["rets"].items() if code != 0 and "onflict" in text)
    # ---- facts from the trace
    seq_of, cnt_of, ret_at, ret_code, failed, enq = {}, {}, {}, {}, set(), set()
    applying, prev, rot_mid = set(), {}, set()
    n_apply_failed = n_rot_mid = n_obs_during_apply = 0
    for i, (act, name, x, y, vis) in enumerate(ev):
        if act.startswith("r") and name == "obs" and applying:
            n_obs_during_apply += 1
        if act.startswith("c"):
            c = int(act[1:])
            if name == "commit.unlocked" and y == 0:
                applying.add(c)
            elif name == "commit.marked":
                applying.discard(c)
            elif name == "apply.arena_full" and prev.get(c) == "mem.insert":
                n_rot_mid += 1
                rot_mid.add(c)
            elif name == "commit.after_apply" and y == 1:
                n_apply_failed += 1
            prev[c] = name
            if name == "commit.seq_allocated":
                seq_of[c], cnt_of[c] = x, y
            elif name == "commit.enqueued":
                enq.add(c)
            elif name in ("commit.wal_failed",) or (name == "commit.after_apply" and y == 1):
                failed.add(c)
            elif name == "ret":
                ret_at[c], ret_code[c] = i, x
    # ---- monotone horizon
    last = None
    for i, (act, name, x, y, vis) in enumerate(ev):
        if vis is None:
            continue
        if last is not None and vis < last:
            r["c05"].append(("visible_decreased", "event %d %s,%s: horizon %d after %d" % (i, act, name, vis, last)))
            break
        last = vis
    # ---- probes
    loaded_at = {}
    for i, (act, name, x, y, vis) in enumerate(ev):
        if act.startswith("r") and name == "txn.loaded":
            loaded_at[int(act[1:])] = (i, x)
    nprobe = 0
    for pr in a["probes"]:
        rid, h, ob = pr["rid"], pr["h"], pr["obs"]
        at = loaded_at.get(rid, (None, None))[0]
        nprobe += 1
        full = set()
        # "visible" for the order checks: every key of the batch is there (the stale duplicate of finding
        # dup_key_stale_after_midbatch_rotation is reported by its own class, once)
        vis_ok = lambda c_: ob[c_][0] == 0 or (ob[c_][0] == 2 and ob[c_][1] == s["sizes"][c_][0])
        for c, (cls, present, fin, err) in ob.items():
            n, flags = s["sizes"][c]
            if err:
                r["notes"].append("probe r%d: %d read errors on commit c%d" % (rid, err, c))
            if cls == 2:
                if c in failed:
                    r["notes"].append("failed_commit_partially_visible c%d seq=%s probe r%d h=%d present=%d/%d" % (c, seq_of.get(c), rid, h, present, n))
                elif present == n and "d" in flags and c in rot_mid:
                    # every key is there but a key written twice in the transaction shows its FIRST value:
                    # the prefix applied before the mid-batch rotation sits in the older memtable/table, which
                    # the read path consults first when it holds larger sequence numbers (L0 order = largest seq)
                    r["c05"].append(("dup_key_stale_after_midbatch_rotation",
                                     "probe r%d (horizon %d) sees all %d keys of commit c%d (seq=%s, returned Ok) but only %d final values: "
                                     "the superseded first write of the duplicated key is returned" % (rid, h, n, c, seq_of.get(c), fin)))
                else:
                    r["c05"].append(("partial_read", "probe r%d (horizon %d) sees %d of %d keys (%d final) of commit c%d seq=%s" % (
                        rid, h, present, n, fin, c, seq_of.get(c))))
            if cls == 0 and c in failed:
                r["notes"].append("failed_commit_visible c%d seq=%s (commit() returned an error) probe r%d h=%d sees all %d keys" % (c, seq_of.get(c), rid, h, n))
            if cls == 0:
                full.add(c)
                if c in seq_of and seq_of[c] + cnt_of[c] - 1 > h:
                    r["c05"].append(("read_beyond_horizon", "probe r%d (horizon %d) sees commit c%d whose last seq is %d" % (rid, h, c, seq_of[c] + cnt_of[c] - 1)))
            # real-time order
            if at is not None and c in ret_at and ret_code[c] == 0 and ret_at[c] < at and not vis_ok(c):
                r["c05"].append(("real_time_order", "commit c%d returned Ok at event %d, probe r%d began at event %d and does not see it (class %d)" % (
                    c, ret_at[c], rid, at, cls)))
        # prefix order
        for c in full:
            if c not in seq_of:
                continue
            for c2 in seq_of:
                if seq_of[c2] < seq_of[c] and c2 not in failed and c2 in enq and c2 in ob and not vis_ok(c2):
                    r["c05"].append(("prefix_order", "probe r%d sees c%d (seq %d) but not the earlier c%d (seq %d)" % (rid, c, seq_of[c], c2, seq_of[c2])))
    # ---- C17: completion
    if a["status"] == "HANG":
        r["c17"].append(("hang", "no actor made progress; stuck=%s" % a.get("stuck")))
    else:
        for c in s["sizes"]:
            if c not in a["rets"]:
                r["c17"].append(("commit_never_returned", "commit c%d has no result" % c))
        if a.get("close", "-") == "-":
            r["c17"].append(("close_never_returned", "close() has no result"))
    for c, (code, text) in a["rets"].items():
        if code == 2:
            r["c17"].append(("queue_overflow_panic" if "overflow" in text else "panic", "commit c%d: %s" % (c, text)))
    if a.get("close") == "PANIC":
        r["c17"].append(("panic", "close() panicked"))
    r["stats"] = dict(events=len(ev), probes=nprobe, commits=len(s["sizes"]),
                      ok=sum(1 for c in a["rets"].values() if c[0] == 0), err=sum(1 for c in a["rets"].values() if c[0] == 1),
                      failed=len(failed), steals=int(a.get("steals", 0)), forced=int(a.get("forced", 0)),
                      rotations_in_apply=a["points"].get("apply.arena_full", 0), rotations_mid_batch=n_rot_mid,
                      wal_failures=a["points"].get("commit.wal_failed", 0), apply_failures=n_apply_failed,
                      probe_reads_during_an_apply=n_obs_during_apply, stalls=a["points"].get("stall.wait", 0),
                      flushes=a["points"].get("task.mem.flushed", 0), compactions=a["points"].get("task.level.done", 0),
                      closes_mid_run=1 if re.search(r"x:\d", s["threads"]) else 0, hangs=1 if a["status"] == "HANG" else 0,
                      panics=sum(1 for c in a["rets"].values() if c[0] == 2),
                      hot_ok_commits=hot_ok, hot_conflicts=hot_conf)
    return r


def replay_text(pid, s, a, vline, why):
    lines = ["# property=%s kind=%s" % (pid, s["kind"]), "# " + why,
             "# implementation side (harness):", "e3 run %s %s" % (s["params"], s["threads"])]
    if s["fail"]:
        lines.append("# run under LD_PRELOAD=%s VERIF_SHIM_FAIL=%s VERIF_SHIM_ROOT=<dir> with ,dir=<dir>/db" % (SHIM, s["fail"]))
    lines += ["# answer: " + " ".join("%s=%s" % (k, a.get(k)) for k in ("status", "events", "steals", "forced", "close", "stuck")),
              "# results: " + ";".join("c%d=%d=%s" % (c, v[0], v[1]) for c, v in sorted(a.get("rets", {}).items())),
              "# model side verdict: " + str(vline),
              "# trace tail:"]
    ev = a.get("trace", "").split(";")
    lines += ["#   " + e for e in ev[-60:]]
    lines += ["# full trace:", "# " + a.get("trace", "")]
    return "\n".join(lines) + "\n"


# ----------------------------------------------------------------------------------- campaigns
FAULTS = ["%d:fsync:/wal/", "%d:eio:/wal/", "%d:eio:/wal/:sticky", "%d:fsync:/wal/:sticky", "%d:enospc:/wal/"]


def plan(rng, quick, mix):
    """mix: list of (kind, count in quick); thorough = 10 x"""
    scheds = []
    k = 1 if quick else 10
    for kind, n in mix:
        for i in range(n * k):
            if kind == "shim":
                s = gen_schedule(rng, "mixed", len(scheds))
                s["fail"] = rng.choice(FAULTS) % rng.randrange(1, 9)
                s["kind"] = "shim"
            else:
                s = gen_schedule(rng, kind, len(scheds))
            scheds.append(s)
    return scheds


def campaign(pid, ctx, scheds, which):
    """runs the schedules, validates the traces, applies the oracles.
    which: 'c05' | 'c17' selects the violations that count for this property.
    -> (violations [(class, desc, replay_text)], disagreements [text], coverage dict, observations dict)"""
    import collections
    from . import crash
    if any(s["fail"] for s in scheds):
        crash.build_shim()
    pp = pipe_params()
    answers = run_schedules(scheds)
    verdicts = validate(scheds, answers, pp) if ctx["have_model"] else [None] * len(scheds)
    # a hang whose trace does not end in a deadlocked state of the LTS (no actor parked at a blocking
    # primitive) is run again, alone, three times: it counts only if it shows up again (a thread that gets
    # no CPU for `hang_ms` on an overloaded machine looks the same to the watchdog)
    unreproduced = 0
    for i, (s, a, v) in enumerate(zip(scheds, answers, verdicts)):
        if a["status"] == "HANG" and (v is None or " dead=1" not in v):
            again = [x for x in (run_schedules([s], workers=1)[0] for _ in range(3))]
            hung = [x for x in again if x["status"] == "HANG"]
            if hung:
                answers[i] = hung[0]
                verdicts[i] = validate([s], [hung[0]], pp)[0] if ctx["have_model"] else None
                answers[i]["reproduced"] = True
            else:
                unreproduced += 1
                from . import common as _C
                _C.write_replay(pid, "hang_not_reproduced_%d.txt" % unreproduced, replay_text(pid, s, a, v, "HANG seen once, not in 3 solo reruns"))
                answers[i] = again[0]
                verdicts[i] = validate([s], [again[0]], pp)[0] if ctx["have_model"] else None
    viol, dis = [], []
    st = collections.Counter()
    pts = collections.Counter()
    sizes = collections.Counter()
    ncommitters = collections.Counter()
    modes = collections.Counter()
    kinds = collections.Counter()
    obs = collections.defaultdict(list)
    for s, a, v in zip(scheds, answers, verdicts):
        kinds[s["kind"]] += 1
        if a["status"] == "bad":
            dis.append("harness gave no usable answer for `e3 run %s %s`: %s" % (s["params"], s["threads"], a.get("raw", "")[:200]))
            continue
        st["schedules"] += 1
        r = analyse(s, a)
        for k, x in r["stats"].items():
            st[k] += x
        for k, x in a["points"].items():
            pts[k] += x
        for c, (n, flags) in s["sizes"].items():
            sizes["%d%s" % (n, "+dup" if "d" in flags else "")] += 1
        ncommitters[s["threads"].count("c:")] += 1
        modes[re.search(r"mode=(\w+)", s["params"]).group(1)] += 1
        precise = r["stats"]["steals"] == 0 and r["stats"]["forced"] == 0
        if v is not None:
            if v.startswith("ok"):
                st["traces_validated"] += 1
                if " uaf=1" in v:
                    st["traces_with_use_after_free_read"] += 1
                    obs["use_after_free_read"].append((s, a, v))
                mm = int(re.search(r" obs_mismatch=(\d+)", v).group(1))
                if mm:
                    st["probe_observations_differing_from_model"] += mm
                    explained = any(cls == "dup_key_stale_after_midbatch_rotation" for cls, _ in r["c05"])
                    if which == "c05" and not explained and precise:
                        dis.append("probe observation differs from the memtable model: %s | e3 run %s %s" % (
                            re.search(r" first_mismatch=(\S+)", v).group(1), s["params"], s["threads"]))
                if " dead=1" in v and a["status"] == "HANG":
                    st["hangs_confirmed_deadlock_in_model"] += 1
            elif v.startswith("invariant"):
                viol.append(("model_invariant", "the safety invariants fail along the recorded trace: " + v, replay_text(pid, s, a, v, v)))
            elif precise and a["status"] != "HANG":
                dis.append("trace rejected by the LTS: %s | e3 run %s %s" % (v[:200], s["params"], s["threads"]))
                st["traces_rejected"] += 1
            else:
                st["traces_imprecise"] += 1
        for cls, d in r[which]:
            viol.append((cls, d, replay_text(pid, s, a, v, "%s: %s" % (cls, d))))
        for nt in r["notes"]:
            k = nt.split(" ")[0]
            obs[k].append((s, a, v))
            st["obs_" + k] += 1
    cov = dict(st)
    cov["hangs_seen_once_not_reproduced"] = unreproduced
    cov.update(yield_points_hit=dict(pts), batches_by_size=dict(sizes), committer_threads=dict(ncommitters),
               scheduler_modes=dict(modes), schedule_kinds=dict(kinds), pipeline_params=pp)
    return viol, dis, cov, obs
