"""E1 engine for the compaction iterator: implementation (CompactionIterator over in-memory runs)
vs Lsm/CompactKey.v (extracted), plus the property oracle `compact_key_view` evaluated on the
implementation's output."""
import itertools
from . import common as C

KINDS = [0, 1, 2, 6]  # Delete, SoftDelete, Set, Replace


def parse_out(line):
    if not line.startswith("out:"):
        return None
    body = line[4:]
    out = []
    if body:
        for tok in body.split(","):
            k, s, kd, ts = tok.split(":")
            out.append((k, int(s), int(kd), int(ts)))
    return out


def obs(vs, s):
    """(get, mask) at horizon s over a newest-first list of (seq, kind)"""
    for seq, kd in vs:
        if seq <= s:
            tomb = kd in (0, 1)
            return (None if tomb else seq), (seq, tomb)
    return None, None


def oracle(case, out):
    """view preservation for every registered snapshot and for horizons >= newest; sublist"""
    bottom, versioning, ret, now, snaps, keys = case
    byk = {}
    for k, s, kd, ts in out:
        byk.setdefault(k, []).append((s, kd))
    for k, vs in keys.items():
        vs = sorted(set(vs), reverse=True)
        o = byk.get(k, [])
        if any(x not in [(s, kd) for s, kd, _ in vs] for x in o):
            return "output contains a version that was not in the input (key %s)" % k
        if o != sorted(o, reverse=True):
            return "output of key %s not in descending seq order" % k
        vin = [(s, kd) for s, kd, _ in vs]
        top = vin[0][0]
        for h in list(snaps) + [top, top + 1]:
            g0, m0 = obs(vin, h)
            g1, m1 = obs(o, h)
            if g0 != g1:
                return "reader at horizon %d sees %s before and %s after compaction (key %s)" % (h, g0, g1, k)
            if not bottom and m0 != m1:
                return "non-bottom compaction changed the masking entry at horizon %d (key %s)" % (h, k)
    return None


def line_of(case, runs):
    bottom, versioning, ret, now, snaps, keys = case
    rs = "|".join(",".join("%s:%d:%d:%d" % v for v in run) for run in runs)
    return "ck run %d %d %d %d %s %s" % (bottom, versioning, ret, now, ",".join(map(str, snaps)) or "-", rs)


def gen_case(rng, versioning=None):
    nkeys = rng.randint(1, 4)
    keynames = rng.sample(["61", "6162", "62", "6200", "63", "ff"], nkeys)
    seq = 0
    keys = {}
    allv = []
    for _ in range(rng.randint(1, 10)):
        seq += rng.randint(1, 2)
        k = rng.choice(keynames)
        kd = rng.choices(KINDS, [2, 2, 6, 1])[0]
        keys.setdefault(k, []).append((seq, kd, seq * 10))
        allv.append((k, seq, kd, seq * 10))
    nruns = rng.randint(1, 4)
    runs = [[] for _ in range(nruns)]
    for v in allv:
        runs[rng.randrange(nruns)].append(v)
    runs = [sorted(r, key=lambda v: (bytes.fromhex(v[0]), -v[1])) for r in runs]
    snaps = sorted(set(rng.randint(0, seq + 1) for _ in range(rng.choice([0, 0, 1, 2, 3]))))
    ver = rng.random() < 0.4 if versioning is None else versioning
    ret, now = rng.choice([(0, 0), (0, 0), (25, seq * 10 + 5), (1, seq * 10 + 50)])
    return (int(rng.random() < 0.5), int(ver), ret, now, snaps, keys), runs


def exhaustive_cases(n):
    """all kind lists of length n for one key x all snapshot subsets x flags"""
    for kinds in itertools.product(KINDS, repeat=n):
        vs = [(n - i, kd, (n - i) * 10) for i, kd in enumerate(kinds)]
        for r in range(0, n + 3):
            for snaps in itertools.combinations(range(0, n + 2), r):
                if r > 2:
                    continue
                for bottom in (0, 1):
                    for ver in (0, 1):
                        yield (bottom, ver, 0, 0, list(snaps), {"61": vs}), [[("61",) + v for v in vs]]
                    # finite retention (timestamps are seq*10): the two newest versions inside the window and the
                    # rest outside; everything outside (the superseded / newer-barrier branches of the decision)
                    for ret, now in ((15, n * 10 + 5), (1, n * 10 + 50)):
                        yield (bottom, 1, ret, now, list(snaps), {"61": vs}), [[("61",) + v for v in vs]]


def explore(ctx, pid, versioning=None, n_quick=3000, n_thorough=40000):
    rng = C.Rng(ctx["seed"] * 31337 + 5)
    cases = []
    for n in (1, 2, 3) if ctx["tier"] == "quick" else (1, 2, 3, 4):
        for c in exhaustive_cases(n):
            if versioning is None or c[0][1] == int(versioning):
                cases.append(c)
    for _ in range(n_quick if ctx["tier"] == "quick" else n_thorough):
        cases.append(gen_case(rng, versioning))
    lines = [line_of(c, r) for c, r in cases]
    shards = C.shard(list(range(len(lines))), C.NCPU)
    sides = ("impl", "model") if ctx["have_model"] else ("impl",)
    res = C.run_pairs([[lines[i] for i in sh] for sh in shards], sides=sides)
    out = dict(violations=[], disagreements=[], evaluations=len(lines), nontrivial=set(), compared=0)
    for sh, r in zip(shards, res):
        impl = r["impl"][0]
        model = r["model"][0] if "model" in r else None
        for j, i in enumerate(sh):
            il = impl[j] if j < len(impl) else "<missing>"
            o = parse_out(il)
            case = cases[i][0]
            bad = "implementation failed: " + il if o is None else oracle(case, o)
            nin = sum(len(v) for v in case[5].values())
            if o is not None and len(o) < nin and case[4]:
                out["nontrivial"].add(lines[i])
            if bad:
                text = "# property=%s\n# oracle: %s\n> %s\nIMPL:  %s\n" % (pid, bad, lines[i], il)
                if model is not None and j < len(model):
                    text += "MODEL: %s\n" % model[j]
                out["violations"].append((bad + " [" + lines[i][:200] + "]", text))
            elif model is not None:
                out["compared"] += 1
                ml = model[j] if j < len(model) else "<missing>"
                if ml != il:
                    out["disagreements"].append("Lsm/CompactKey.v and CompactionIterator differ on `%s`: impl=%s model=%s" % (lines[i], il, ml))
    out["sample"] = lines[-1]
    return out


def merge(res, ck):
    """fold the CK engine's results into an E2 result"""
    res["violations"] = ck["violations"][:3] + res["violations"]
    res["disagreements"] += ck["disagreements"][:10]
    cov = res["coverage"]
    cov["evaluations"] = cov.get("evaluations", 0) + ck["evaluations"]
    cov["distinct_nontrivial"] = cov.get("distinct_nontrivial", 0) + len(ck["nontrivial"])
    cov["disagreements_checked"] = cov.get("disagreements_checked", 0) + ck["compared"]
    cov["compaction_iterator_cases"] = ck["evaluations"]
    cov["compaction_iterator_cases_dropping_versions_under_snapshots"] = len(ck["nontrivial"])
    cov.setdefault("samples", []).append(ck["sample"])
    return res
