"""C03 — crash recovery is atomic and prefix-consistent (E4)."""
from . import crashwl as W

PARAM_SECTIONS = ["wal"]

MODEL_TARGETS = []
TRUSTED = __import__("vlib.c02", fromlist=["TRUSTED"]).TRUSTED
ASSUMPTIONS = __import__("vlib.c02", fromlist=["ASSUMPTIONS"]).ASSUMPTIONS


def explore(ctx):
    r = W.explore(dict(ctx, seed=ctx["seed"] + 1000), "C03", {"not-a-prefix"}, n_quick=16, n_thorough=120, big=False)
    r["violations"] = [(d, t) for (d, t, _) in r["violations"]][:3]
    return r


def replay(ctx):
    print(open(ctx["replay"]).read())
    return 0
