"""C03 — crash recovery is atomic and prefix-consistent (E4)."""
from . import crashwl as W
from . import crashproto as P
from . import multigen as MG

PARAM_SECTIONS = ["wal", "pipeline"]

MODEL_TARGETS = ["theories/Crash/Proto.vo"]
TRUSTED = __import__("vlib.c02", fromlist=["TRUSTED"]).TRUSTED
ASSUMPTIONS = __import__("vlib.c02", fromlist=["ASSUMPTIONS"]).ASSUMPTIONS


def explore(ctx):
    r = W.explore(dict(ctx, seed=ctx["seed"] + 1000), "C03", {"not-a-prefix"}, n_quick=16, n_thorough=120, big=False,
                  proto=P, proto_traces=16 if ctx["tier"] == "quick" else 80, proto_gen2=3 if ctx["tier"] == "quick" else 8)
    r = MG.directed("C03", r)
    r["violations"] = [(d, t) for (d, t, _) in r["violations"]][:3]
    return P.merge(r, ctx, "C03")


def replay(ctx):
    print(open(ctx["replay"]).read())
    return 0
