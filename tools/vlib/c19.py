"""C19 — one live instance per database directory.

Engine LK: scripts over several openers of ONE directory — in the harness process (open/close/drop)
and in child processes (spawn/pclose/pdrop/pexit/pkill -9) — run on the real `Tree` (harness/src/
lockeng.rs) and on the extracted model Misc/Lock.v instantiated with the variant read off the sources
(Misc/LockInst.v `current`, driver/main.ml `lk_cmd`).  Python holds the property oracle:
  * an open succeeds iff no live holder exists (mutual exclusion; release => reopen);
  * `flock` on LOCK is held iff a holder exists;
  * an operation of a non-holder (refused open, invalid open, close/drop of a closed store, the end of the
    runtime of a Tree that was dropped outside it) leaves the whole directory tree byte-identical (names,
    sizes, contents, LOCK included);
  * a Tree dropped on a thread outside any tokio runtime (`dropout`) has released the lock when drop() returns:
    the flock probe taken at that instant (`dropprobe`, no waiting) says `free` and the next open — in this
    process or in a child — succeeds while the dropped Tree's runtime still exists (finding F28, repaired: the
    class drop_outside_runtime_keeps_lock is no longer a known finding, any recurrence is a violation);
  * the lock is an flock on the INODE that the name <dir>/LOCK denotes, so a holder must never remove or replace that
    name: the operations of a live store that rewrite its directory — `ckpt` (create_checkpoint into a side directory)
    and `restore` (restore_from_checkpoint from it: the data sub-directories are removed and copied back), in this
    process and in a child (`pckpt` / `prestore`) — may change the store's files, never LOCK (name, content), the set of
    top-level directories or the lock: after every restore the flock probe must say `held`, `lockid` must say that
    LOCK is still the inode the holder found or created when it opened, and two further opens (in-process and child)
    must be refused and change nothing."""
import os, re
from . import common as C

PARAM_SECTIONS = ["lock"]
MODEL_TARGETS = ["theories/Misc/LockInst.vo"]
TRUSTED = [
    "flock(2) semantics are assumed, not verified: one exclusive advisory lock per open file description, released when its "
    "last descriptor is closed or the process dies (model field st_flock); the differential run observes them on this kernel only",
    "modelled, not verified: the store's files other than LOCK are one version counter bumped by recovery/commit/shutdown; "
    "a second close of a closed store is modelled as changing no file (checked by directory snapshots on every explored order)",
    "script-level operations run one after the other; the theorems cover all interleavings of the micro steps, the "
    "differential run only sequential orders",
    "modelled, not verified: a restore is two steps (files: clear_current_state + copy back; reload) that change the version "
    "counter only — that nothing at the top level of the directory (the name LOCK) is touched is the generated flag "
    "LOCK_RESTORE_KEEPS_LOCK_NAME (anchors over src/checkpoint.rs, Tree::restore_from_checkpoint) and is observed by the "
    "inode / flock / second-open probes after every restore of the scripts; checkpoint and restore of a CLOSED handle are "
    "not part of the model nor of the scripts",
]
ASSUMPTIONS = [
    "the operating system implements flock(2) as documented (exclusive, per open file description, released on last close / process death)",
    "LOCK descriptors are not inherited by other processes (std opens with O_CLOEXEC)",
]

KIDS_OPS = ("pclose", "pkill", "pexit", "pdrop")
# operations of a live store that rewrite its directory (the holder stays the holder)
LIVE_OPS = ("ckpt", "restore", "pckpt", "prestore")
PROBE_ID = 9        # opener id of the two opens tried after every restore (one in-process, one child)
CONFIGS = [(2, 0), (1, 1), (0, 2), (3, 0), (2, 1), (1, 2), (0, 3)]
LEN = 6


# --------------------------------------------------------------------------- generation
def enum_sequences(nI, nC, L, restore=False):
    """all well-formed operation orders of length L over nI in-process openers and nC child processes,
    up to renaming of openers of the same kind (an opener is first used only after the lower-numbered ones
    of its kind).  Well-formed = the operation has a target: open/spawn of an absent opener, close/drop of
    an existing Tree handle (live or already closed), pclose/pdrop/pexit/pkill of a running child; with
    restore=True also restore of a live in-process store / prestore of a running child (the script takes the
    checkpoint right before the first of them)."""
    ents = [("I", i + 1) for i in range(nI)] + [("C", i + 1) for i in range(nC)]
    out = []

    def rec(seq, st, holder, used):
        if len(seq) == L:
            out.append(tuple(seq))
            return
        for idx, (k, n) in enumerate(ents):
            if idx not in used and any(ents[j][0] == k and ents[j][1] < n and j not in used for j in range(len(ents))):
                continue
            s = st[idx]
            if k == "I":
                ops = ["open"] if s == "absent" else ["close", "drop"] + (["restore"] if restore and s == "live" else [])
            else:
                ops = ["spawn"] if s == "absent" else list(KIDS_OPS) + (["prestore"] if restore else [])
            for o in ops:
                st2 = list(st)
                h2 = holder
                if o in ("open", "spawn"):
                    if holder is None:
                        st2[idx] = "live"
                        h2 = idx
                elif o in LIVE_OPS:
                    pass
                elif o == "close":
                    st2[idx] = "closed"
                    if holder == idx:
                        h2 = None
                else:
                    st2[idx] = "absent"
                    if holder == idx:
                        h2 = None
                rec(seq + [(o, n)], tuple(st2), h2, used | {idx})

    rec([], tuple("absent" for _ in ents), None, frozenset())
    return out


class Book:
    """the oracle's own bookkeeping of one script (independent of the model)"""

    def __init__(self):
        self.holder = None      # ("I", i) / ("C", p)
        self.handles = {}       # ("I", i) -> "live" / "closed"
        self.kids = set()
        self.detached = {}      # i -> was holder when dropped outside its runtime (that runtime still exists);
                                # only names the class of a failure: the oracle expects the lock to be free
        self.lock_exists = False


def build_script(seq, opt="-", opts_by_ent=None):
    """script lines + meta for one operation order; after every operation: commit by the opener (a no-op
    if it holds no store), snapshot, holder.  dropout/rtgone are in-process operations.  ckpt/restore (pckpt/prestore)
    are operations of a live store: the first restore of a script is preceded by a checkpoint of the same store unless
    the order made one already; after every restore: snapshot, flock probe, identity of the inode called LOCK, then an
    in-process and a child open (opener PROBE_ID) that must be refused, each with snapshot + flock probe."""
    lines, meta = [], []
    have_ckpt = False

    def add(l, **m):
        lines.append(l)
        meta.append(m)
    add("lk new", kind="new")
    add("lk snapshot", kind="snap", after=None)
    add("lk holder", kind="holder")
    for step, (o, n) in enumerate(seq):
        ent = ("C", n) if o in ("spawn", "pckpt", "prestore") + KIDS_OPS else ("I", n)
        eo = (opts_by_ent or {}).get(ent, opt)
        at = len(lines)
        if o in LIVE_OPS:
            pre = "p" if ent[0] == "C" else ""
            if o in ("restore", "prestore") and not have_ckpt:
                add("lk %sckpt %d" % (pre, n), kind="op", op=pre + "ckpt", ent=ent, step=step)
                add("lk snapshot", kind="snap", after=at)
                add("lk holder", kind="holder")
                at = len(lines)
            have_ckpt = True
            add("lk %s %d" % (o, n), kind="op", op=o, ent=ent, step=step)
            add("lk snapshot", kind="snap", after=at)
            add("lk holder", kind="holder")
            add("lk %slockid %d" % (pre, n), kind="lockid", ent=ent)
            if o in ("restore", "prestore"):
                for po in ("open", "spawn"):
                    at = len(lines)
                    add("lk %s %d %s" % (po, PROBE_ID, eo), kind="op", op=po, ent=("I" if po == "open" else "C", PROBE_ID), step=step, opt=eo, probe=True)
                    add("lk snapshot", kind="snap", after=at)
                    add("lk holder", kind="holder")
            continue
        if o in ("open", "spawn"):
            add("lk %s %d %s" % (o, n, eo), kind="op", op=o, ent=ent, step=step, opt=eo)
            add("lk %s %d %02x %02x" % ("commit" if o == "open" else "pcommit", n, 0x61 + step, 0x30 + n), kind="commit", ent=ent)
        else:
            add("lk %s %d" % (o, n), kind="op", op=o, ent=ent, step=step)
            if o == "dropout":
                # the flock probe the harness took the instant drop(tree) returned
                add("lk dropprobe", kind="holder", instant=True)
        add("lk snapshot", kind="snap", after=at)
        add("lk holder", kind="holder")
    return lines, meta


SNAP_RE = re.compile(r"snap (?:all=(\S+) )?lock=(\S+) (?:lockhash=(\S+) )?(?:data=(\S+) dirs=(\S+)|dirs=(\S+) data=(\S+)) base=(\S+)")


def parse_snap(line):
    m = SNAP_RE.match(line or "")
    if not m:
        return None
    if m.group(4) is not None:
        data, dirs = m.group(4), m.group(5)
    else:
        dirs, data = m.group(6), m.group(7)
    return dict(all=m.group(1), lock=m.group(2), lockhash=m.group(3), data=data, dirs=dirs, base=m.group(8).lower())


# --------------------------------------------------------------------------- oracle + differ
def replay_text(lines, impl, model, upto, what):
    text = ["# property=C19", "# oracle: " + what, "# failing command: index %d of the script below" % upto]
    for j in range(upto + 1):
        text.append("> " + lines[j])
        text.append("IMPL:  " + (impl[j] if j < len(impl) else "<missing>"))
        if model is not None and j < len(model):
            text.append("MODEL: " + model[j])
    return "\n".join(text) + "\n"


def check_script(lines, meta, impl, model, res, stats):
    """lines/meta of ONE script (starting at `lk new`); impl/model answers aligned with lines"""
    b = Book()
    prev_snap = None        # (impl snapshot, model snapshot) before the current operation
    cur_op = None           # meta of the operation the next snapshot follows
    cur_non_holder = False
    cur_expect_refused = False
    has_refusal = False
    cur_op_line = None      # index of the last operation (kept after its snapshot)
    cur_keeps_lock = False  # the operation is a checkpoint / restore of the live holder: LOCK and the lock must stay
    # what a holder's checkpoint / restore did to LOCK: reported together with the open that gets in because of it
    # (the probe opens follow at once), or on its own if every probe is refused
    notes = []

    def violation(i, what):
        res["violations"].append((what + " [" + lines[i] + "]", replay_text(lines, impl, model, i, what)))

    def note(i, what):
        notes.append((i, what))

    def flush_notes(i=None):
        """True if there was something to report"""
        if not notes:
            return False
        j = notes[-1][0] if i is None else i
        violation(j, "; ".join(w for _, w in notes))
        del notes[:]
        return True

    def known(i, cls, what):
        """i = index of the last command a replay needs (the snapshot / probe that shows the effect)"""
        if cls in res["kf"]:
            stats["known_hits"][cls] = stats["known_hits"].get(cls, 0) + 1
            old = res["known_replay"].get(cls)
            if old is None or i < old[0]:
                res["known_replay"][cls] = (i, replay_text(lines, impl, model, i, "KNOWN class %s: %s" % (cls, what)))
        else:
            violation(i, what + " (class %s, not listed as an open known finding)" % cls)

    for i, (l, m) in enumerate(zip(lines, meta)):
        il = impl[i] if i < len(impl) else "<missing>"
        ml = model[i] if model is not None and i < len(model) else None
        k = m["kind"]
        stats["evaluations"] += 1
        if il.startswith("PANIC") or il == "<missing>" or il == "bad-command":
            violation(i, "implementation side failed: " + il)
            return
        # ---- model vs implementation
        if ml is not None:
            stats["compared"] += 1
            if k == "snap":
                si, sm = parse_snap(il), parse_snap(ml)
                if not si or not sm:
                    res["disagreements"].append("unparsable snapshot on `%s`: impl=%s model=%s" % (l, il, ml))
                else:
                    for f in ("lock", "dirs", "base"):
                        if si[f] != sm[f]:
                            res["disagreements"].append("model and implementation differ on %s after `%s` (script %s): impl=%s model=%s"
                                                        % (f, lines[m["after"]] if m.get("after") is not None else "new", " ; ".join(x for x, mm in zip(lines[:i], meta[:i]) if mm["kind"] == "op"), si[f], sm[f]))
                    if prev_snap and prev_snap[1] and sm["data"] == prev_snap[1]["data"] and si["data"] != prev_snap[0]["data"]:
                        res["disagreements"].append("the model says the store's files are untouched by `%s`, the implementation changed them (script %s)"
                                                    % (lines[m["after"]], " ; ".join(x for x, mm in zip(lines[:i], meta[:i]) if mm["kind"] == "op")))
            elif k == "commit":
                norm = lambda x: "err" if x.startswith("err") else x
                if norm(il) != norm(ml):
                    res["disagreements"].append("model and implementation differ on `%s`: impl=%s model=%s" % (l, il, ml))
            elif ml != "skip" and il != ml:
                res["disagreements"].append("model and implementation differ on `%s` (script %s): impl=%s model=%s"
                                            % (l, " ; ".join(x for x, mm in zip(lines[:i], meta[:i]) if mm["kind"] == "op"), il, ml))
        # ---- property oracle on the implementation's answers
        if k == "op":
            o, ent = m["op"], m["ent"]
            stats["ops"][o] = stats["ops"].get(o, 0) + 1
            if notes and not m.get("probe"):
                flush_notes()
                return
            cur_op, cur_non_holder, cur_expect_refused, cur_keeps_lock = i, False, False, False
            if o in LIVE_OPS:
                stats["live_ops"] = stats.get("live_ops", 0) + 1
                if b.holder != ent:
                    # not generated (checkpoint / restore through a handle that is not the live holder)
                    violation(i, "script error: `%s` by %s%d, which is not the live holder" % ((o,) + ent))
                    return
                cur_keeps_lock = True
                if il != "ok":
                    violation(i, "%s of the live store failed: %s" % (o, il))
                    return
            elif o in ("open", "spawn"):
                invalid = "bad" in m.get("opt", "")
                if invalid:
                    cur_non_holder = True
                    if il != "invalid":
                        violation(i, "an open with invalid options must fail in validate(), before anything is touched; answer: " + il)
                        return
                elif b.holder is None:
                    leak = [d for d, was in b.detached.items() if was]
                    if il == "ok":
                        b.holder = ent
                        b.lock_exists = True
                        if ent[0] == "I":
                            b.handles[ent] = "live"
                        else:
                            b.kids.add(ent)
                    elif il == "refused" and leak:
                        cur_non_holder = True
                        has_refusal = True
                        known(i, "drop_outside_runtime_keeps_lock",
                              "the store was dropped (on a thread outside its tokio runtime) and no other holder exists, yet the open is refused")
                    else:
                        violation(i, "no live holder exists (never opened, or closed / dropped / process dead), yet the open did not succeed: " + il)
                        return
                else:
                    cur_non_holder = True
                    cur_expect_refused = True
                    has_refusal = True
                    stats["refused"] += 1
                    if il == "ok":
                        violation(i, "MUTUAL EXCLUSION: a second open succeeded while %s%d holds the store" % b.holder
                                  + (" (it is live: it was restored from a checkpoint just before — " + "; ".join(w for _, w in notes) + ")" if notes else ""))
                        return
                    if il != "refused":
                        violation(i, "an open while a holder is live must be refused with the lock error; answer: " + il)
                        return
            elif o in ("close", "drop", "dropout"):
                stt = b.handles.get(ent)
                if stt is None:
                    cur_non_holder = True
                else:
                    if il != "ok":
                        violation(i, "%s of an existing handle failed: %s" % (o, il))
                        return
                    if b.holder == ent:
                        b.holder = None
                        if o == "dropout":
                            b.detached[ent[1]] = True
                    else:
                        cur_non_holder = True       # second close / drop of a closed store
                        if o == "dropout":
                            b.detached[ent[1]] = False
                    if o == "close":
                        b.handles[ent] = "closed"
                    else:
                        del b.handles[ent]
            elif o == "rtgone":
                # the dropped Tree closed its store in drop(): nothing of it is left on this runtime
                cur_non_holder = True
                b.detached.pop(ent[1], None)
            elif o in KIDS_OPS:
                if ent in b.kids:
                    b.kids.discard(ent)
                    if il != "ok":
                        violation(i, "%s of a running child failed: %s" % (o, il))
                        return
                    if b.holder == ent:
                        b.holder = None
                else:
                    cur_non_holder = True
        elif k == "holder":
            leak = any(b.detached.values())
            exp = "absent" if not b.lock_exists else ("held" if b.holder is not None else "free")
            if m.get("instant"):
                stats["drop_probes"] = stats.get("drop_probes", 0) + 1
            if il != exp and cur_keeps_lock:
                note(i, "after `%s` of the live holder the flock probe on LOCK says `%s` (expected `%s`)" % (lines[cur_op_line], il, exp))
            elif il != exp and notes:
                pass        # still what the restore left behind; already noted
            elif il != exp:
                if exp == "free" and il == "held" and leak:
                    known(i, "drop_outside_runtime_keeps_lock", "the store was dropped outside its runtime; flock on LOCK is still held with no holder left"
                          + (" at the instant drop() returned" if m.get("instant") else ""))
                else:
                    violation(i, "flock on LOCK is `%s` but the oracle expects `%s` (holder=%s)" % (il, exp, b.holder))
                    return
        elif k == "snap":
            si = parse_snap(il)
            sm = parse_snap(ml) if ml else None
            if si is None:
                violation(i, "unparsable snapshot: " + il)
                return
            if si["lock"] != "absent":
                b.lock_exists = True
            if cur_op is not None and cur_keeps_lock and prev_snap:
                p = prev_snap[0]
                what = "`%s` of the live holder" % lines[cur_op]
                if si["lock"] != p["lock"] or si["lockhash"] != p["lockhash"]:
                    note(i, what + " changed LOCK from %s to %s" % (p["lock"], si["lock"]))
                if si["dirs"] != p["dirs"] or si["base"] != p["base"]:
                    note(i, what + " changed the top-level directories from %s to %s" % (p["dirs"], si["dirs"]))
            if cur_op is not None and cur_non_holder and prev_snap and si["all"] != prev_snap[0]["all"]:
                p = prev_snap[0]
                opname = meta[cur_op]["op"]
                what = "`%s` by a non-holder changed the directory tree" % lines[cur_op]
                if si["data"] != p["data"]:
                    violation(i, what + ": files of the store (other than LOCK) differ")
                    return
                classes = []
                if si["lock"] != p["lock"] or si["lockhash"] != p["lockhash"]:
                    if opname in ("open", "spawn") and si["lock"] == "empty" and p["lock"] not in ("absent", "empty"):
                        classes.append(("refused_open_truncates_lock", "a refused open emptied LOCK (was the pid of %s)" % p["lock"]))
                    else:
                        violation(i, what + ": LOCK changed from %s to %s" % (p["lock"], si["lock"]))
                        return
                if si["dirs"] != p["dirs"] or si["base"] != p["base"]:
                    grown = set(si["dirs"].split("+")) - set(p["dirs"].split("+"))
                    lost = set(p["dirs"].split("+")) - set(si["dirs"].split("+")) - {"-"}
                    if opname in ("open", "spawn") and cur_expect_refused and grown and not lost and si["base"] == p["base"]:
                        classes.append(("refused_open_creates_directories", "a refused open created %s" % "+".join(sorted(grown))))
                    else:
                        violation(i, what + ": directories changed from %s to %s" % (p["dirs"], si["dirs"]))
                        return
                if not classes:
                    violation(i, what + ": snapshot hash differs although LOCK, directories and store files compare equal")
                    return
                for cls, w in classes:
                    known(i, cls, "`%s`: %s" % (lines[cur_op], w))
            prev_snap = (si, sm)
            cur_op_line = cur_op
            cur_op = None
        elif k == "lockid":
            stats["lockid_probes"] = stats.get("lockid_probes", 0) + 1
            if il != "same":
                note(i, "the name LOCK no longer denotes the inode the live holder %s%d locked when it opened (`%s`)" % (m["ent"] + (il,)))
    if flush_notes():
        return
    if has_refusal:
        stats["nontrivial"] += 1


def split_scripts(lines):
    idx = [i for i, l in enumerate(lines) if l == "lk new"] + [len(lines)]
    return [(idx[j], idx[j + 1]) for j in range(len(idx) - 1)]


# --------------------------------------------------------------------------- families
def family_options():
    """a holder with options A, a refused opener with options B (in-process / child process, all pairs),
    then the holder lets go and the second opener gets in; plus invalid options with and without a holder"""
    out = []
    for hk in ("I", "C"):
        for rk in ("I", "C"):
            for A in ("plain", "vlog", "ver"):
                for B in ("plain", "vlog", "ver", "bad"):
                    seq = [("open", 1) if hk == "I" else ("spawn", 1), ("open", 2) if rk == "I" else ("spawn", 2)]
                    seq.append(("close", 1) if hk == "I" else ("pclose", 1))
                    if hk == "I":
                        seq.append(("drop", 1))
                    if B != "bad" and (A, B) in (("plain", "plain"), ("vlog", "vlog"), ("ver", "ver"), ("vlog", "plain")):
                        seq.append(("open", 2) if rk == "I" else ("spawn", 2))
                    ob = {(hk, 1): A, (rk, 2): B}
                    out.append(build_script(seq, opts_by_ent=ob))
    for k in ("I", "C"):
        out.append(build_script([("open", 1) if k == "I" else ("spawn", 1)], opts_by_ent={(k, 1): "bad"}))
    return out


def family_detached():
    """Tree dropped on a thread outside its runtime (`dropout`): the lock is free at once (`dropprobe`), the next
    opener — in-process or a child — gets in while the dropped Tree's runtime still exists; that runtime is shut
    down later (`rtgone`) and must change nothing.  Each order with every option set (flush_on_close off: the
    next open replays the WAL the detached close left; value log; versioning)."""
    out = []
    for opt in ("-", "nofoc", "vlog", "ver"):
        for seq in (
            [("open", 1), ("dropout", 1), ("open", 2), ("spawn", 1), ("rtgone", 1), ("close", 2), ("spawn", 1), ("open", 1)],
            [("open", 1), ("close", 1), ("dropout", 1), ("open", 2), ("rtgone", 1), ("dropout", 2), ("open", 1)],
            [("spawn", 1), ("open", 1), ("pkill", 1), ("open", 1), ("dropout", 1), ("spawn", 2), ("rtgone", 1), ("spawn", 3), ("pexit", 2), ("spawn", 3)],
            [("open", 1), ("dropout", 1), ("open", 2), ("dropout", 2), ("open", 3), ("dropout", 3), ("spawn", 1), ("rtgone", 2), ("rtgone", 1), ("rtgone", 3), ("pclose", 1), ("open", 1)],
            [("open", 1), ("dropout", 1), ("rtgone", 1), ("open", 1), ("drop", 1), ("open", 1), ("dropout", 1), ("spawn", 1), ("pdrop", 1), ("open", 2)],
        ):
            out.append(build_script(seq, opt=opt))
    return out


def family_restore():
    """checkpoint / restore of the live store, directed: repeated restores, restore by the second and third holder of the
    directory from the first holder's checkpoint (in-process and child, both directions), restore after a kill -9 of the
    previous holder, a checkpoint taken over by a later one, restore followed by close / drop / drop outside the runtime /
    process exit — and the next opener getting in; every order with every option set (flush_on_close off; value log;
    versioning: vlog/ is removed and copied back, versioned_index/ is left alone)"""
    out = []
    for opt in ("-", "nofoc", "vlog", "ver"):
        for seq in (
            [("open", 1), ("ckpt", 1), ("restore", 1), ("restore", 1), ("close", 1), ("open", 2), ("restore", 2), ("drop", 2), ("drop", 1),
             ("spawn", 1), ("prestore", 1), ("pkill", 1), ("open", 1), ("restore", 1), ("ckpt", 1), ("restore", 1), ("close", 1), ("spawn", 2)],
            [("spawn", 1), ("pckpt", 1), ("prestore", 1), ("open", 1), ("pclose", 1), ("open", 1), ("restore", 1), ("dropout", 1),
             ("open", 2), ("restore", 2), ("ckpt", 2), ("rtgone", 1), ("drop", 2), ("spawn", 2), ("prestore", 2), ("pexit", 2), ("open", 1)],
            [("open", 1), ("restore", 1), ("spawn", 1), ("open", 2), ("restore", 1), ("close", 1), ("spawn", 1), ("prestore", 1), ("open", 2),
             ("pdrop", 1), ("open", 2), ("restore", 2), ("close", 2), ("drop", 2)],
        ):
            out.append(build_script(seq, opt=opt))
    return out


def detach_order(seq):
    """an enumerated order with every in-process `drop` replaced by a drop outside the runtime; the dropped Tree's
    runtime is shut down only when the same opener id is needed again (the harness keeps it under that id), so
    every other opener runs while it still exists.  None if the order has no in-process drop."""
    if not any(o == "drop" for o, _ in seq):
        return None
    out, zombie = [], set()
    for o, n in seq:
        if o == "drop":
            out.append(("dropout", n))
            zombie.add(n)
        else:
            if o == "open" and n in zombie:
                out.append(("rtgone", n))
                zombie.discard(n)
            out.append((o, n))
    return out



def close_order_probe(ctx):
    """the lock must outlive every change close() makes to the directory: run open / commits / close under the
    recorder and require that no write, create, truncate, rename or unlink inside the database directory follows
    the release of the LOCK descriptor (fsyncs and closes may follow).  Returns (violations, n_traces)."""
    import shutil
    from . import crash as K
    viol, n = [], 0
    base = os.path.join(K.WORK, "C19lock")
    shutil.rmtree(base, ignore_errors=True)
    for ti, opts in enumerate(["lc=2,foc=1", "lc=2,foc=1,vlog=1,vth=0", "lc=2,foc=1,ver=1,vlog=1,vth=0,idx=1", "lc=2,foc=0", "lc=2,foc=1,mem=4096"]):
        root = os.path.join(base, "t%d" % ti, "root")
        os.makedirs(root)
        lines = ["e2 newat %s/db" % root, "e2 open " + opts]
        for j in range(6):
            lines += ["e2 begin %d rw" % (j + 1), "e2 set %d 6b%02x rep:900:%d" % (j + 1, j, j), "e2 commit %d" % (j + 1)]
        lines += ["e2 mark closing", "e2 close"]
        out, log = K.trace(lines, root)
        n += 1
        lockfds, released = set(), None
        dbp = root + "/db/"
        mark = max([i for i, l in enumerate(log) if l.startswith("M closing")] or [0])
        openfd = {}
        for i, l in enumerate(log):
            t = l.split()
            if t[0] == "O":
                openfd[t[1]] = t[3]
                if t[3].endswith("/db/LOCK"):
                    lockfds.add(t[1])
            elif t[0] == "P" and t[1] in lockfds:
                lockfds.add(t[2])
            elif t[0] == "C" and t[1] in lockfds:
                lockfds.discard(t[1])
                if not lockfds and i > mark:
                    released = i
            elif released is not None and i > released:
                bad = None
                if t[0] in ("W", "T") and openfd.get(t[1], "").startswith(dbp):
                    bad = "%s on %s" % (t[0], openfd.get(t[1]))
                elif t[0] in ("R", "U", "D") and t[1].startswith(dbp):
                    bad = l[:120]
                elif t[0] == "O" and t[3].startswith(dbp) and ("c" in t[2] or "t" in t[2]):
                    bad = l[:120]
                if bad:
                    text = ["# property=C19", "# oracle: close() released the directory lock (log line %d) and then still changed the directory (log line %d: %s):"
                            " a second opener is admitted while the first instance is still writing" % (released, i, bad), "# options: " + opts]
                    text += ["> " + x for x in lines]
                    text += ["# recorded operations from the lock release on:"] + ["#   %d %s" % (k, log[k][:140]) for k in range(released, min(len(log), i + 6))]
                    viol.append(("close() changes the directory after releasing the lock (options %s): %s" % (opts, bad), "\n".join(text) + "\n"))
                    break
        if released is None and out and out[-1] == "ok":
            viol.append(("recorder saw no release of the LOCK descriptor during close (options %s)" % opts, "\n".join(["# property=C19"] + ["> " + x for x in lines]) + "\n"))
    shutil.rmtree(base, ignore_errors=True)
    return viol, n


def explore(ctx):
    rng = C.Rng(ctx["seed"] * 7919 + 19)
    tier = ctx["tier"]
    scripts = []          # (lines, meta, family)
    total_orders = 0
    per_config = {}
    total_restore = 0
    per_config_restore = {}
    for (nI, nC) in CONFIGS:
        seqs = enum_sequences(nI, nC, LEN)
        total_orders += len(seqs)
        if tier == "quick":
            keep = 10 ** 6 if nI + nC == 2 else 300
            if len(seqs) > keep:
                seqs = rng.sample(seqs, keep)
        per_config["%dI+%dC" % (nI, nC)] = len(seqs)
        for j, s in enumerate(seqs):
            # flush_on_close off for a part: the next open then replays the WAL (real recovery work)
            if tier == "thorough":
                scripts.append(build_script(s, opt="-") + ("orders",))
                scripts.append(build_script(s, opt="nofoc") + ("orders-nofoc",))
            else:
                scripts.append(build_script(s, opt="nofoc" if (j + ctx["seed"]) % 3 == 0 else "-") + ("orders",))
        # the same orders with the in-process drops done outside the runtime
        det = [d for d in (detach_order(s) for s in seqs) if d is not None]
        if tier == "quick" and len(det) > 60:
            det = rng.sample(det, 60)
        for j, d in enumerate(det):
            scripts.append(build_script(d, opt="nofoc" if (j + ctx["seed"]) % 3 == 0 else "-") + ("orders-detached",))
        # the orders that contain a restore of a live store (in-process / child), anywhere among the other operations
        rs = [q for q in enum_sequences(nI, nC, LEN, restore=True) if any(o in LIVE_OPS for o, _ in q)]
        total_restore += len(rs)
        if tier == "quick":
            keep = 150 if nI + nC == 2 else 50
            if len(rs) > keep:
                rs = rng.sample(rs, keep)
        per_config_restore["%dI+%dC" % (nI, nC)] = len(rs)
        for j, q in enumerate(rs):
            scripts.append(build_script(q, opt=("-", "nofoc", "vlog", "ver")[(j + ctx["seed"]) % 4] if (j % 5) < 2 else "-") + ("orders-restore",))
        rdet = [d for d in (detach_order(q) for q in rs) if d is not None]
        if tier == "quick" and len(rdet) > 15:
            rdet = rng.sample(rdet, 15)
        for d in rdet:
            scripts.append(build_script(d) + ("orders-restore-detached",))
    for sc in family_restore():
        scripts.append(sc + ("restore",))
    for sc in family_options():
        scripts.append(sc + ("options",))
    for sc in family_detached():
        scripts.append(sc + ("detached",))
    # shards: scripts are independent (each starts with `lk new`); children die with their script
    nsh = C.NCPU * (4 if tier == "thorough" else 1)
    groups = C.shard(list(range(len(scripts))), nsh)
    shard_lines = []
    for g in groups:
        ls = []
        for si in g:
            ls += scripts[si][0]
        shard_lines.append(ls)
    sides = ("impl", "model") if ctx["have_model"] else ("impl",)
    results = C.run_pairs(shard_lines, sides=sides)
    res = dict(violations=[], known=[], disagreements=[], kf=C.known_findings("C19"), known_replay={})
    stats = dict(evaluations=0, compared=0, ops={}, refused=0, nontrivial=0, known_hits={})
    for g, ls, r in zip(groups, shard_lines, results):
        impl = r["impl"][0]
        model = r["model"][0] if "model" in r else None
        if len(impl) != len(ls):
            res["disagreements"].append("implementation side produced %d answers for %d commands: %s" % (len(impl), len(ls), r["impl"][1][-300:]))
        if model is not None and len(model) != len(ls):
            res["disagreements"].append("model side produced %d answers for %d commands: %s" % (len(model), len(ls), r["model"][1][-300:]))
        pos = 0
        for si in g:
            n = len(scripts[si][0])
            check_script(scripts[si][0], scripts[si][1], impl[pos:pos + n], model[pos:pos + n] if model is not None else None, res, stats)
            pos += n
    if not ctx["have_model"]:
        res["disagreements"].append("model side unavailable (extraction/driver did not build)")
    # one replay per known class, path appended to the finding text
    paths = {}
    for cls, (_, text) in res["known_replay"].items():
        paths[cls] = C.write_replay("C19", "known_%s.txt" % cls, text)
    res["known"] = sorted("%s [class %s; replay: %s]" % (res["kf"][c], c, paths[c]) for c in paths)
    # keep the shortest violation first
    res["violations"].sort(key=lambda v: len(v[1]))
    pv, pn = close_order_probe(ctx)
    res["violations"] += pv
    stats["evaluations"] += pn
    fam = {}
    for s in scripts:
        fam[s[2]] = fam.get(s[2], 0) + 1
    res["coverage"] = {
        "evaluations": stats["evaluations"],
        "distinct_nontrivial": stats["nontrivial"],
        "rule": "every well-formed order of length %d (each prefix is checked, so every order up to length %d) of open/close/drop over in-process "
                "openers and spawn/pclose/pdrop/pexit/pkill(-9) over child processes, 2 and 3 openers in the mixes %s, up to renaming of "
                "same-kind openers%s; a commit after every successful open; directory snapshot (all names, sizes, content hashes, LOCK included) "
                "and flock probe after every operation; plus option mixes (plain/vlog/versioning/invalid for holder and refused opener, in-process "
                "and child), drops outside the runtime (directed orders x option sets, with the flock probe taken the instant drop() "
                "returned), and the enumerated orders again with every in-process drop done outside the runtime (the dropped Tree's runtime "
                "kept alive while the other openers run); the operations of a live store that rewrite its directory: every well-formed "
                "order of length %d over the same openers that contains a restore of a live in-process store / of a child (checkpoint taken "
                "right before the first one)%s, across the option sets, plus directed checkpoint/restore orders x option sets: after every "
                "restore the snapshot must show LOCK and the top-level directories unchanged, the flock probe `held`, the inode called LOCK "
                "the one the holder opened, and an in-process and a child open must be refused and change nothing. "
                "non-trivial = scripts containing at least one refused open"
                % (LEN, LEN, "/".join("%dI+%dC" % c for c in CONFIGS),
                   " — exhaustive (%d orders), each with flush_on_close on and off" % total_orders if tier == "thorough"
                   else " — sampled (%d of %d orders)" % (sum(per_config.values()), total_orders),
                   LEN, " — exhaustive (%d orders)" % total_restore if tier == "thorough"
                   else " — sampled (%d of %d orders)" % (sum(per_config_restore.values()), total_restore)),
        "samples": [" ; ".join(l for l, m in zip(s[0], s[1]) if m["kind"] == "op") for s in scripts[:3] + scripts[-4:-2]],
        "programs": len(scripts), "disagreements_checked": stats["compared"],
        "orders_total": total_orders, "orders_run_per_config": per_config, "families": fam,
        "restore_orders_total": total_restore, "restore_orders_run_per_config": per_config_restore,
        "live_store_ops": stats.get("live_ops", 0), "lockid_probes": stats.get("lockid_probes", 0),
        "op_mix": stats["ops"], "refused_opens": stats["refused"], "known_class_hits": stats["known_hits"],
        "instant_drop_probes": stats.get("drop_probes", 0),
        "exhaustive": tier == "thorough",
    }
    return res


def replay(ctx):
    text = open(ctx["replay"]).read()
    lines = [l[2:] for l in text.splitlines() if l.startswith("> ")]
    if not lines:
        print(text)
        return 1
    r = C.run_pairs([lines], sides=("impl", "model") if ctx["have_model"] else ("impl",))[0]
    for i, l in enumerate(lines):
        print("> " + l)
        print("IMPL:  " + (r["impl"][0][i] if i < len(r["impl"][0]) else "<missing>"))
        if "model" in r:
            print("MODEL: " + (r["model"][0][i] if i < len(r["model"][0]) else "<missing>"))
    return 0
