"""C01 — transactions read from a stable snapshot (E2 engine, reader-heavy profiles)."""
from . import e2gen as G
from . import ck as CK
from . import levels as LV

MODEL_TARGETS = ["theories/Spec/Machine.vo", "theories/Lsm/Levels.vo"]
PARAM_SECTIONS = ["levels"]
TRUSTED = ["snapshot = number of commits completed at begin (scripts are sequential; the interleaving part of C01 is the "
           "Begin/compaction race, examined separately)"]
ASSUMPTIONS = ["sequential scripts: begin/commit/compaction do not overlap in time here"]

OPTS = ["lc=1", "lc=2", "lc=3", "lc=2,bs=64,ips=64,ri=2", "lc=3,bs=64,bloom=0", "lc=2,vlog=1,vth=2,vfs=128", "lc=4"]
W = dict(begin=14, write=30, get=30, scan=10, range=4, cur=10, sp=0, rbsp=0, commit=12, rollback=2, drop=4,
         rotate=4, flush=10, flush1=3, compact=16, compactauto=1, reopen=0)
PROFILES = [
    dict(name="readers", opts=OPTS, weights=W, max_tx=6, keys=["61", "62", "6162", "63", "6100"], length=(60, 160)),
    dict(name="shared-horizon", opts=OPTS, weights=dict(W, begin=25, drop=10), max_tx=7, keys=["61", "62", "63"], length=(60, 140)),
    dict(name="wide-keys", opts=OPTS, weights=W, max_tx=5, length=(60, 160)),
]


def horizon_churn(g):
    """prologue: many readers begin and end WITHOUT commits in between (they share horizons; holders of one horizon
    come and go in every order), then the keys are overwritten / deleted, flushed and compacted to the bottom level,
    and every reader that is still open reads everything"""
    rng = g.rng
    keys = g.keys[:4]
    t = g.next_tx
    g.emit("e2 begin %d rw" % t)
    for k in keys:
        g.emit("e2 set %d %s %s" % (t, k, g.val()))
    g.emit("e2 commit %d" % t)
    t += 1
    if rng.random() < 0.7:
        g.emit("e2 flush")
    readers = []
    for rnd in range(rng.randint(1, 3)):
        for _ in range(rng.randint(3, 9)):
            if readers and rng.random() < 0.45:
                r = readers.pop(rng.randrange(len(readers)))
                g.emit("e2 drop %d" % r)
                g.tx.pop(r, None)
            elif len(readers) < 5:
                g.emit("e2 begin %d ro" % t)
                g.tx[t] = dict(mode="ro", closed=False, curs=set())
                readers.append(t)
                if rng.random() < 0.3:
                    g.emit("e2 get %d %s" % (t, rng.choice(keys)))
                t += 1
        g.emit("e2 begin %d rw" % t)
        for k in keys:
            r_ = rng.random()
            if r_ < 0.6:
                g.emit("e2 set %d %s %s" % (t, k, g.val()))
            elif r_ < 0.8:
                g.emit("e2 del %d %s" % (t, k))
        g.emit("e2 commit %d" % t)
        t += 1
        g.emit("e2 flush")
        for lvl in range(g.lc - 1):
            g.emit("e2 compact %d" % lvl)
        for r in readers:
            for k in keys:
                g.emit("e2 get %d %s" % (r, k))
            if rng.random() < 0.5:
                g.emit("e2 scan %d - ~ %s" % (r, rng.choice("fb")))
    g.next_tx = t


PROFILES.append(dict(name="horizon-churn", opts=["lc=2", "lc=3", "lc=2,bs=64,ips=64,ri=2", "lc=1"], weights=W, max_tx=7, keys=["61", "62", "6162", "63", "6100"],
                     prologue=horizon_churn, length=(5, 40)))


def nontrivial(lines, exp):
    """a flush or compaction happened while a reader older than some later commit was open and read afterwards"""
    open_r = {}
    commits = 0
    stale_reader_after_phys = False
    phys_since = {}
    for l in lines:
        t = l.split()
        if t[1] == "begin":
            open_r[t[2]] = commits
        elif t[1] == "commit":
            commits += 1
        elif t[1] in ("compact", "flush", "compactauto", "flush1"):
            for r, c in open_r.items():
                if c < commits:
                    phys_since[r] = True
        elif t[1] in ("get", "scan", "cur") and t[1] != "cur":
            if phys_since.get(t[2]):
                stale_reader_after_phys = True
        elif t[1] in ("drop", "rollback"):
            open_r.pop(t[2], None)
            phys_since.pop(t[2], None)
    return stale_reader_after_phys


def explore(ctx):
    r = G.explore_profiles(ctx, "C01", PROFILES, nontrivial, n_quick=300, n_thorough=4000)
    r["coverage"]["rule"] = ("multi-transaction histories with up to 7 overlapping readers/writers (readers sharing a horizon, readers that "
                             "open cursors), rotate/flush/compaction of every level placed between reader operations, level count 1-4; "
                             "non-trivial = a reader older than a later commit reads after a flush/compaction; distinct by program text")
    r = CK.merge(r, CK.explore(ctx, "C01"))
    r["coverage"]["rule"] += ("; plus compaction-iterator cases: all version lists of one key up to length 3 (4 in thorough) x snapshot "
                              "subsets x bottom x versioning, and random multi-key multi-run cases, each checked against compact_key_view and against Lsm/CompactKey.v")
    # level structure (Lsm/Levels.v): invariant, point reads and steps of the extracted model on dumps of the running store
    r = LV.merge(r, LV.conformance(ctx, "C01", PROFILES, n_quick=160, n_thorough=500))
    return r


replay = G.replay
