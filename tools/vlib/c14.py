"""C14 — checkpoint and restore reproduce the checkpointed state (E2 engine + the mid-level machine Lsm/Checkpoint.v)."""
import re
from collections import OrderedDict
from . import common as C
from . import e2gen as G

MODEL_TARGETS = ["theories/Spec/Machine.vo", "theories/Lsm/CheckpointInst.vo"]
PARAM_SECTIONS = ["ckpt"]
TRUSTED = ["checkpoints are taken while no commit is in flight (sequential scripts); transactions open across a restore are "
           "ended by the script before the restore (their fate is examined under C04, finding C04-N1)"]
ASSUMPTIONS = []

OPTS = ["lc=2", "lc=3,bs=64,cache=4096", "lc=2,vlog=1,vth=4,vfs=128", "lc=2,ver=1,vlog=1,vth=0", "lc=1", "lc=2,ver=1,vlog=1,vth=0,idx=1",
        "lc=3,cache=1024,bs=64,ips=32"]


class CGen(G.ProgGen):
    def __init__(self, *a, **kw):
        super().__init__(*a, **kw)
        self.ckpts = []
        self.next_ck = 1

    def step(self):
        rng = self.rng
        r = rng.random()
        if r < 0.07 and len(self.ckpts) < 3:
            c = self.next_ck
            self.next_ck += 1
            if self.emit("e2 checkpoint %d" % c) == "ok":
                self.ckpts.append(c)
        elif r < 0.13 and self.ckpts:
            # end every open transaction, then restore
            for i in list(self.tx):
                self.close_cursors_of(i)
                self.emit("e2 drop %d" % i)
            self.tx, self.cur = {}, {}
            self.emit("e2 restore %d" % rng.choice(self.ckpts))
            # observe right after the restore
            i = self.next_tx
            self.next_tx += 1
            self.emit("e2 begin %d ro" % i)
            self.emit("e2 scan %d - ~ f" % i)
            self.tx[i] = dict(mode="ro", closed=False, curs=set())
            if rng.random() < 0.6:
                # isolation right after the restore: a writer that began together with the reader, a commit by
                # another writer, then the reader re-reads the key and the first writer tries to commit it too
                k = rng.choice(self.keys)
                w1, w2 = self.next_tx, self.next_tx + 1
                self.next_tx += 2
                self.emit("e2 begin %d rw" % w1)
                self.emit("e2 begin %d rw" % w2)
                self.emit("e2 set %d %s %s" % (w2, k, self.val()))
                self.emit("e2 commit %d" % w2)
                self.emit("e2 get %d %s" % (i, k))
                self.emit("e2 get %d %s" % (w1, k))
                self.emit("e2 set %d %s %s" % (w1, k, self.val()))
                self.emit("e2 commit %d" % w1)
                self.emit("e2 drop %d" % w1)
                self.emit("e2 drop %d" % w2)
        elif r < 0.17 and self.ckpts:
            self.emit("e2 ckptscan %d" % rng.choice(self.ckpts))
        else:
            super().step()


W = dict(begin=8, write=40, get=14, scan=6, range=1, cur=3, sp=0, rbsp=0, commit=14, rollback=1, drop=2,
         rotate=3, flush=8, flush1=2, compact=10, compactauto=1, reopen=2)


def vlog_reuse_prologue(g):
    """value-log file ids are reused on the restored timeline: after the checkpoint the value log rotates into
    new files which are read (their handles get cached); after the restore new values of the same shape rotate
    into the same file ids again and are read back"""
    rng = g.rng
    keys = ["6b%02x" % j for j in range(rng.randint(4, 10))]
    ln = rng.choice([24, 40, 60])

    def batch(ks, seed0):
        i = g.next_tx
        g.next_tx += 1
        g.emit("e2 begin %d rw" % i)
        for j, k in enumerate(ks):
            g.emit("e2 set %d %s rep:%d:%d" % (i, k, ln, (seed0 + j) & 255))
        g.emit("e2 commit %d" % i)

    def read(ks):
        i = g.next_tx
        g.next_tx += 1
        g.emit("e2 begin %d ro" % i)
        for k in ks:
            g.emit("e2 get %d %s" % (i, k))
        g.emit("e2 drop %d" % i)

    batch(keys[:2], 1)
    g.emit("e2 flush")
    c = g.next_ck
    g.next_ck += 1
    if g.emit("e2 checkpoint %d" % c) != "ok":
        return
    g.ckpts.append(c)
    batch(keys, 50)
    g.emit("e2 flush")
    if rng.random() < 0.3:
        g.emit("e2 reopen")
    read(keys)
    g.emit("e2 restore %d" % c)
    read(keys)
    batch(keys, 150)
    g.emit("e2 flush")
    read(keys)


PROFILES = [dict(name="checkpoint-restore", opts=OPTS, weights=W, keys=["61", "62", "6162", "63"], max_tx=3, length=(70, 180)),
            dict(name="checkpoint-restore", opts=OPTS, weights=W, keys=["61", "62", "6162", "63"], max_tx=3, length=(70, 180)),
            dict(name="vlog-file-ids-reused", opts=["lc=2,vlog=1,vth=4,vfs=128", "lc=2,vlog=1,vth=4,vfs=256,vck=1", "lc=3,vlog=1,vth=8,vfs=128,cache=1024"],
                 weights=W, keys=["61", "62", "6b00", "6b01", "6b02"], max_tx=3, length=(5, 40), prologue=vlog_reuse_prologue)]


def nontrivial(lines, exp):
    ops = [l.split()[1] for l in lines]
    if "restore" not in ops:
        return False
    i = ops.index("restore")
    return "commit" in ops[i:] and ("flush" in ops[i:] or "compact" in ops[i:]) and ops.count("commit") >= 3


# ------------------------------------------------------------------------------------------------------
# Tie 2 for the mid-level machine (Lsm/Checkpoint.v, extracted with the restore step list GENERATED from
# Tree::restore_from_checkpoint): E2 checkpoint / restore histories are run by the real store with a dump of its live
# tables (`e2 tabledump`: facade vlogptr::vlog_state + engine::visible_seq) after every physical command, abstracted to
# machine steps (`cr` commands of the driver) and every observable output is compared:
#   commit verdicts, reads and full scans of every transaction (at ITS snapshot; the machine's cache is filled with every
#   block of every live table before each read: the most any reads could have cached), the table ids handed out by
#   rotations / flushes / compactions (they are handed out AGAIN after a restore), the content of every live table with
#   sequence numbers, the visible sequence number, the checkpoint directory opened as a store.
# Abstraction: begin -> the machine's visible sequence number is the snapshot; a commit -> the write set in the order of
# each key's LAST write (Txn/WriteSet.v ws_batch); flush -> rotate + flush every immutable memtable; a compaction -> the
# removed table ids and the (key, seq) pairs of the table that appeared (the machine checks its guard: same view);
# reopen keeps the cache (the harness re-uses its Options); recovery at reopen / restore is the machine's `recover`: one memtable
# per non-empty WAL segment at or above the log number, all but the last flushed to tables (the tables that appear in the dump
# after a reopen are compared like any others; family `directed_recovery`: rotations without a flush, then reopen).
DUMP_AFTER = ("open", "rotate", "flush", "flush1", "compact", "compactauto", "reopen", "checkpoint", "restore")
MID_OPTS = ["lc=2", "lc=3,bs=64,cache=4096", "lc=1", "lc=3,cache=1024,bs=64,ips=32", "lc=2,cache=512,bs=64", "lc=2,vlog=1,vth=4,vfs=128",
            "lc=2,cache=256,bs=32,ri=2"]


class MidGen(CGen):
    def emit(self, line):
        a = CGen.emit(self, line)
        if line.split()[1] in DUMP_AFTER:
            self.lines.append("e2 tabledump")
            self.exp.append("-")
        return a


def directed_reuse(rng, model, opts):
    """table ids ARE reused: the discarded timeline flushes (and reads: its blocks get cached) tables whose ids the
    restored timeline hands out again for tables of the same shape with other values, flushed right after the restore"""
    lines, exp = [], []

    def emit(l):
        lines.append(l)
        exp.append(model.ask(l))
        if l.split()[1] in DUMP_AFTER:
            lines.append("e2 tabledump")
            exp.append("-")
        return exp[-2] if l.split()[1] in DUMP_AFTER else exp[-1]
    keys = rng.sample(["61", "62", "6162", "63", "6200", "64", "6465", "66"], rng.randint(3, 7))
    lc = 3
    for kv in opts.split(","):
        if kv.startswith("lc="):
            lc = int(kv[3:])
    st = dict(tx=0, v=rng.randint(0, 200))

    def val():
        st["v"] += 1
        r = rng.random()
        return "%04x" % (st["v"] & 0xffff) if r < 0.8 else "rep:%d:%d" % (rng.choice([20, 40, 90]), st["v"] & 255)

    def batch(ks, dels=0.1):
        st["tx"] += 1
        i = st["tx"]
        emit("e2 begin %d rw" % i)
        for k in ks:
            if rng.random() < dels:
                emit("e2 %s %d %s" % (rng.choice(["del", "sdel"]), i, k))
            else:
                emit("e2 set %d %s %s" % (i, k, val()))
        emit("e2 commit %d" % i)
        emit("e2 drop %d" % i)

    def readall(scan=True):
        st["tx"] += 1
        i = st["tx"]
        emit("e2 begin %d ro" % i)
        if scan:
            emit("e2 scan %d - ~ f" % i)
        for k in keys:
            emit("e2 get %d %s" % (i, k))
        emit("e2 drop %d" % i)

    def phys(n):
        for _ in range(n):
            r = rng.random()
            if r < 0.5:
                emit("e2 compact %d" % rng.randint(0, max(0, lc - 1)))
            elif r < 0.6:
                emit("e2 compactauto")
            elif r < 0.75:
                emit("e2 rotate")
            elif r < 0.85:
                emit("e2 flush1")
            else:
                emit("e2 reopen")
    emit("e2 new")
    emit("e2 open " + opts)
    for _ in range(rng.randint(1, 3)):
        batch(rng.sample(keys, rng.randint(1, len(keys))))
        if rng.random() < 0.7:
            emit("e2 flush")
    phys(rng.choice([0, 0, 1, 2]))
    emit("e2 checkpoint 1")
    shape = []
    for _ in range(rng.randint(1, 3)):
        ks = rng.sample(keys, rng.randint(1, len(keys)))
        shape.append(ks)
        batch(ks)
        emit("e2 flush")
        readall(scan=rng.random() < 0.5)
    phys(rng.choice([0, 0, 1, 2]))
    readall()
    if rng.random() < 0.25:
        emit("e2 checkpoint 2")
    emit("e2 restore 1")
    readall()
    for ks in shape:
        # same keys, other values: tables of the same shape under the same ids
        batch(ks if rng.random() < 0.8 else rng.sample(keys, rng.randint(1, len(keys))), dels=0.05)
        emit("e2 flush")
        readall(scan=rng.random() < 0.5)
    phys(rng.choice([0, 1, 2, 3]))
    readall()
    emit("e2 ckptscan 1")
    if rng.random() < 0.4:
        emit("e2 restore %d" % (2 if "e2 checkpoint 2" in lines and rng.random() < 0.5 else 1))
        readall()
        batch(rng.sample(keys, rng.randint(1, len(keys))))
        emit("e2 flush")
        readall()
    return lines, exp


def directed_recovery(rng, model, opts):
    """recovery flushes: commits separated by `rotate` (once or twice) and NO flush, then `reopen` — the crate's recovery builds
    one memtable per replayed segment and flushes all but the last to tables (ids from the manifest's next id; ids handed out by
    the rotations are lost).  With and without a commit after the last rotation (the recovered memtable is then paired with a
    LATER, empty segment and a commit + reopen flushes it), repeated reopens, before and after a restore."""
    lines, exp = [], []

    def emit(l):
        lines.append(l)
        exp.append(model.ask(l))
        if l.split()[1] in DUMP_AFTER:
            lines.append("e2 tabledump")
            exp.append("-")
    keys = rng.sample(["61", "62", "6162", "63", "6200", "64"], rng.randint(2, 5))
    st = dict(tx=0, v=rng.randint(0, 200))

    def batch():
        st["tx"] += 1
        i = st["tx"]
        emit("e2 begin %d rw" % i)
        for k in rng.sample(keys, rng.randint(1, len(keys))):
            st["v"] += 1
            if rng.random() < 0.1:
                emit("e2 del %d %s" % (i, k))
            else:
                emit("e2 set %d %s %04x" % (i, k, st["v"] & 0xffff))
        emit("e2 commit %d" % i)
        emit("e2 drop %d" % i)

    def readall():
        st["tx"] += 1
        i = st["tx"]
        emit("e2 begin %d ro" % i)
        emit("e2 scan %d - ~ f" % i)
        for k in keys:
            emit("e2 get %d %s" % (i, k))
        emit("e2 drop %d" % i)

    def rotations_then_reopen():
        for _ in range(rng.randint(1, 2)):
            batch()
            emit("e2 rotate")
        if rng.random() < 0.5:
            batch()                     # the last segment holds data too
        emit("e2 reopen")
        readall()
        r = rng.random()
        if r < 0.6:
            batch()                     # into the writer's segment, which may be later than the recovered memtable's
            if rng.random() < 0.4:
                emit("e2 rotate")
            emit("e2 reopen")
            readall()
        elif r < 0.8:
            emit("e2 reopen")
            readall()
    emit("e2 new")
    emit("e2 open " + opts)
    if rng.random() < 0.5:
        batch()
        emit("e2 flush")
    rotations_then_reopen()
    if rng.random() < 0.5:
        rotations_then_reopen()
    emit("e2 checkpoint 1")
    rotations_then_reopen()
    if rng.random() < 0.5:
        batch()
        emit("e2 flush")
    readall()
    emit("e2 restore 1")
    readall()
    rotations_then_reopen()
    if rng.random() < 0.5:
        rotations_then_reopen()
    batch()
    emit("e2 flush")
    readall()
    if rng.random() < 0.5:
        emit("e2 compact 0")
        readall()
    emit("e2 ckptscan 1")
    return lines, exp


def parse_tabs(line):
    """tabs:vis=..;[next=..;]tables=id[k@seq=v,...]|... -> (vis, {id: sorted entries})"""
    if not line.startswith("tabs:"):
        return None
    d = dict(kv.split("=", 1) for kv in line[5:].split(";"))
    tables = {}
    for x in [x for x in d["tables"].split("|") if x]:
        m = re.match(r"(\d+)\[(.*)\]$", x)
        tables[int(m.group(1))] = sorted(e for e in m.group(2).split(",") if e)
    return int(d["vis"]), tables


def same_entries(a, b):
    """value-log pointers (`p`) of the implementation stand for any value"""
    if len(a) != len(b):
        return False
    for x, y in zip(a, b):
        kx, vx = x.split("=", 1)
        ky, vy = y.split("=", 1)
        if kx != ky or (vx != vy and vx != "p"):
            return False
    return True


def in_bounds(k, lo, hi):
    kb = bytes.fromhex(k)
    if lo != "~" and kb < (b"" if lo == "-" else bytes.fromhex(lo)):
        return False
    if hi != "~" and not kb < (b"" if hi == "-" else bytes.fromhex(hi)):
        return False
    return True


def derive_mid(lines, got, stats):
    """-> (cr script, checks) ; checks[i] = None | (kind, expected, e2 line index).  Stops at what the abstraction does not cover."""
    sc, ck = ["cr new 2"], [None]
    txs = {}
    prev = {}
    seen = {}          # table id -> entries of every table that ever had the id (to count reuse)
    restored = False

    def add(cmd, chk=None):
        sc.append(cmd)
        ck.append(chk)
    for j, l in enumerate(lines):
        a = l.split()
        op = a[1]
        g = got[j] if j < len(got) else "<missing>"
        if op in ("new", "levels", "snapshots", "range", "cur", "curclose"):
            continue
        if op == "open":
            continue
        if op == "tabledump":
            cur = parse_tabs(g)
            if cur is None:
                return sc, ck, "tabledump failed after `%s`: %s" % (lines[j - 1], g[:200])
            cmd = lines[j - 1].split()[1]
            added = sorted(set(cur[1]) - set(prev))
            removed = sorted(set(prev) - set(cur[1]))
            if cmd in ("compact", "compactauto"):
                if removed or added:
                    if len(added) > 1:
                        stats["unmodelled"] += 1
                        return sc, ck, None
                    keep = [e.split("=", 1)[0] for e in cur[1][added[0]]] if added else []
                    add("cr compact %s %s" % (",".join(map(str, removed)) or "-", ",".join(keep) or "-"),
                        ("compact", ("table:%d" % added[0]) if added else "none", j))
                    stats["compactions"] += 1
            if cmd == "reopen" and added:
                stats["reopens_with_recovery_flush"] += 1
                stats["recovery_flush_tables"] += len(added)
                if restored:
                    stats["recovery_flush_after_restore"] += 1
            for tid in added:
                if tid in seen and not same_entries(cur[1][tid], seen[tid]) and not same_entries(seen[tid], cur[1][tid]):
                    stats["table_ids_reused"] += 1
                    stats["_reused_now"] = True
                seen[tid] = cur[1][tid]
            add("cr tables", ("tables", cur, j))
            stats["dumps"] += 1
            prev = cur[1]
            continue
        if op == "begin":
            txs[a[2]] = dict(mode=a[3], ws=OrderedDict())
            add("cr begin " + a[2])
        elif op in ("set", "repl", "del", "sdel"):
            t = txs.get(a[2])
            if t is not None and g == "ok":
                t["ws"].pop(a[3], None)
                t["ws"][a[3]] = a[4] if op in ("set", "repl") else "!"
        elif op in ("setat", "delat", "sdelat", "sp", "rbsp", "getat", "history", "clock", "close", "commitsync", "flushwal"):
            stats["unmodelled"] += 1
            return sc, ck, None
        elif op == "get":
            t = txs.get(a[2])
            if t is not None and g.startswith("val:") and a[3] not in t["ws"] and a[3] != "-":
                add("cr fillall")
                add("cr readx %s %s" % (a[2], a[3]), ("read", g, j))
                stats["reads"] += 1
                if restored:
                    stats["reads_after_restore"] += 1
                if stats.get("_reused_now"):
                    stats["reads_after_id_reuse"] += 1
        elif op == "scan":
            t = txs.get(a[2])
            if t is not None and g.startswith("list:") and not t["ws"]:
                add("cr fillall")
                add("cr scanx " + a[2], ("scan", (g, a[3], a[4], a[5]), j))
                stats["scans"] += 1
        elif op == "commit":
            t = txs.get(a[2])
            if t is None:
                continue
            if t["ws"] and t["mode"] != "ro" and g in ("ok", "err:Conflict", "err:Retry"):
                add("cr commitx %s %s" % (a[2], ",".join("%s=%s" % kv for kv in t["ws"].items())), ("commit", g, j))
                stats["commits"] += 1
                t["ws"] = OrderedDict()
            if g == "ok":
                add("cr end " + a[2])
                txs.pop(a[2], None)
        elif op in ("rollback", "drop"):
            if a[2] in txs:
                add("cr end " + a[2])
                txs.pop(a[2], None)
        elif op == "rotate":
            add("cr rotate")
        elif op == "flush":
            add("cr flush", ("flush", None, j))
            stats["flushes"] += 1
            if restored:
                stats["flushes_after_restore"] += 1
        elif op == "flush1":
            add("cr flush1", ("flush1", None, j))
        elif op in ("compact", "compactauto"):
            pass            # replayed from the dump that follows
        elif op == "reopen":
            txs = {}
            add("cr reopen 1")
            stats["reopens"] += 1
        elif op == "checkpoint":
            if g == "ok":
                add("cr checkpoint " + a[2], ("flush", None, j))
                stats["checkpoints"] += 1
        elif op == "restore":
            txs = {}
            add("cr restore " + a[2], ("restore", "ok" if g == "ok" else "bad", j))
            if g == "ok":
                stats["restores"] += 1
                restored = True
                stats["_reused_now"] = False
        elif op == "ckptscan":
            add("cr ckptscan " + a[2], ("ckptscan", g, j))
            stats["ckptscans"] += 1
        else:
            stats["unmodelled"] += 1
            return sc, ck, None
    return sc, ck, None


def check_mid(program, script, checks, answers, stats, dis):
    lines = program
    new_ids = None
    for k, c in enumerate(checks):
        if c is None:
            continue
        kind, want, j = c
        m = answers[k] if k < len(answers) else "<missing>"
        bad = None
        if kind == "read":
            if m != want:
                bad = "`%s`: implementation %s, machine %s" % (lines[j], want, m)
        elif kind == "scan":
            g, lo, hi, d = want
            if not m.startswith("list:"):
                bad = "`%s`: machine answers %s" % (lines[j], m)
            else:
                items = [x for x in m[5:].split(",") if x and in_bounds(x.split("=")[0], lo, hi)]
                if d == "b":
                    items.reverse()
                if "list:" + ",".join(items) != g:
                    bad = "`%s`: implementation %s, machine %s" % (lines[j], g[:300], ("list:" + ",".join(items))[:300])
        elif kind == "commit":
            okm = {"ok": "seq:", "err:Conflict": "conflict", "err:Retry": "retry"}[want]
            if not m.startswith(okm):
                bad = "`%s`: implementation %s, machine %s" % (lines[j], want, m)
        elif kind in ("flush", "flush1", "compact"):
            # the table ids the machine hands out are compared with the tables that appear in the next dump
            if kind == "compact" and m != want:
                bad = "`%s`: implementation's compaction gives %s, machine %s" % (lines[j - 1], want, m)
            new_ids = m
        elif kind == "restore":
            if m != want:
                bad = "`%s`: implementation %s, machine %s" % (lines[j], want, m)
        elif kind == "ckptscan":
            if m != want:
                bad = "`%s`: implementation %s, machine %s" % (lines[j], want[:300], m[:300])
        elif kind == "tables":
            vis, tabs = want
            pm = parse_tabs(m)
            if pm is None:
                bad = "machine dump failed: " + m
            elif pm[0] != vis:
                bad = "visible sequence number after `%s`: implementation %d, machine %d" % (lines[j - 1], vis, pm[0])
            elif sorted(pm[1]) != sorted(tabs):
                bad = "live table ids after `%s`: implementation %s, machine %s (machine handed out %s)" % (lines[j - 1], sorted(tabs), sorted(pm[1]), new_ids)
            else:
                for tid in tabs:
                    if not same_entries(tabs[tid], pm[1][tid]):
                        bad = "table %d after `%s`: implementation %s, machine %s" % (tid, lines[j - 1], tabs[tid][:40], pm[1][tid][:40])
                        break
        stats["compared"] += 1
        if bad:
            if len(dis) < 6:
                dis.append("checkpoint machine (Lsm/Checkpoint.v): " + bad + " || program: " +
                           " ; ".join(x[3:] for x in lines[:j + 1] if x != "e2 tabledump")[:1800])
            return False
    return True


def mid_stats(n):
    return dict(programs=n, compared=0, dumps=0, reads=0, scans=0, commits=0, flushes=0, compactions=0, reopens=0, checkpoints=0,
                restores=0, ckptscans=0, reads_after_restore=0, flushes_after_restore=0, table_ids_reused=0, reads_after_id_reuse=0,
                programs_with_id_reuse=0, unmodelled=0, api_mismatch=0, cache_caps={},
                reopens_with_recovery_flush=0, recovery_flush_tables=0, recovery_flush_after_restore=0,
                families={f: dict(programs=0, judged_to_the_end=0, disagreements=0) for f in ("directed_reuse", "directed_recovery", "random")})


def correspondence(ctx):
    rng = C.Rng(ctx["seed"] * 7919 + 14)
    n = 90 if ctx["tier"] == "quick" else 1200
    res = dict(violations=[], disagreements=[], cov={})
    if not ctx["have_model"]:
        res["disagreements"].append("checkpoint machine unavailable (extraction/driver did not build)")
        return res
    model = G.Model()
    if model.ask("cr params") != "ok":
        res["disagreements"].append("the sources no longer have the shape Lsm/Checkpoint.v builds in (ckpt_params_ok = false: "
                                    "see Lsm/CheckpointParams.v)")
    W2 = dict(begin=8, write=40, get=16, scan=6, range=0, cur=0, sp=0, rbsp=0, commit=14, rollback=1, drop=3,
              rotate=4, flush=10, flush1=3, compact=10, compactauto=1, reopen=2)
    programs = []
    for i in range(n):
        opts = MID_OPTS[i % len(MID_OPTS)]
        fam = "random" if i % 3 == 2 else "directed_recovery" if i % 6 in (1, 4) else "directed_reuse"
        if fam == "directed_reuse":
            lines, exp = directed_reuse(rng, model, opts)
        elif fam == "directed_recovery":
            lines, exp = directed_recovery(rng, model, opts)
        else:
            g = MidGen(rng, model, opts=opts, weights=W2, keys=["61", "62", "6162", "63"], max_tx=3)
            g.start()
            for _ in range(rng.randint(60, 150)):
                g.step()
            lines, exp = g.finish()
        programs.append((lines, exp, opts, fam))
    model.close()
    got = G.run_impl([(l, e) for (l, e, _, _) in programs])
    stats = mid_stats(len(programs))
    scripts, checks = [], []
    for (lines, exp, opts, fam), g in zip(programs, got):
        g = g or []
        cap = "default"
        for kv in opts.split(","):
            if kv.startswith("cache="):
                cap = kv[6:]
        stats["cache_caps"][cap] = stats["cache_caps"].get(cap, 0) + 1
        # the API answers must still equal the specification machine
        for j, l in enumerate(lines):
            if l == "e2 tabledump" or l in G.INFO:
                continue
            gj = g[j] if j < len(g) else "<missing>"
            if gj != exp[j]:
                stats["api_mismatch"] += 1
                if len(res["violations"]) < 2:
                    desc = "`%s`: implementation answers %s, specification %s (checkpoint-machine run, options %s)" % (l, gj[:160], exp[j][:160], opts)
                    res["violations"].append((desc, G.replay_text("C14", desc, [x for x in lines[:j + 1] if x != "e2 tabledump"],
                                                                  [e for x, e in zip(lines[:j + 1], exp[:j + 1]) if x != "e2 tabledump"],
                                                                  [e for x, e in zip(lines[:j + 1], g[:j + 1]) if x != "e2 tabledump"])))
                break
        before = stats["table_ids_reused"]
        stats["_reused_now"] = False
        unm = stats["unmodelled"]
        sc, ck, err = derive_mid(lines, g, stats)
        stats["families"][fam]["programs"] += 1
        if err:
            stats["families"][fam]["disagreements"] += 1
        elif stats["unmodelled"] == unm:
            stats["families"][fam]["judged_to_the_end"] += 1
        if stats["table_ids_reused"] > before:
            stats["programs_with_id_reuse"] += 1
        if err and len(res["disagreements"]) < 6:
            res["disagreements"].append(err)
        scripts.append(sc)
        checks.append(ck)
    stats.pop("_reused_now", None)
    shards = C.shard(list(range(len(scripts))), C.NCPU)
    out = C.run_pairs([[l for i in sh for l in scripts[i]] for sh in shards], sides=("model",))
    for sh, r in zip(shards, out):
        ans = r["model"][0]
        pos = 0
        for i in sh:
            a = ans[pos:pos + len(scripts[i])]
            pos += len(scripts[i])
            if not check_mid(programs[i][0], scripts[i], checks[i], a, stats, res["disagreements"]):
                stats["families"][programs[i][3]]["disagreements"] += 1
    res["cov"] = stats
    return res


def explore(ctx):
    orig = G.ProgGen
    G.ProgGen = CGen
    try:
        r = G.explore_profiles(ctx, "C14", PROFILES, nontrivial, n_quick=200, n_thorough=3000)
    finally:
        G.ProgGen = orig
    mid = correspondence(ctx)
    r["violations"] += mid["violations"]
    r["disagreements"] += mid["disagreements"]
    r["coverage"]["checkpoint_machine"] = mid["cov"]
    r["coverage"]["evaluations"] += mid["cov"].get("compared", 0)
    r["coverage"]["checkpoint_machine_rule"] = (
        "every E2 checkpoint/restore history of this part is also run through the extracted Lsm/Checkpoint.v machine (restore step list generated "
        "from Tree::restore_from_checkpoint); compared: commit verdicts, reads and scans at each transaction's snapshot (machine cache filled with "
        "every live block first), table ids handed out by rotations/flushes/compactions, content + sequence numbers of every live table and the "
        "visible sequence number after every physical command, checkpoint-as-store content; table_ids_reused = tables created after a restore under an "
        "id that named a table with other content before; reads_after_id_reuse = reads compared after such a reuse in the same program; "
        "recovery at reopen is judged too (no escape): reopens_with_recovery_flush = reopens after which tables created by recovery (one per "
        "replayed non-empty segment but the last) appeared and were compared, recovery_flush_after_restore = those on a restored timeline; "
        "families = programs / programs judged to their end / disagreements per generator family (directed_recovery: rotate once or twice "
        "without a flush, then reopen, before and after a restore)")
    r["coverage"]["rule"] = ("histories with checkpoints taken anywhere, flushes/compactions creating new tables and vlog files between checkpoint "
                             "and restore, restore, then commits / flush / compaction / reopen on the restored timeline (table ids are reused), "
                             "the checkpoint directory opened as a database of its own; small caches, vlog / versioning / version index on and off; "
                             "non-trivial = a restore followed by a commit and a flush or compaction")
    return r


replay = G.replay
