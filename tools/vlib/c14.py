"""C14 — checkpoint and restore reproduce the checkpointed state (E2 engine)."""
from . import e2gen as G

MODEL_TARGETS = ["theories/Spec/Machine.vo"]
TRUSTED = ["checkpoints are taken while no commit is in flight (sequential scripts); transactions open across a restore are "
           "ended by the script before the restore (their fate is examined under C04, finding C04-N1)"]
ASSUMPTIONS = []

OPTS = ["lc=2", "lc=3,bs=64,cache=4096", "lc=2,vlog=1,vth=4,vfs=128", "lc=2,ver=1,vlog=1,vth=0", "lc=1", "lc=2,ver=1,vlog=1,vth=0,idx=1",
        "lc=3,cache=1024,bs=64,ips=32"]


class CGen(G.ProgGen):
    def __init__(self, *a, **kw):
        super().__init__(*a, **kw)
        self.ckpts = []
        self.next_ck = 1

    def step(self):
        rng = self.rng
        r = rng.random()
        if r < 0.07 and len(self.ckpts) < 3:
            c = self.next_ck
            self.next_ck += 1
            if self.emit("e2 checkpoint %d" % c) == "ok":
                self.ckpts.append(c)
        elif r < 0.13 and self.ckpts:
            # end every open transaction, then restore
            for i in list(self.tx):
                self.close_cursors_of(i)
                self.emit("e2 drop %d" % i)
            self.tx, self.cur = {}, {}
            self.emit("e2 restore %d" % rng.choice(self.ckpts))
            # observe right after the restore
            i = self.next_tx
            self.next_tx += 1
            self.emit("e2 begin %d ro" % i)
            self.emit("e2 scan %d - ~ f" % i)
            self.tx[i] = dict(mode="ro", closed=False, curs=set())
            if rng.random() < 0.6:
                # isolation right after the restore: a writer that began together with the reader, a commit by
                # another writer, then the reader re-reads the key and the first writer tries to commit it too
                k = rng.choice(self.keys)
                w1, w2 = self.next_tx, self.next_tx + 1
                self.next_tx += 2
                self.emit("e2 begin %d rw" % w1)
                self.emit("e2 begin %d rw" % w2)
                self.emit("e2 set %d %s %s" % (w2, k, self.val()))
                self.emit("e2 commit %d" % w2)
                self.emit("e2 get %d %s" % (i, k))
                self.emit("e2 get %d %s" % (w1, k))
                self.emit("e2 set %d %s %s" % (w1, k, self.val()))
                self.emit("e2 commit %d" % w1)
                self.emit("e2 drop %d" % w1)
                self.emit("e2 drop %d" % w2)
        elif r < 0.17 and self.ckpts:
            self.emit("e2 ckptscan %d" % rng.choice(self.ckpts))
        else:
            super().step()


W = dict(begin=8, write=40, get=14, scan=6, range=1, cur=3, sp=0, rbsp=0, commit=14, rollback=1, drop=2,
         rotate=3, flush=8, flush1=2, compact=10, compactauto=1, reopen=2)


def vlog_reuse_prologue(g):
    """value-log file ids are reused on the restored timeline: after the checkpoint the value log rotates into
    new files which are read (their handles get cached); after the restore new values of the same shape rotate
    into the same file ids again and are read back"""
    rng = g.rng
    keys = ["6b%02x" % j for j in range(rng.randint(4, 10))]
    ln = rng.choice([24, 40, 60])

    def batch(ks, seed0):
        i = g.next_tx
        g.next_tx += 1
        g.emit("e2 begin %d rw" % i)
        for j, k in enumerate(ks):
            g.emit("e2 set %d %s rep:%d:%d" % (i, k, ln, (seed0 + j) & 255))
        g.emit("e2 commit %d" % i)

    def read(ks):
        i = g.next_tx
        g.next_tx += 1
        g.emit("e2 begin %d ro" % i)
        for k in ks:
            g.emit("e2 get %d %s" % (i, k))
        g.emit("e2 drop %d" % i)

    batch(keys[:2], 1)
    g.emit("e2 flush")
    c = g.next_ck
    g.next_ck += 1
    if g.emit("e2 checkpoint %d" % c) != "ok":
        return
    g.ckpts.append(c)
    batch(keys, 50)
    g.emit("e2 flush")
    if rng.random() < 0.3:
        g.emit("e2 reopen")
    read(keys)
    g.emit("e2 restore %d" % c)
    read(keys)
    batch(keys, 150)
    g.emit("e2 flush")
    read(keys)


PROFILES = [dict(name="checkpoint-restore", opts=OPTS, weights=W, keys=["61", "62", "6162", "63"], max_tx=3, length=(70, 180)),
            dict(name="checkpoint-restore", opts=OPTS, weights=W, keys=["61", "62", "6162", "63"], max_tx=3, length=(70, 180)),
            dict(name="vlog-file-ids-reused", opts=["lc=2,vlog=1,vth=4,vfs=128", "lc=2,vlog=1,vth=4,vfs=256,vck=1", "lc=3,vlog=1,vth=8,vfs=128,cache=1024"],
                 weights=W, keys=["61", "62", "6b00", "6b01", "6b02"], max_tx=3, length=(5, 40), prologue=vlog_reuse_prologue)]


def nontrivial(lines, exp):
    ops = [l.split()[1] for l in lines]
    if "restore" not in ops:
        return False
    i = ops.index("restore")
    return "commit" in ops[i:] and ("flush" in ops[i:] or "compact" in ops[i:]) and ops.count("commit") >= 3


def explore(ctx):
    orig = G.ProgGen
    G.ProgGen = CGen
    try:
        r = G.explore_profiles(ctx, "C14", PROFILES, nontrivial, n_quick=200, n_thorough=3000)
    finally:
        G.ProgGen = orig
    r["coverage"]["rule"] = ("histories with checkpoints taken anywhere, flushes/compactions creating new tables and vlog files between checkpoint "
                             "and restore, restore, then commits / flush / compaction / reopen on the restored timeline (table ids are reused), "
                             "the checkpoint directory opened as a database of its own; small caches, vlog / versioning / version index on and off; "
                             "non-trivial = a restore followed by a commit and a flush or compaction")
    return r


replay = G.replay
