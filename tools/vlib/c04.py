"""C04 — no lost updates: first committer wins (sequential / oracle-level part).

Three engines, all differential (implementation vs extracted Coq model, line by line) with the
property oracle applied to the implementation's answers:

 A. `orc` scripts on the crate's CommitOracle through the facade vs Conc/Oracle.v:
    A1 random call sequences (checks, publishes with count > 1 and duplicate keys, rollbacks of
       the latest and of older stamps, resets, moving watermarks, > 2 x GC_INTERVAL publishes);
    A2 pipeline-shaped sequences: Conc/CommitSeq.v (the model the theorems are about) is driven
       through random histories (begin rw/wo/unregistered, commit, FAILED commit, end, restore)
       and the oracle calls it makes are replayed on the crate's oracle.
 B. `cs` scripts: the same histories without failures played on a real store through the public
    API (begin / set+commit / rollback / create_checkpoint / restore_from_checkpoint) vs
    Conc/CommitSeq.v; includes > GC_INTERVAL commits with old open transactions.
 C. E2 programs (tools/vlib/e2gen.py) vs the specification machine Spec/Machine.v, whose commit
    rule is first-committer-wins (Spec/Store.v `conflicts`): many overlapping writers on few keys,
    write-only transactions, and programs with > GC_INTERVAL commits under open old transactions.

Property oracle for A2 and B (python, independent of the models, time-based): a commit attempt of
T is expected to be refused iff a successful commit that still exists (not discarded by a later
restore) completed after T began and wrote one of T's keys; it must not be answered Conflict
otherwise, and not Retry unless T is unregistered or began before a restore.
Since the repair of C04-N1 (the restore epoch: `begin_epoch != restore_epoch => TransactionRetry`
at the head of the commit critical section): a transaction (read-write or write-only) that is open
across a restore MUST be answered Retry at every later commit attempt — also after commits of
the new timeline have brought the visible sequence number back up to its old start (corpus
history `restore-catchup`) — and a transaction that begins after the last restore must never be
answered Retry.  The former class restore_keeps_open_txns is no longer known: any recurrence is a
violation.  Unregistered committers (engine A2 only: the epoch-less pipeline entry kept for the
crate's own tests) are outside this rule."""
import os, re
from . import common as C
from . import e2gen as G

PARAM_SECTIONS = ["oracle", "pipeline"]
MODEL_TARGETS = ["theories/Conc/CommitSeq.vo", "theories/Spec/Machine.vo", "theories/Codec/WalInst.vo", "theories/Lsm/CompactKey.vo"]  # everything driver/Extract.v imports
TRUSTED = ["the model's fingerprint function is an injective table over the key strings of a script (driver/main.ml fp_of); the crate "
           "uses xxh3_64: agreement is expected unless xxh3_64 collides on a script's keys (soundness theorems hold for any fp)",
           "engine B plays CommitSeq histories through the public API only; WAL/apply failures are injected at the oracle facade "
           "(engine A2), not in the real pipeline (the thread-interleaving/fault part of C04 is a separate engine)",
           "numbers are unbounded in the model; scripts keep sequence numbers far below 2^64 and publish counts >= 1"]
ASSUMPTIONS = ["sequential histories: one operation at a time (write_mutex makes check;alloc;publish;WAL one atomic block; apply and the "
               "visibility update are taken to follow at once)"]

HOT = ["6b01", "6b02", "6b03", "6b04", "6b05"]


def gc_interval():
    t = open(os.path.join(C.COQ, "theories", "Params.v")).read()
    return int(re.search(r"ORACLE_GC_INTERVAL : N := (\d+)", t).group(1))


# ------------------------------------------------------------------ property oracle (time-based)
class Hist:
    """event log of one history; times are event indices"""

    def __init__(self):
        self.ev = []          # dicts
        self.tx = {}          # id -> dict(begin, reg, ended)

    def begin(self, i, mode):
        self.tx[i] = dict(begin=len(self.ev), reg=(mode != "un"))
        self.ev.append(dict(op="begin", id=i, mode=mode))

    def end(self, i):
        self.ev.append(dict(op="end", id=i))

    def commit(self, i, keys, verdict, stamp=None, line=None):
        self.ev.append(dict(op="commit", id=i, keys=list(keys), verdict=verdict, stamp=stamp, line=line))

    def checkpoint(self):
        self.ev.append(dict(op="checkpoint"))

    def restore(self, max_stamp=None):
        """max_stamp: discard commits with stamp > max (engine A2); None: discard commits after the last checkpoint (engine B)"""
        self.ev.append(dict(op="restore", max=max_stamp))

    def evaluate(self):
        """-> list of (event index, kind, known_class or None, text)"""
        out = []
        self.stats = dict(open_across_restore_refused=0, open_across_restore_unregistered=0, fresh_after_restore_commits=0)
        for n, e in enumerate(self.ev):
            if e["op"] != "commit" or e["verdict"] not in ("ok", "conflict", "retry") or not e["keys"]:
                continue
            t = self.tx.get(e["id"])
            if t is None:
                continue
            b = t["begin"]
            restores = [j for j in range(b + 1, n) if self.ev[j]["op"] == "restore"]
            stale = bool(restores)
            if stale and t["reg"]:
                # the repaired commit path: a transaction of an earlier restore epoch is refused before the oracle is consulted
                if e["verdict"] != "retry":
                    later = [j for j in range(restores[0] + 1, n) if self.ev[j]["op"] == "commit" and self.ev[j]["verdict"] == "ok"]
                    out.append((n, "open-across-restore-accepted" if e["verdict"] == "ok" else "open-across-restore-not-retry", None,
                                "transaction %d (began at event %d) is open across the restore at event %d (%d successful commits since) "
                                "and its commit of %s was answered %s: expected Retry"
                                % (e["id"], b, restores[0], len(later), ",".join(e["keys"]), e["verdict"])))
                else:
                    self.stats["open_across_restore_refused"] += 1
                continue
            if stale:
                self.stats["open_across_restore_unregistered"] += 1      # epoch-less entry: no expectation
                continue
            if any(x["op"] == "restore" for x in self.ev[:b]):
                self.stats["fresh_after_restore_commits"] += 1
            overl = None
            for j in range(b + 1, n):
                c = self.ev[j]
                if c["op"] == "commit" and c["verdict"] == "ok" and set(c["keys"]) & set(e["keys"]) and self.survives(j, n):
                    overl = j
            if e["verdict"] == "ok" and overl is not None:
                common = set(self.ev[overl]["keys"]) & set(e["keys"])
                failed_between = any(self.ev[j]["op"] == "commit" and self.ev[j]["verdict"] == "failed" and set(self.ev[j]["keys"]) & common
                                     for j in range(overl + 1, n))
                # (a failed commit on the key in between is the pattern of F13, repaired in 229b27b: no longer a known class)
                out.append((n, "lost-update", None,
                            "transaction %d (began at event %d) committed key(s) %s although the commit at event %d wrote %s after it began%s"
                            % (e["id"], b, ",".join(sorted(common)), overl, ",".join(sorted(common)),
                               " (a commit on that key failed and was rolled back in between)" if failed_between else "")))
            elif e["verdict"] == "conflict" and overl is None:
                out.append((n, "false-conflict", None,
                            "transaction %d (began at event %d) was answered Conflict on %s; no surviving commit since its begin wrote these keys"
                            % (e["id"], b, ",".join(e["keys"]))))
            elif e["verdict"] == "retry" and overl is None and t["reg"]:
                out.append((n, "spurious-retry", None,
                            "transaction %d began at event %d after every restore, registered, and was answered Retry%s"
                            % (e["id"], b, " (a transaction was open across an earlier restore)"
                               if any(self.ev[j]["op"] == "restore" and self.open_at(j) for j in range(0, n)) else "")))
        return out

    def open_at(self, j):
        for i, t in self.tx.items():
            if t["begin"] < j:
                closed = any(x["op"] == "end" and x["id"] == i or (x["op"] == "commit" and x["id"] == i and x["verdict"] == "ok")
                             for x in self.ev[t["begin"]:j])
                if not closed:
                    return True
        return False

    def survives(self, j, now):
        """does the successful commit at event j still exist at event `now`"""
        c = self.ev[j]
        for r in range(j + 1, now):
            x = self.ev[r]
            if x["op"] != "restore":
                continue
            if x["max"] is not None:
                if c["stamp"] is not None and c["stamp"] > x["max"]:
                    return False
            else:
                cps = [q for q in range(0, r) if self.ev[q]["op"] == "checkpoint"]
                if cps and j > cps[-1]:
                    return False
        return True


# ------------------------------------------------------------------ A1: random oracle call sequences
def a1_script(rng, gi, long_run):
    L = ["orc new"]
    keys = HOT[:rng.randint(2, 5)]
    seq = 1
    kept_guess = 0
    stamps = []            # (stamp, keys) published so far
    n = (2 * gi + rng.randint(50, 400)) if long_run else rng.randint(20, 120)
    wm = 0
    uniq = 0

    def kl(dups=True):
        k = [rng.choice(keys) for _ in range(rng.randint(1, 3))]
        if rng.random() < 0.5:
            nonlocal uniq
            uniq += 1
            k.append("75%06x" % uniq)
        if not dups:
            k = sorted(set(k))
        return k
    for i in range(n):
        r = rng.random()
        if long_run and r < 0.80 or (not long_run and r < 0.40):
            ks = kl()
            count = rng.choice([1, 1, 1, len(ks), rng.randint(1, 5)])
            # watermark: mostly non-decreasing, sometimes stuck, sometimes jumping close to seq
            m = rng.random()
            if m < 0.5:
                wm = min(seq, wm + rng.randint(0, 3))
            elif m < 0.6:
                wm = max(0, seq - rng.randint(0, 4))
            elif m < 0.63:
                wm = max(0, wm - rng.randint(0, 5))     # a regressing caller (debug_assert only)
            L.append("orc publish %d %d %d %s" % (seq, count, wm, ",".join(ks)))
            stamps.append((seq + count - 1, ks))
            if rng.random() >= 0.04:
                seq += count        # else: the next publish may carry the SAME stamp (publish leaves such entries alone)
            if rng.random() < 0.12:
                # failed commit: roll the latest stamp back
                L.append("orc rollback %d %s" % (stamps[-1][0], ",".join(ks)))
        elif r < 0.90 or long_run and r < 0.93:
            st = rng.choice([max(0, seq - 1 - rng.randint(0, 6)), rng.randint(0, seq), wm, max(0, wm - 1)])
            L.append("orc check %d %s" % (st, ",".join(kl()) if rng.random() < 0.95 else "-"))
        elif r < 0.96:
            if stamps:
                s, ks = rng.choice(stamps[-8:])       # a non-latest stamp: usually overwritten meanwhile
                L.append("orc rollback %d %s" % (s, ",".join(ks if rng.random() < 0.7 else kl())))
        elif r < 0.975:
            mx = rng.choice([0, max(0, seq - rng.randint(1, 30)), seq + 5])
            L.append("orc reset %d" % mx)
            if mx > 0:
                seq = mx + 1
            wm = min(wm, mx) if rng.random() < 0.7 else wm
        else:
            L.append("orc dump %s" % ",".join(keys))
        if long_run and i % 97 == 0:
            L.append("orc dump %s" % ",".join(keys))
    L.append("orc dump %s" % ",".join(keys))
    for k in keys:
        L.append("orc check %d %s" % (max(0, seq - 2), k))
    return L


# ------------------------------------------------------------------ A2 / B: histories of the commit machine
class HistGen:
    """random history of the sequential commit machine, driven against the model (driver) so that
    the generator knows the outcomes; emits `cs` lines, the oracle calls as `orc` lines, the event log"""

    def __init__(self, rng, model, api, gi):
        self.rng, self.m, self.api, self.gi = rng, model, api, gi
        self.cs, self.exp = ["cs new"], ["ok"]
        self.orc, self.check_ev = ["orc new"], {}
        self.h = Hist()
        self.open, self.next_id, self.uniq = {}, 1, 0
        self.have_ckpt = False
        self.commits = 0
        self.fails = 0
        self.restores = 0
        self.visible_at_ckpt = None
        model.ask("cs new")

    def ask(self, line):
        a = self.m.ask(line)
        self.cs.append(line)
        self.exp.append(a)
        return a

    def calls(self, ev_index):
        c = self.m.ask("cs calls")
        stamp = None
        if c == "-":
            return None
        for part in c.split("|"):
            f = part.split(":")
            if f[0] == "check":
                self.check_ev[len(self.orc)] = ev_index
                self.orc.append("orc check %s %s" % (f[1], f[2]))
            elif f[0] == "publish":
                self.orc.append("orc publish %s %s %s %s" % (f[1], f[2], f[3], f[4]))
                stamp = int(f[1]) + int(f[2]) - 1
            elif f[0] == "rollback":
                self.orc.append("orc rollback %s %s" % (f[1], f[2]))
            elif f[0] == "reset":
                self.orc.append("orc reset %s" % f[1])
        return stamp

    def begin(self, mode=None):
        i = self.next_id
        self.next_id += 1
        mode = mode or self.rng.choices(["rw", "wo"] + ([] if self.api else ["un"]), [6, 3] + ([] if self.api else [1]))[0]
        self.ask("cs begin %d %s" % (i, mode))
        self.h.begin(i, mode)
        self.open[i] = mode
        return i

    def keyset(self, hot_p=0.8):
        ks = set()
        if self.rng.random() < hot_p:
            for _ in range(self.rng.randint(1, 2)):
                ks.add(self.rng.choice(HOT))
        if not ks or self.rng.random() < 0.3:
            self.uniq += 1
            ks.add("75%06x" % self.uniq)
        ks = sorted(ks)
        if not self.api and self.rng.random() < 0.15:
            ks = ks + [ks[0]]               # duplicate key in a batch (savepoint history)
        return ks

    def commit(self, i, keys=None, fail=False):
        keys = keys if keys is not None else self.keyset()
        a = self.ask("cs commit %d %s %d" % (i, ",".join(keys) or "-", 1 if fail else 0))
        n = len(self.h.ev)
        stamp = self.calls(n)
        self.h.commit(i, keys, a, stamp=stamp if a == "ok" else None)
        if a == "ok":
            self.open.pop(i, None)
            self.commits += 1
        if a == "failed":
            self.fails += 1
        return a

    def end(self, i):
        self.ask("cs end %d" % i)
        self.h.end(i)
        self.open.pop(i, None)

    def filler(self, n, hot_every=0, keep=0.0):
        """short transactions: begin, commit one key, drop (a committed read-write transaction that
        is NOT dropped keeps its snapshot registered and pins the watermark: probability `keep`)"""
        for j in range(n):
            i = self.begin("wo" if self.rng.random() < 0.7 else "rw")
            if hot_every and j % hot_every == hot_every - 1:
                self.commit(i, [self.rng.choice(HOT)])
            else:
                self.uniq += 1
                self.commit(i, ["75%06x" % self.uniq])
            if self.rng.random() >= keep:
                self.end(i)

    def checkpoint(self):
        self.ask("cs checkpoint")
        self.h.checkpoint()
        self.have_ckpt = True

    def restore(self):
        if self.api:
            if not self.have_ckpt:
                return
            self.ask("cs restore")
            self.calls(None)
            self.h.restore(None)
        else:
            st = self.m.ask("cs state")
            vis = int(re.search(r"visible=(\d+)", st).group(1))
            mx = self.rng.choice([0, max(0, vis - self.rng.randint(0, 40)), max(0, vis - self.rng.randint(0, 2 * self.gi))])
            self.ask("cs restoreto %d" % mx)
            self.calls(None)
            self.h.restore(mx)
        self.restores += 1

    def step(self, w):
        rng = self.rng
        op = rng.choices(list(w), list(w.values()))[0]
        if op == "begin":
            if len(self.open) < 6:
                self.begin()
        elif op == "commit":
            if self.open:
                self.commit(rng.choice(list(self.open)))
        elif op == "fail":
            if self.open and not self.api:
                self.commit(rng.choice(list(self.open)), fail=True)
        elif op == "end":
            if self.open:
                self.end(rng.choice(list(self.open)))
        elif op == "filler":
            self.filler(rng.randint(1, 5), hot_every=rng.choice([0, 2, 3]), keep=rng.choice([0, 0, 0.2]))
        elif op == "burst":
            self.filler(rng.randint(self.gi // 4, self.gi + 60), hot_every=rng.choice([0, 0, 7, 50]), keep=rng.choice([0, 0, 0, 0.001]))
        elif op == "checkpoint":
            if self.api:
                self.checkpoint()
        elif op == "restore":
            self.restore()
        elif op == "recommit":
            # a commit that failed / conflicted may be tried again by the same transaction
            if self.open:
                i = rng.choice(list(self.open))
                self.commit(i, fail=(not self.api and rng.random() < 0.3))
                if i in self.open:
                    self.commit(i)


SHORT_W = dict(begin=20, commit=22, fail=8, end=5, filler=12, burst=0, checkpoint=2, restore=1, recommit=4)
LONG_W = dict(begin=14, commit=18, fail=6, end=6, filler=10, burst=5, checkpoint=1, restore=0.5, recommit=3)


def witness_f13(g):
    """the history of Oracle_proofs.v lu_steps verbatim: it lost an update before F13 was repaired
    (rollback removed the entry); now the last commit must be refused"""
    t3 = g.begin("rw")
    t2 = g.begin("rw")
    g.commit(t2, [HOT[0]])
    t1 = g.begin("rw")
    g.commit(t1, [HOT[0]], fail=True)
    g.commit(t3, [HOT[0]])


def witness_restore(g, gi):
    """the Coq witness fr_steps (regression history of C04-N1 (b), repaired): rewind below an open
    transaction's start, then that transaction commits where a GC would fire: it must be answered
    Retry (it began before the restore), and the fresh transactions after it must be accepted
    (before the repair: accepted, and every later transaction refused with Retry for good)"""
    g.filler(5)
    g.checkpoint() if g.api else None
    g.filler(gi + 100)
    t0 = g.begin("rw")
    if g.api:
        g.restore()
    else:
        g.ask("cs restoreto 5")
        g.calls(None)
        g.h.restore(5)
        g.restores += 1
    g.filler(gi - 1)
    g.commit(t0, [HOT[1]])
    for _ in range(3):
        i = g.begin("rw")
        g.commit(i, [HOT[2]])


def witness_restore_lost_update(g):
    """regression history of C04-N1 (a), repaired: an open transaction survives a restore that
    rewinds below its start; a transaction that begins and commits after the restore writes the
    same key; the stale one must be answered Retry (before the repair both committed)"""
    g.filler(2)
    g.checkpoint() if g.api else None
    g.filler(3)
    t1 = g.begin("rw")
    if g.api:
        g.restore()
    else:
        g.ask("cs restoreto 2")
        g.calls(None)
        g.h.restore(2)
        g.restores += 1
    t2 = g.begin("rw")
    g.commit(t2, [HOT[0]])
    g.commit(t1, [HOT[0]])


def witness_restore_catchup(g):
    """the Coq witness cu_pre/cu_post (corpus history): as above, but further commits bring the
    visible sequence number back up to the stale transaction's start: its commit must STILL be
    answered Retry (a test on the start sequence number alone lets it through: lost update)"""
    g.filler(2)
    g.checkpoint() if g.api else None
    g.filler(2)
    t1 = g.begin("rw")
    if g.api:
        g.restore()
    else:
        g.ask("cs restoreto 2")
        g.calls(None)
        g.h.restore(2)
        g.restores += 1
    t2 = g.begin("rw")
    g.commit(t2, [HOT[0]])
    g.commit(t1, [HOT[0]])          # Retry (visible 3 < its start 4)
    t3 = g.begin("rw")
    g.commit(t3, [HOT[1]])
    g.commit(t1, [HOT[0]])          # Retry again, although visible = 4 = its start


def restore_open(g, gi, rng):
    """transactions of both modes begin at different points before and after a checkpoint and stay
    open across one or two restores; afterwards fresh transactions and the old ones commit in a
    random order on few keys (old ones: always Retry, also once the new timeline has passed their start)"""
    g.filler(rng.randint(0, 4), hot_every=2)
    olds = []
    for _ in range(rng.randint(0, 2)):
        olds.append(g.begin())
        g.filler(rng.randint(0, 2), hot_every=rng.choice([0, 1]))
    if g.api:
        g.checkpoint()
    mark = int(re.search(r"visible=(\d+)", g.m.ask("cs state")).group(1))
    for _ in range(rng.randint(1, 4)):
        g.filler(rng.randint(1, 4), hot_every=rng.choice([0, 1, 2]))
        olds.append(g.begin())
    g.filler(rng.randint(0, 3))
    for rnd in range(rng.choice([1, 1, 2])):
        if g.api:
            g.restore()
        else:
            g.ask("cs restoreto %d" % mark)
            g.calls(None)
            g.h.restore(mark)
            g.restores += 1
        for _ in range(rng.randint(2, 14)):
            r = rng.random()
            if r < 0.45:
                g.filler(1, hot_every=rng.choice([0, 1, 1]))
            elif r < 0.8 and olds:
                i = rng.choice(olds)
                if i in g.open:
                    g.commit(i, [rng.choice(HOT[:3])] if rng.random() < 0.8 else None)
            elif r < 0.9:
                olds.append(g.begin())
            elif g.open:
                g.end(rng.choice(list(g.open)))
    for i in olds:
        if i in g.open:
            g.commit(i, [rng.choice(HOT[:3])])


def late_recommit(g, gi, rng):
    """transactions of every mode are refused once (Conflict), stay open across more than one GC
    interval of traffic by others (all of which end, so only the refused ones hold the watermark),
    then commit again: a key written meanwhile (Conflict again) or a key nobody wrote (accepted) —
    never Retry: a refused transaction keeps its tracker slot"""
    g.filler(rng.randint(1, 30))
    olds = [g.begin(m) for m in (["wo", "rw", "wo"] if g.api else ["wo", "rw", "un", "wo"])]
    g.filler(3, hot_every=1)
    i = g.begin("wo")
    g.commit(i, HOT[:3])
    for t in olds:
        g.commit(t, [rng.choice(HOT[:3])])          # refused: Conflict
    g.filler(gi + rng.randint(5, 80), hot_every=rng.choice([0, 40]))
    g.commit(olds[0], ["63%04x" % rng.randint(0, 9999)])   # nobody wrote it: accepted
    g.filler(gi + rng.randint(5, 80))
    for t in olds[1:]:
        if t in g.open:
            g.commit(t, [rng.choice(HOT)] if rng.random() < 0.5 else ["63%04x" % rng.randint(0, 9999)])


def gen_history(rng, model, api, gi, kind):
    g = HistGen(rng, model, api, gi)
    if kind == "late-recommit":
        late_recommit(g, gi, rng)
    elif kind == "f13":
        witness_f13(g)
    elif kind == "restore-livelock":
        witness_restore(g, gi)
    elif kind == "restore-lost-update":
        witness_restore_lost_update(g)
    elif kind == "restore-catchup":
        witness_restore_catchup(g)
    elif kind == "restore-open":
        restore_open(g, gi, rng)
    elif kind == "short":
        for _ in range(rng.randint(20, 90)):
            g.step(SHORT_W)
    elif kind == "long":
        # old transactions of every mode stay open across more than two GC intervals of traffic
        old = [g.begin(m) for m in (["rw", "wo"] if api else ["rw", "wo", "un"])]
        g.filler(rng.randint(3, 40), hot_every=3)
        old.append(g.begin())
        target = 2 * gi + rng.randint(100, 500)
        w = dict(LONG_W)
        if rng.random() < 0.5:
            w["restore"] = 0
            w["checkpoint"] = 0
        while g.commits + g.fails < target:
            g.step(w)
            if rng.random() < 0.02 and old:
                i = old.pop(rng.randrange(len(old)))
                if i in g.open:
                    g.commit(i, [rng.choice(HOT)] if rng.random() < 0.7 else None)
                    if i in g.open and rng.random() < 0.5:
                        g.end(i)
        for i in list(g.open):
            g.commit(i, [rng.choice(HOT)] if rng.random() < 0.6 else None)
    # every open transaction tries once more, then a fresh one must get through
    for i in list(g.open)[:4]:
        g.commit(i)
    i = g.begin("rw")
    g.commit(i, [HOT[-1]])
    return g


class GenResult:
    """the picklable part of a HistGen"""

    def __init__(self, g):
        self.cs, self.exp, self.orc, self.check_ev, self.h = g.cs, g.exp, g.orc, g.check_ev, g.h
        self.commits, self.fails, self.restores = g.commits, g.fails, g.restores


def gen_job(job):
    seed, api, kind, gi = job
    model = G.Model()
    try:
        return GenResult(gen_history(C.Rng(seed), model, api, gi, kind))
    finally:
        model.close()


# ------------------------------------------------------------------ running and judging
def run_scripts(scripts, sides=("impl", "model")):
    """scripts: list of line lists (self-contained). -> list of (impl_lines, model_lines)"""
    idx = C.shard(list(range(len(scripts))), C.NCPU)
    res = C.run_pairs([[l for i in sh for l in scripts[i]] for sh in idx], sides=sides)
    out = [None] * len(scripts)
    for sh, r in zip(idx, res):
        pos = 0
        il = r["impl"][0]
        ml = r["model"][0] if "model" in r else None
        for i in sh:
            n = len(scripts[i])
            out[i] = (il[pos:pos + n], ml[pos:pos + n] if ml is not None else None)
            pos += n
    return out


def first_diff(a, b):
    for j in range(max(len(a), len(b))):
        x = a[j] if j < len(a) else "<missing>"
        y = b[j] if j < len(b) else "<missing>"
        if x != y:
            return j
    return None


def replay_text(pid, desc, notes, lines, impl, model, upto=None):
    out = ["# property=%s" % pid, "# oracle: " + desc]
    out += ["# " + n for n in notes]
    last = len(lines) if upto is None else upto + 1
    for j in range(last):
        out.append("> " + lines[j])
        out.append("IMPL:  " + (impl[j] if j < len(impl) else "<missing>"))
        if model is not None:
            out.append("MODEL: " + (model[j] if j < len(model) else "<missing>"))
    return "\n".join(out) + "\n"


def describe(h, upto):
    out = []
    for n, e in enumerate(h.ev[:upto + 1]):
        if e["op"] == "commit":
            out.append("event %d: commit tx %d keys %s -> %s%s" % (n, e["id"], ",".join(e["keys"]) or "-", e["verdict"],
                                                                  (" (stamp %d)" % e["stamp"]) if e.get("stamp") else ""))
        elif e["op"] in ("begin", "end"):
            out.append("event %d: %s tx %d %s" % (n, e["op"], e["id"], e.get("mode", "")))
        else:
            out.append("event %d: %s %s" % (n, e["op"], "" if e.get("max") is None else "max=%d" % e["max"]))
    return out


def compress_notes(notes, keep=60):
    if len(notes) <= keep:
        return notes
    return notes[:10] + ["... (%d events omitted; the script below is complete) ..." % (len(notes) - keep)] + notes[-(keep - 10):]


def explore(ctx):
    pid = "C04"
    rng = C.Rng(ctx["seed"] * 7919 + 404)
    quick = ctx["tier"] == "quick"
    res = dict(violations=[], known=[], disagreements=[])
    if not ctx["have_model"]:
        res["disagreements"].append("model side unavailable (extraction/driver did not build)")
        res["coverage"] = {"evaluations": 0, "distinct_nontrivial": 0}
        return res
    kf = C.known_findings(pid)
    gi = gc_interval()
    cov = dict(evaluations=0, distinct_nontrivial=0, disagreements_checked=0, exhaustive=False)
    distinct = set()
    known_replays = {}

    def known(cls, text, tag=""):
        res["known"].append(kf[cls])
        if cls + tag not in known_replays:
            known_replays[cls + tag] = C.write_replay(pid, "known_%s%s.txt" % (cls, tag), text)

    # the compiled constant must be the one the model was generated with
    r = run_scripts([["orc params"]])[0]
    cov["evaluations"] += 1
    if r[0] != r[1] or r[0] != ["GC_INTERVAL=%d" % gi]:
        res["disagreements"].append("GC_INTERVAL: compiled crate says %s, Params.v/model says %s" % (r[0], r[1]))

    # ---- A1 ----
    n_short, n_long = (600, 32) if quick else (20000, 640)
    scripts = [a1_script(rng, gi, False) for _ in range(n_short)] + [a1_script(rng, gi, True) for _ in range(n_long)]
    out = run_scripts(scripts)
    a1_gc = 0
    for L, (il, ml) in zip(scripts, out):
        cov["evaluations"] += len(L)
        cov["disagreements_checked"] += len(L)
        j = first_diff(il, ml)
        if j is not None:
            desc = "Conc/Oracle.v and CommitOracle differ on `%s`: impl=%s model=%s" % (L[j], il[j] if j < len(il) else "<missing>", ml[j] if j < len(ml) else "<missing>")
            res["disagreements"].append(desc)
            if len(res["violations"]) < 3:
                res["violations"].append((desc, replay_text(pid, desc, [], L, il, ml, upto=j)))
        kepts = set(re.findall(r"kept=(\d+)", " ".join(x for x in il if x.startswith("kept="))))
        if len(kepts) >= 3:
            a1_gc += 1
        if any(x == "conflict" for x in il) and any(x == "retry" for x in il):
            distinct.add(C.fnv("\n".join(L).encode()))
    cov["oracle_call_sequences"] = len(scripts)
    cov["oracle_call_sequences_with_3_or_more_gc_marks"] = a1_gc

    # ---- A2 and B ----  (histories are generated in parallel, each against its own model process)
    plans = []
    for api in (False, True):
        plans += [(api, "f13")] if not api else []
        plans += [(api, "restore-livelock"), (api, "restore-lost-update"), (api, "restore-catchup")]
        plans += [(api, "restore-open")] * (40 if quick else 1000)
        ns, nl = ((160, 16) if quick else (4000, 320)) if not api else ((100, 12) if quick else (2500, 200))
        plans += [(api, "short")] * ns + [(api, "long")] * nl + [(api, "late-recommit")] * (4 if quick else 64)
    jobs = [(ctx["seed"] * 1000003 + 17 * n, api, kind, gi) for n, (api, kind) in enumerate(plans)]
    # long ones first so that the pool drains evenly
    order = sorted(range(len(jobs)), key=lambda n: 0 if jobs[n][2] in ("long", "restore-livelock", "late-recommit") else 1)
    from concurrent.futures import ProcessPoolExecutor
    with ProcessPoolExecutor(max_workers=C.NCPU) as ex:
        done = list(ex.map(gen_job, [jobs[n] for n in order], chunksize=1))
    gens = [None] * len(jobs)
    for n, g in zip(order, done):
        gens[n] = (jobs[n][1], jobs[n][2], g)
    scripts = [(g.cs if api else g.orc) for api, kind, g in gens]
    out = run_scripts(scripts)
    stats = dict(histories_orc=0, histories_api=0, commits=0, failed_commits=0, restores=0, histories_over_2_gc_intervals=0,
                 conflicts=0, retries=0, open_across_restore_refused_api=0, open_across_restore_refused_model=0,
                 fresh_after_restore_commits_api=0)
    seen_unknown = set()
    for (api, kind, g), L, (il, ml) in zip(gens, scripts, out):
        cov["evaluations"] += len(L)
        cov["disagreements_checked"] += len(L)
        stats["histories_api" if api else "histories_orc"] += 1
        stats["commits"] += g.commits
        stats["failed_commits"] += g.fails
        stats["restores"] += g.restores
        if g.commits + g.fails > 2 * gi:
            stats["histories_over_2_gc_intervals"] += 1
        j = first_diff(il, ml)
        if j is not None:
            what = "Conc/CommitSeq.v and the store (public API)" if api else "Conc/Oracle.v and CommitOracle"
            desc = "%s differ on `%s` (history kind %s): impl=%s model=%s" % (what, L[j], kind, il[j] if j < len(il) else "<missing>", ml[j] if j < len(ml) else "<missing>")
            res["disagreements"].append(desc)
            if len(res["violations"]) < 3:
                res["violations"].append((desc, replay_text(pid, desc, [], L, il, ml, upto=j)))
            continue
        # the implementation's verdicts into the event log
        if api:
            k = 0
            for n, line in enumerate(L):
                if line.startswith("cs commit"):
                    while g.h.ev[k]["op"] != "commit":
                        k += 1
                    g.h.ev[k]["verdict"] = il[n]
                    g.h.ev[k]["line"] = n
                    k += 1
        else:
            for n, evi in g.check_ev.items():
                e = g.h.ev[evi]
                e["line"] = n
                if il[n] in ("conflict", "retry"):
                    e["verdict"] = il[n]
                elif e["verdict"] in ("conflict", "retry"):
                    e["verdict"] = "ok"    # cannot happen when the two sides agree
        stats["conflicts"] += sum(1 for e in g.h.ev if e["op"] == "commit" and e["verdict"] == "conflict")
        stats["retries"] += sum(1 for e in g.h.ev if e["op"] == "commit" and e["verdict"] == "retry")
        if any(e["op"] == "commit" and e["verdict"] == "conflict" for e in g.h.ev):
            distinct.add(C.fnv("\n".join(L).encode()))
        verdicts = g.h.evaluate()
        stats["open_across_restore_refused_api" if api else "open_across_restore_refused_model"] += g.h.stats["open_across_restore_refused"]
        if api:
            stats["fresh_after_restore_commits_api"] += g.h.stats["fresh_after_restore_commits"]
        for (n, what, cls, text) in verdicts:
            e = g.h.ev[n]
            upto = e.get("line")
            desc = "%s: %s [%s history, %s]" % (what, text, kind, "public API" if api else "oracle facade")
            rt = replay_text(pid, desc, compress_notes(describe(g.h, n)), L, il, ml, upto=upto)
            if cls and cls in kf:
                known(cls, rt, "_%s_%s" % (what, "api" if api else "facade"))
            else:
                sig = (what, api)
                if sig not in seen_unknown and len(res["violations"]) < 4:
                    seen_unknown.add(sig)
                    res["violations"].append((desc, rt))
    cov.update(stats)

    # ---- C ----
    c = explore_e2(ctx, pid, gi, quick)
    res["violations"] += c["violations"]
    res["disagreements"] += c["disagreements"]
    res["known"] += c["known"]
    cc = c["coverage"]
    cov["evaluations"] += cc.get("evaluations", 0)
    cov["disagreements_checked"] += cc.get("disagreements_checked", 0)
    cov["e2_programs"] = cc.get("programs", 0)
    cov["e2_profiles"] = cc.get("profiles", {})
    cov["e2_op_mix"] = cc.get("op_mix", {})
    cov["e2_conflicts_expected"] = cc.get("conflicts_expected", 0)
    cov["distinct_nontrivial"] = len(distinct) + cc.get("distinct_nontrivial", 0)
    cov["known_finding_replays"] = known_replays

    # ---- D: real interleavings (engine E3): overlapping transactions of several threads that all write one key,
    # scheduled at the yield points of the commit pipeline; oracle = first committer wins, from the recorded trace
    from . import e3lib as E3
    rng3 = C.Rng(ctx["seed"] * 9176 + 404)
    scheds = E3.plan(rng3, quick, [("hot", 240)])
    v3, d3, cov3, _obs = E3.campaign(pid, ctx, scheds, "c04")
    seen3 = set()
    for cls, d, text in v3:
        if cls not in seen3 and len(res["violations"]) < 4:
            seen3.add(cls)
            res["violations"].append(("%s (interleaving engine): %s" % (cls, d), text))
    cov["evaluations"] += cov3.get("schedules", 0)
    cov["distinct_nontrivial"] += cov3.get("hot_conflicts", 0) and cov3.get("schedules", 0)
    cov["e3_hot"] = {k: cov3.get(k) for k in ("schedules", "events", "hot_ok_commits", "hot_conflicts", "traces_validated", "traces_rejected", "committer_threads")}
    cov["samples"] = [" ; ".join(gens[0][2].orc[:12]), " ; ".join(l[3:] for l in gens[-1][2].cs[:14])] + cc.get("samples", [])[:1]
    cov["rule"] = ("A1: random CommitOracle call sequences (%d, of which %d with > 2 x GC_INTERVAL publishes: counts > 1, duplicate keys, moving / stuck / "
                   "regressing watermarks, rollbacks of latest and older stamps, resets), every answer and a bisected observation of kept_since and of "
                   "each hot key's stamp compared with Conc/Oracle.v; A2: histories of Conc/CommitSeq.v (begin rw/wo/unregistered, commit, failed commit "
                   "with rollback, re-commit after failure, end, restore to arbitrary points, > 2 x GC_INTERVAL commits under old open transactions) "
                   "replayed call by call on the crate's oracle; B: the failure-free histories on a real store through the public API incl. "
                   "create_checkpoint/restore_from_checkpoint, with transactions of both modes left open across one or two restores (their commits must be "
                   "answered Retry for good, fresh ones never; corpus: restore-livelock, restore-lost-update, restore-catchup); C: E2 programs with many overlapping writers on few keys, write-only transactions and "
                   "> GC_INTERVAL commits under open readers vs Spec/Machine.v; D: interleavings of 3-8 committer threads whose transactions all write one key "
                   "(engine E3, yield points of the commit pipeline): no two overlapping writers both commit. Non-trivial = a history/program in which at least one commit was refused "
                   "with Conflict; distinct by script text" % (n_short + n_long, n_long))
    res["coverage"] = cov
    return res


# ------------------------------------------------------------------ C: E2 programs
OPTS = ["lc=2", "lc=3"]
W = dict(begin=22, write=34, get=6, scan=1, range=0, cur=0, sp=2, rbsp=1, commit=26, rollback=2, drop=4,
         rotate=0, flush=1, flush1=0, compact=0, compactauto=0, reopen=0)
PROFILES = [
    dict(name="overlapping-writers", opts=OPTS, weights=W, max_tx=7, keys=["61", "62", "63"], length=(60, 160)),
    dict(name="write-only", opts=OPTS, weights=dict(W, get=0, scan=0), max_tx=6, keys=["61", "62", "63", "64"], length=(60, 140),
         modes=[3, 0, 8]),
    dict(name="hot-key", opts=OPTS, weights=dict(W, begin=30, commit=34), max_tx=7, keys=["61", "6162"], length=(50, 120)),
]


def nontrivial(lines, exp):
    return any(l.split()[1] == "commit" and e == "err:Conflict" for l, e in zip(lines, exp))


def bulk_program(rng, model, gi):
    """> GC_INTERVAL commits in one program while old transactions (read-write and write-only) stay
    open; afterwards the old ones write a key that was written since they began (must get Conflict:
    never Ok, never Retry) or a key nobody wrote (must commit)."""
    g = G.ProgGen(rng, model, opts=rng.choice(OPTS), keys=["61", "62", "63", "64"], max_tx=64)
    g.start()
    hot = ["61", "62", "63"]
    cold = ["6c01", "6c02", "6c03", "6c04", "6c05", "6c06"]
    nid = [0]

    def short(key, mode="wo"):
        i = 50                     # the id is reused (begin replaces a dropped transaction)
        nid[0] += 1
        g.emit("e2 begin %d %s" % (i, mode))
        g.emit("e2 set %d %s %04x" % (i, key, nid[0] & 0xffff))
        g.emit("e2 commit %d" % i)
        g.emit("e2 drop %d" % i)

    old = []
    oid = 1
    for k in hot:
        short(k)
    total = gi + rng.randint(30, 200) + (gi if rng.random() < 0.4 else 0)
    points = sorted(rng.sample(range(0, total), 6))
    uniq = 0
    for n in range(total):
        if n in points:
            mode = rng.choice(["rw", "wo", "rw"])
            g.emit("e2 begin %d %s" % (oid, mode))
            if mode == "rw" and rng.random() < 0.5:
                g.emit("e2 get %d %s" % (oid, rng.choice(hot)))
            old.append((oid, mode))
            oid += 1
        if rng.random() < 0.04:
            short(rng.choice(hot), rng.choice(["wo", "rw"]))
        else:
            uniq += 1
            short("75%06x" % uniq)
        if old and rng.random() < 0.003:
            # refused now (the key was written since it began), stays open, commits again at the end
            i, mode = rng.choice(old)
            g.emit("e2 set %d %s %04x" % (i, rng.choice(hot), i))
            g.emit("e2 commit %d" % i)
        if old and rng.random() < 0.004:
            i, mode = old.pop(0)      # the oldest goes away: the watermark can move at the next sweep
            g.emit("e2 set %d %s %04x" % (i, rng.choice(hot + cold[:2]), i))
            g.emit("e2 commit %d" % i)
            g.emit("e2 drop %d" % i)
    rng.shuffle(old)
    for i, mode in old:
        k = rng.choice(hot) if rng.random() < 0.6 else cold.pop()
        g.emit("e2 set %d %s %04x" % (i, k, i))
        if rng.random() < 0.3:
            g.emit("e2 set %d %s %04x" % (i, "75%06x" % rng.randint(1, max(1, uniq)), i))
        g.emit("e2 commit %d" % i)
        g.emit("e2 commit %d" % i)      # after a refusal the write set is gone: an empty commit
        g.emit("e2 drop %d" % i)
    g.keys = ["61", "62", "63", "64"] + ["6c01", "6c02", "6c03"]
    return g.finish()


def bulk_job(job):
    seed, gi = job
    model = G.Model()
    try:
        return bulk_program(C.Rng(seed), model, gi)
    finally:
        model.close()


def explore_e2(ctx, pid, gi, quick):
    r = G.explore_profiles(ctx, pid, PROFILES, nontrivial, n_quick=150, n_thorough=2500)
    r["coverage"]["conflicts_expected"] = 0
    # bulk programs
    from concurrent.futures import ProcessPoolExecutor
    with ProcessPoolExecutor(max_workers=C.NCPU) as ex:
        progs = list(ex.map(bulk_job, [(ctx["seed"] * 104729 + 4 + 31 * n, gi) for n in range(8 if quick else 128)], chunksize=1))
    got = G.run_impl(progs)
    for (lines, exp), g in zip(progs, got):
        r["coverage"]["evaluations"] += len(lines)
        r["coverage"]["disagreements_checked"] += len(lines)
        r["coverage"]["programs"] += 1
        r["coverage"]["profiles"]["bulk>GC_INTERVAL"] = r["coverage"]["profiles"].get("bulk>GC_INTERVAL", 0) + 1
        r["coverage"]["conflicts_expected"] += sum(1 for e in exp if e == "err:Conflict")
        if nontrivial(lines, exp):
            r["coverage"]["distinct_nontrivial"] += 1
        j = G.first_mismatch(lines, exp, g or [])
        if j is not None:
            gj = (g[j] if g and j < len(g) else "<missing>")
            desc = "`%s`: implementation answers %s, specification %s (program with %d commits, GC_INTERVAL=%d)" % (
                lines[j], gj[:160], exp[j][:160], sum(1 for l in lines if l.startswith("e2 commit")), gi)
            if len(r["violations"]) < 3:
                r["violations"].append((desc, G.replay_text(pid, desc, lines[:j + 1], exp[:j + 1], (g or [])[:j + 1])))
    return r


def replay(ctx):
    text = open(ctx["replay"]).read()
    lines = [l[2:] for l in text.splitlines() if l.startswith("> ")]
    for l in text.splitlines():
        if l.startswith("#"):
            print(l)
    if not lines:
        return 1
    r = C.run_pairs([lines], sides=("impl", "model"))[0]
    il, ml = r["impl"][0], r["model"][0]
    bad = 0
    for i, l in enumerate(lines):
        a = il[i] if i < len(il) else "<missing>"
        b = ml[i] if i < len(ml) else "<missing>"
        tag = "" if a == b or l in G.INFO else "   <-- differs"
        if tag:
            bad += 1
        if i >= len(lines) - 40 or tag:
            print("> " + l)
            print("IMPL:  " + a)
            print("MODEL: " + b + tag)
    print("lines: %d, differing: %d (only the last 40 and differing lines are shown)" % (len(lines), bad))
    return 0
