"""C12 — commit log reads back as an exact prefix; repair keeps all valid records.

Engine E1: scripts over the WAL facade (surrealkv::verif::wal) and over the extracted model
(Codec/Wal.v instantiated in Codec/WalInst.v).  Python holds the property oracle."""
import os, re
from . import common as C

PARAM_SECTIONS = ["wal"]

MODEL_TARGETS = ["theories/Codec/WalInst.vo"]
TRUSTED = [
    "CRC-32 is computed by Base/Crc32.v on the model side (checked against crc32fast through byte-identical files); "
    "theorems take the checksum as a section variable",
    "LZ4 is not modelled: compressed segments are checked against the property oracle only (implementation side)",
    "modelled, not verified: BufWriter/File I/O (a segment is a byte list; read() returns full blocks except at end of file)",
]
ASSUMPTIONS = [
    "damage is detected unless CRC-32 of the altered physical record collides (probability 2^-32 per record)",
    "file reads return whole blocks except at end of file",
]
H = 7


def layout(B, sessions):
    """independent re-computation of the writer's layout, used only to aim mutations:
    returns (length, phys=[(start, datalen)], pads=[(start,len)], rec_ends)"""
    pos = 0
    phys, pads, ends = [], [], []
    for sess in sessions:
        off = pos % B
        for L in sess:
            if L == 0:
                continue
            rem = L
            begin = True
            while begin or rem > 0:
                left = B - off
                if left < H:
                    pads.append((pos, left))
                    pos += left
                    off = 0
                avail = B - off - H
                n = min(rem, avail)
                phys.append((pos, n))
                pos += H + n
                off += H + n
                rem -= n
                begin = False
            ends.append(pos)
    return pos, phys, pads, ends


def gen_files(rng, B, tier):
    """record-length recipes: list of (name, comp, sessions[[(len, seed)]])"""
    files = []
    n_small = 6 if tier == "quick" else 30
    for i in range(n_small):
        k = rng.randint(1, 8)
        recs = [(rng.choice([1, 2, 3, 7, 8, 50, 200, rng.randint(1, 400)]), rng.randint(0, 255)) for _ in range(k)]
        cut = sorted(rng.sample(range(0, k + 1), rng.randint(0, min(2, k))))
        sess, prev = [], 0
        for c in cut + [k]:
            sess.append(recs[prev:c])
            prev = c
        files.append(("s%d" % i, 0, [s for s in sess]))
    # boundary recipes: a filler record ends exactly d bytes before the block end
    ds = list(range(0, 10)) if tier == "quick" else list(range(0, 16))
    for d in ds:
        pre = rng.choice([0, 1, 3])
        recs = [(rng.randint(1, 60), rng.randint(0, 255)) for _ in range(pre)]
        off = sum(H + l for l, _ in recs)
        fill = B - d - H - off
        recs.append((fill, rng.randint(0, 255)))
        nxt = rng.choice([1, 5, 6, 7, 8, 100])
        recs.append((nxt, rng.randint(0, 255)))
        recs.append((rng.randint(1, 30), rng.randint(0, 255)))
        split = rng.choice([None, len(recs) - 2, len(recs) - 1])
        sess = [recs] if split is None else [recs[:split], recs[split:]]
        files.append(("b%d" % d, 0, sess))
    multi = [B - 7, B - 6, B, 2 * B + 100] if tier == "quick" else [B - 8, B - 7, B - 6, B - 1, B, B + 1, 2 * B - 14, 2 * B, 2 * B + 100, 70000]
    for j, L in enumerate(multi):
        recs = [(rng.randint(1, 40), 1), (L, 2 + j), (rng.randint(1, 40), 3)]
        sess = [recs] if j % 2 == 0 else [recs[:2], recs[2:]]
        files.append(("m%d" % j, 0, sess))
    # an empty record in the middle (the API rejects it; nothing is framed)
    files.append(("e0", 0, [[(5, 1), (0, 0), (6, 2)]]))
    # compressed segments: oracle only
    for j in range(2 if tier == "quick" else 6):
        recs = [(rng.choice([3, 50, 300, 5000, 40000]), rng.randint(0, 255)) for _ in range(rng.randint(1, 5))]
        files.append(("z%d" % j, 1, [recs[:1], recs[1:]]))
    return files


def sess_str(sessions):
    return ";".join(",".join("rep:%d:%d" % (l, s) for l, s in sess) for sess in sessions)


def expected_records(sessions):
    out = []
    for sess in sessions:
        for l, s in sess:
            if l > 0:
                out.append((l, C.fnv(C.rep(l, s))))
    return out


READ_RE = re.compile(r"n=(\d+) \[(.*)\] (\S+)$")


def parse_read(line):
    m = READ_RE.match(line)
    if not m:
        return None
    recs = []
    if m.group(2):
        for part in m.group(2).split(","):
            a, e = part.split("@")
            l, f = a.split("/")
            recs.append((int(l), f, int(e)))
    return recs, m.group(3)


def build_scripts(files, B, rng, tier):
    """returns list of (shard_lines, meta) where meta[i] describes line i for the oracle"""
    shards = []
    budget_t = 70 if tier == "quick" else 400
    budget_d = 60 if tier == "quick" else 400
    budget_a = 14 if tier == "quick" else 80
    for name, comp, sessions in files:
        lines, meta = [], []
        lens = [[l for l, _ in s] for s in sessions]
        total, phys, pads, ends = layout(B, lens) if not comp else (0, [], [], [])
        exp = expected_records(sessions)

        def add(l, **m):
            lines.append(l)
            meta.append(dict(m, file=name, comp=comp, exp=exp, sessions=sessions))
        add("wal params", kind="params")
        add("wal write %s %d %s" % (name, comp, sess_str(sessions)), kind="write")
        add("wal read %s full" % name, kind="full")
        if comp:
            # positions are not predictable for compressed files: use coarse cuts
            approx = sum(min(l, 200) + 20 for l, _ in sum(sessions, []))
            cuts = sorted(set(rng.randint(0, max(1, approx)) for _ in range(20)))
            for n in cuts:
                add("wal read %s trunc %d" % (name, n), kind="trunc", pos=n)
            for n in cuts[:6]:
                add("wal read %s xor %d 1" % (name, n), kind="damage", pos=n)
            shards.append((lines, meta))
            continue
        pts = set(ends) | set(p for p, _ in phys) | set(p for p, _ in pads) | set(range(B, total + 1, B)) | {0, total}
        cand = set()
        for x in pts:
            for dlt in range(-9, 10):
                if 0 <= x + dlt <= total:
                    cand.add(x + dlt)
        cand = sorted(cand)
        if len(cand) > budget_t:
            keep = set(rng.sample(cand, budget_t - 10)) | set(rng.sample(range(0, total + 1), min(10, total + 1)))
            cand = sorted(keep)
        for n in cand:
            add("wal read %s trunc %d" % (name, n), kind="trunc", pos=n)
        dmg = []
        for (st, dl) in phys:
            for hb in range(7):
                for mask in (1, 128, 255):
                    dmg.append(("xor", st + hb, mask))
            dmg.append(("set", st + 6, 0))
            dmg.append(("set", st + 6, 9))
            dmg.append(("set", st + 4, 255))
            if dl > 0:
                for q in {st + 7, st + 7 + dl - 1, st + 7 + rng.randrange(dl)}:
                    dmg.append(("xor", q, rng.choice([1, 2, 64, 128, 255])))
        for (st, pl) in pads:
            for q in range(st, st + pl):
                dmg.append(("set", q, rng.choice([1, 255])))
        if len(dmg) > budget_d:
            dmg = rng.sample(dmg, budget_d)
        for (op, p, v) in dmg:
            if p < total:
                add("wal read %s %s %d %d" % (name, op, p, v), kind="damage", pos=p)
        # recovery flow + append + read back
        acand = [n for n in cand]
        if len(acand) > budget_a:
            acand = rng.sample(acand, budget_a)
        newrecs = [[(rng.choice([1, 9, 40, 300]), 200 + i) for i in range(rng.randint(1, 2))]]
        for i, n in enumerate(sorted(acand)):
            g = "%s_a%d" % (name, i)
            add("wal class %s trunc %d" % (name, n), kind="class")
            add("wal reopen %s %s %s trunc %d" % (name, g, sess_str(newrecs), n), kind="reopen", pos=n, new=newrecs)
            add("wal read %s full" % g, kind="after_reopen", pos=n, new=newrecs)
        for i, (op, p, v) in enumerate(dmg[:budget_a // 2]):
            if p < total:
                g = "%s_d%d" % (name, i)
                add("wal class %s %s %d %d" % (name, op, p, v), kind="class")
                add("wal reopen %s %s %s %s %d %d" % (name, g, sess_str(newrecs), op, p, v), kind="reopen", pos=p, new=newrecs)
                add("wal read %s full" % g, kind="after_reopen", pos=p, new=newrecs)
        shards.append((lines, meta))
    return shards


def unparsed_tail_class(B, sessions, n):
    """known_unparsed_tail (F10/F11): the cut leaves bytes the reader skips as clean end of log
    but the writer appends after: 1..6 bytes of a header after a physical record boundary, or a
    dangling First/Middle fragment sequence.  Computed from the writer layout."""
    lens = [[l for l, _ in s] for s in sessions]
    total, phys, pads, ends = layout(B, lens)
    if n >= total:
        return False
    # position of last physical boundary <= n
    bounds = sorted(set([0] + [st + 7 + dl for st, dl in phys]))
    last = max(b for b in bounds if b <= n)
    # is `last` the end of a logical record (or 0)?
    rec_end = last == 0 or last in ends
    d = n - last
    if rec_end:
        return 1 <= d <= 6 and (n % B) != 0 and ((last % B) <= B - 7)
    # dangling fragments: the reader hits end of file inside a fragment sequence
    return 0 <= d <= 6


def check_shard(B, lines, meta, impl, model, res, stats):
    """apply the property oracle to the implementation's answers and diff against the model"""
    full_ends = None
    delivered_at = {}
    for i, (l, m) in enumerate(zip(lines, meta)):
        il = impl[i] if i < len(impl) else "<missing>"
        ml = model[i] if model is not None and i < len(model) else None
        if m["comp"] and m["kind"] != "params":
            ml = None  # LZ4 is not modelled: oracle only
        stats["evaluations"] += 1
        k = m["kind"]
        stats["kinds"][k] = stats["kinds"].get(k, 0) + 1
        exp = m["exp"]
        bad = None
        if k == "class":
            continue
        if il.startswith("PANIC") or il.startswith("error") or il == "<missing>":
            bad = "implementation failed: " + il
        elif k == "full":
            pr = parse_read(il)
            if not pr or [(a, b) for a, b, _ in pr[0]] != exp or pr[1] != "eof":
                bad = "round trip: appended records are not read back exactly"
            else:
                full_ends = [e for _, _, e in pr[0]]
        elif k in ("trunc", "damage"):
            pr = parse_read(il)
            if not pr:
                bad = "unparsable answer"
            else:
                got = [(a, b) for a, b, _ in pr[0]]
                need = len([e for e in (full_ends or []) if e <= m["pos"]])
                if got != exp[:len(got)]:
                    bad = "delivered records are not a prefix of the appended records"
                elif len(got) < need:
                    bad = "a record lying wholly before the damage (offset %d) was not delivered" % m["pos"]
                elif not (pr[1] == "eof" or pr[1].startswith("corrupt:")):
                    bad = "reading ended with neither end-of-log nor a corruption report"
                else:
                    tcls = "eof" if pr[1] == "eof" else "corrupt:" + pr[1].split(":")[1]
                    stats["tails"][tcls] = stats["tails"].get(tcls, 0) + 1
                    if len(got) < len(exp):
                        stats["nontrivial"].add((m["file"], k, m["pos"]))
        elif k == "reopen":
            if il == "openfail":
                bad = "opening a segment the store wrote itself failed"
        elif k == "after_reopen":
            pr = parse_read(il)
            new = expected_records(m["new"])
            if not pr:
                bad = "unparsable answer"
            else:
                got = [(a, b) for a, b, _ in pr[0]]
                need = len([e for e in (full_ends or []) if e <= m["pos"]])
                ok = len(got) >= len(new) and got[len(got) - len(new):] == new and \
                    got[:len(got) - len(new)] == exp[:len(got) - len(new)] and len(got) - len(new) >= need and pr[1] == "eof"
                stats["nontrivial"].add((m["file"], k, m["pos"]))
                if not ok:
                    cls = model[i - 2] if model is not None and i >= 2 and i - 2 < len(model) else ""
                    old_ok = [g for g in got if g not in new] == exp[:len([g for g in got if g not in new])]
                    if cls == "class unparsed_tail=true" and "known_unparsed_tail" in res["kf"] and old_ok and len([g for g in got if g not in new]) >= need:
                        # the old records are still a correct prefix, only the appended ones are lost
                        res["known"].append(res["kf"]["known_unparsed_tail"])
                        stats["known_hits"] += 1
                    else:
                        bad = "records appended after reopening/repairing the segment are not read back (or old records changed)"
        if bad:
            text = ["# property=C12", "# oracle: " + bad, "# failing command index %d of the script below" % i]
            # minimal script: params, write, full, and the failing line (+ its predecessor for reopen)
            keep = [0, 1, 2] + ([i - 2, i - 1] if k == "after_reopen" else []) + [i]
            for j in keep:
                text.append("> " + lines[j])
                text.append("IMPL:  " + (impl[j] if j < len(impl) else "<missing>"))
                if model is not None and j < len(model):
                    text.append("MODEL: " + model[j])
            res["violations"].append((bad + " [" + l + "]", "\n".join(text) + "\n"))
        elif ml is not None and ml != il and ml != "skip":
            res["disagreements"].append("model and implementation differ on `%s`: impl=%s model=%s" % (l, il[:300], ml[:300]))
        if ml is not None and ml != "skip":
            stats["compared"] += 1


def explore(ctx):
    rng = C.Rng(ctx["seed"] * 7919 + 12)
    tier = ctx["tier"]
    rc, outp = C.run("printf 'wal params\\n' | " + C.HARNESS_BIN)
    m = re.search(r"BLOCK_SIZE=(\d+) HEADER_SIZE=(\d+)", outp)
    B = int(m.group(1))
    files = gen_files(rng, B, tier)
    shards = build_scripts(files, B, rng, tier)
    sides = ("impl", "model") if ctx["have_model"] else ("impl",)
    results = C.run_pairs([s[0] for s in shards], sides=sides)
    res = dict(violations=[], known=[], disagreements=[], kf=C.known_findings("C12"))
    stats = dict(evaluations=0, kinds={}, tails={}, nontrivial=set(), compared=0, known_hits=0)
    for (lines, meta), r in zip(shards, results):
        impl = r["impl"][0]
        model = r["model"][0] if "model" in r else None
        if len(impl) != len(lines):
            res["disagreements"].append("implementation side produced %d answers for %d commands: %s" % (len(impl), len(lines), r["impl"][1][-300:]))
        if model is not None and len(model) != len(lines):
            res["disagreements"].append("model side produced %d answers for %d commands: %s" % (len(model), len(lines), r["model"][1][-300:]))
        check_shard(B, lines, meta, impl, model, res, stats)
    if not ctx["have_model"]:
        res["disagreements"].append("model side unavailable (extraction/driver did not build)")
    samples = []
    for (lines, meta) in shards[:3]:
        samples.append(lines[1][:200])
        samples += [l for l in lines[3:6]]
    res["coverage"] = {
        "evaluations": stats["evaluations"],
        "distinct_nontrivial": len(stats["nontrivial"]),
        "rule": "files from record-length recipes (random small, filler ending 0..9(15) bytes before a block end, multi-block, "
                "session splits, empty record, LZ4); per file: every truncation offset within +-9 of each record end / physical "
                "record start / padding / block boundary (sampled to a budget in quick), single-byte xor/set damage on every header "
                "byte of every physical record, payload and padding bytes; recovery flow (read, repair on corruption, append, read). "
                "non-trivial = distinct (file, kind, offset) whose answer drops at least one record or exercises append-after-recovery",
        "samples": samples,
        "programs": len(shards), "disagreements_checked": stats["compared"],
        "files": len(files), "op_mix": stats["kinds"], "tail_kinds": stats["tails"],
        "known_class_hits": stats["known_hits"], "block_size": B,
        "exhaustive": False,
    }
    # store level: commits acknowledged after the repair of a damaged segment are read back at the next open
    # (the writer of Core::new must append to the file that is on disk after the repair)
    from . import multigen as MG
    d = MG.directed("C12", dict(violations=[], known=[], disagreements=[], coverage={}))
    res["violations"] += [(desc, text) for (desc, text, _) in d["violations"]]
    res["known"] += d["known"]
    res["coverage"]["directed_scenarios"] = d["coverage"].get("protocol_model", {}).get("directed_scenarios")
    res["coverage"]["rule"] += "; plus the store-level scenario `repairappend` (tools/repro/multigen.py)"
    return res


def replay(ctx):
    text = open(ctx["replay"]).read()
    lines = [l[2:] for l in text.splitlines() if l.startswith("> ")]
    if not lines:
        print(text)
        return 1
    r = C.run_pairs([lines], sides=("impl", "model") if ctx["have_model"] else ("impl",))[0]
    for i, l in enumerate(lines):
        print("> " + l)
        print("IMPL:  " + (r["impl"][0][i] if i < len(r["impl"][0]) else "<missing>"))
        if "model" in r:
            print("MODEL: " + (r["model"][0][i] if i < len(r["model"][0]) else "<missing>"))
    return 0
