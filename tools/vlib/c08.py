"""C08 — inside a transaction: read-your-writes, savepoints, rollback and modes (E2 engine)."""
from . import e2gen as G

MODEL_TARGETS = ["theories/Spec/Machine.vo"]
TRUSTED = ["the transaction layer of the specification machine is the write-set model Txn/WriteSet.v (about which the "
           "theorems of Props/C08.v are proved); a fresh observer transaction checks that nothing leaks"]
ASSUMPTIONS = []

OPTS = ["lc=3", "lc=2,bs=64", "lc=3,vlog=1,vth=4,vfs=256"]
W = dict(begin=5, write=45, get=25, scan=6, range=2, cur=6, sp=10, rbsp=9, commit=5, rollback=3, drop=2,
         rotate=0, flush=1, flush1=0, compact=1, compactauto=0, reopen=0)
KEYS = ["61", "6162", "616263", "62", "6200", "62ff", "ff", "00", "61ff"]
PROFILES = [
    dict(name="savepoints", opts=OPTS, weights=W, keys=KEYS[:5], max_tx=2, length=(40, 120)),
    dict(name="modes-errors", opts=OPTS, weights=dict(W, begin=12, commit=10, rollback=6, sp=4, rbsp=6), keys=KEYS, max_tx=4, length=(40, 100)),
    dict(name="observer", opts=OPTS, weights=dict(W, begin=10, get=35, scan=10), keys=KEYS[:4], max_tx=3, length=(40, 100)),
    dict(name="timestamps", opts=["lc=2,ver=1,vlog=1,vth=0"], weights=W, keys=KEYS[:4], max_tx=2, length=(30, 80), ts_mode=True),
    # several explicit-timestamp versions of one key inside one savepoint, then partial rollbacks
    dict(name="explicit-ts-savepoints", opts=["lc=2,ver=1,vlog=1,vth=0", "lc=2"], weights=dict(W, write=50, sp=12, rbsp=12, get=30, commit=6),
         keys=KEYS[:2], max_tx=2, length=(40, 100), ts_mode=True, kind_weights=[3, 1, 1, 1, 12]),
]


def nontrivial(lines, exp):
    ops = [l.split()[1] for l in lines]
    return ops.count("sp") >= 1 and ops.count("rbsp") >= 1 and ops.count("get") >= 3


def explore(ctx):
    r = G.explore_profiles(ctx, "C08", PROFILES, nontrivial, n_quick=300, n_thorough=4000)
    r["coverage"]["rule"] = ("single- and multi-transaction programs of set/delete/soft delete/replace/explicit-timestamp writes, reads, "
                             "nested savepoints, partial rollbacks, commit/rollback/drop in all three modes incl. operations on closed or "
                             "wrong-mode transactions and empty keys, keys that are prefixes of each other and 0x00/0xff bytes, empty values; "
                             "non-trivial = at least one savepoint, one rollback-to-savepoint and three reads; distinct by program text")
    return r


replay = G.replay
